"""First/last-element access on a possibly empty list: `x[0]` / `x[-1]` where x is a local list needs, on every path, an
emptiness test of x (truthiness, a `len(x)` comparison, `x and ...` in the same boolean expression), or an `x.append(...)`
that dominates it, or x must be something that is never empty by construction (`str.split(...)`, a loop target / record)."""
import ast

from .dataflow import ReachingDefs
from .model import call_name, norm, walk_no_nested, loc


def _base_name(e):
    while isinstance(e, ast.Subscript):
        e = e.value
    return e


def first_elem_sites(fi, view):
    """-> [(subscript node, name, status, reason)] with status in {'ok', 'open'}"""
    out = []
    rd = None
    loop_targets = set()
    for n in ast.walk(fi.node):
        if isinstance(n, (ast.For, ast.comprehension)):
            loop_targets |= {x.id for x in ast.walk(n.target) if isinstance(x, ast.Name)}
    parents = {}
    for p in ast.walk(fi.node):
        for c in ast.iter_child_nodes(p):
            parents[id(c)] = p
    for s in walk_no_nested(fi.node):
        if not (isinstance(s, ast.Subscript) and isinstance(s.ctx, ast.Load)):
            continue
        idx = s.slice
        if isinstance(idx, ast.UnaryOp) and isinstance(idx.op, ast.USub) and isinstance(idx.operand, ast.Constant):
            iv = -idx.operand.value if isinstance(idx.operand.value, int) else None
        elif isinstance(idx, ast.Constant) and isinstance(idx.value, int):
            iv = idx.value
        else:
            continue
        if iv not in (0, -1):
            continue
        base = s.value
        if isinstance(base, ast.Call) and call_name(base) in ("split", "rsplit", "partition", "rpartition", "splitlines", "splitext"):
            out.append((s, norm(base)[:30], "ok", "result of %s() is never empty" % call_name(base)))
            continue
        if not isinstance(base, ast.Name):
            continue          # attribute / call results: types unknown, not judged
        name = base.id
        # short-circuit in the same boolean expression: `x and ... x[0]` / `len(x) ... and x[0]`
        p, sc = s, False
        while id(p) in parents:
            q = parents[id(p)]
            if isinstance(q, ast.BoolOp) and isinstance(q.op, ast.And):
                i = next((k for k, v in enumerate(q.values) if any(z is p for z in ast.walk(v))), None)
                if i and any(_tests_nonempty(v, name) for v in q.values[:i]):
                    sc = True
            if isinstance(q, ast.IfExp) and any(z is p for z in ast.walk(q.body)) and _tests_nonempty(q.test, name):
                sc = True
            if isinstance(q, ast.stmt):
                break
            p = q
        if sc:
            out.append((s, name, "ok", "short-circuit emptiness test in the same expression"))
            continue
        rd = rd or ReachingDefs(fi)
        defs = rd.at(s, name) or []
        if not defs and name in loop_targets:
            out.append((s, name, "ok", "a comprehension / loop element (a record), not a list that may be empty"))
            continue
        if defs and all(d.kind in ("for", "unpack", "with", "param") or
                        (d.kind == "assign" and isinstance(d.value, ast.Call) and call_name(d.value) in ("split", "rsplit", "partition"))
                        for d in defs):
            kinds = {d.kind for d in defs}
            if kinds <= {"for", "unpack", "with"} or kinds == {"assign"}:
                out.append((s, name, "ok", "a record / loop element or split() result, not a list that may be empty"))
                continue
            if kinds == {"param"}:
                # parameters: emptiness is the caller's business unless tested here
                pass
        node = view.cfg.node_of(_stmt_of(s, parents))
        g = view.guard_for(node, lambda t: _tests_nonempty(t, name) or _tests_empty(t, name)) if node is not None else None
        if g is not None:
            cond, label = g[0], g[1]
            nonempty_edge = (label is True and _tests_nonempty(cond.ast, name)) or (label is False and _tests_empty(cond.ast, name))
            if nonempty_edge:
                out.append((s, name, "ok", "dominated by an emptiness test of `%s`" % name))
                continue
        # an append/extend/insert on the same name dominating the access
        apps = [n_ for (n_, c) in view.calls(lambda c: isinstance(c.func, ast.Attribute) and c.func.attr in ("append", "insert")
                                             and isinstance(c.func.value, ast.Name) and c.func.value.id == name)]
        if node is not None and any(view.dominates(a, node) and a is not node for a in apps):
            out.append((s, name, "ok", "an append to `%s` dominates the access" % name))
            continue
        out.append((s, name, "open", "no emptiness test of `%s` on the way" % name))
    return out


def _stmt_of(node, parents):
    p = node
    while not isinstance(p, ast.stmt) and id(p) in parents:
        p = parents[id(p)]
    # the CFG node of a compound statement's test is the statement itself
    return p


def _tests_nonempty(t, name):
    """t is true only if `name` is non-empty (conjunct-wise)."""
    if isinstance(t, ast.Name) and t.id == name:
        return True
    if isinstance(t, ast.BoolOp) and isinstance(t.op, ast.And):
        return any(_tests_nonempty(v, name) for v in t.values)
    if isinstance(t, ast.Compare) and len(t.ops) == 1 and isinstance(t.left, ast.Call) and call_name(t.left) == "len" and \
            t.left.args and isinstance(t.left.args[0], ast.Name) and t.left.args[0].id == name and \
            isinstance(t.comparators[0], ast.Constant) and isinstance(t.comparators[0].value, int):
        k, op = t.comparators[0].value, t.ops[0]
        return (isinstance(op, ast.Gt) and k >= 0) or (isinstance(op, ast.GtE) and k >= 1) or \
               (isinstance(op, ast.Eq) and k >= 1) or (isinstance(op, ast.NotEq) and k == 0)
    if isinstance(t, ast.Call) and call_name(t) == "len" and t.args and isinstance(t.args[0], ast.Name) and t.args[0].id == name:
        return True
    return False


def _tests_empty(t, name):
    """t is true whenever `name` is empty (so its false edge implies non-empty)."""
    if isinstance(t, ast.UnaryOp) and isinstance(t.op, ast.Not):
        return _tests_nonempty_exact(t.operand, name)
    if isinstance(t, ast.BoolOp) and isinstance(t.op, ast.Or):
        return any(_tests_empty(v, name) for v in t.values)
    if isinstance(t, ast.Compare) and len(t.ops) == 1 and isinstance(t.left, ast.Call) and call_name(t.left) == "len" and \
            t.left.args and isinstance(t.left.args[0], ast.Name) and t.left.args[0].id == name and \
            isinstance(t.comparators[0], ast.Constant) and isinstance(t.comparators[0].value, int):
        k, op = t.comparators[0].value, t.ops[0]
        return (isinstance(op, ast.Eq) and k == 0) or (isinstance(op, ast.Lt) and k >= 1) or (isinstance(op, ast.LtE) and k >= 0) or \
               (isinstance(op, ast.NotEq) and k >= 1)
    return False


def _tests_nonempty_exact(t, name):
    """`not t` is true whenever name is empty: t must be exactly the truthiness / len of name (or a conjunction containing it)."""
    if isinstance(t, ast.Name) and t.id == name:
        return True
    if isinstance(t, ast.Call) and call_name(t) == "len" and t.args and isinstance(t.args[0], ast.Name) and t.args[0].id == name:
        return True
    if isinstance(t, ast.BoolOp) and isinstance(t.op, ast.And):
        return any(_tests_nonempty_exact(v, name) for v in t.values)
    return False


def check_first_elem(ctx, rule, funcs, why):
    from .dom import view
    n = 0
    for f in funcs:
        sites = first_elem_sites(f, view(ctx, f))
        if sites:
            ctx.saw(f)
        for sub, name, status, reason in sites:
            n += 1
            ctx.check(status == "ok", rule, f.qualname, sub, loc(f, sub),
                      "`%s` takes the first/last element of `%s` with %s: when the list is empty this is an IndexError out of "
                      "validation instead of an issue. %s" % (norm(sub), name, reason, why),
                      desc="%s: `%s` — %s" % (f.short, norm(sub), reason))
    return n


# ---------------------------------------------------------------------------------------------------------------
# pandas: first/last row of a selection made with a boolean mask
POS_ATTRS = ("index", "iloc", "iat", "values", "array")


def _is_mask_selection(e):
    """`X.loc[<mask>, ...]`, `X[<mask>]`, `X.loc[<mask>]` where the row selector is a comparison / boolean combination
    of comparisons / a `.isin()` / `.isna()`-style call: the result may have no rows."""
    if not isinstance(e, ast.Subscript):
        return False
    sel = e.slice
    if isinstance(sel, ast.Tuple) and sel.elts:
        sel = sel.elts[0]

    def boolish(x):
        if isinstance(x, ast.Compare):
            return True
        if isinstance(x, ast.BinOp) and isinstance(x.op, (ast.BitAnd, ast.BitOr)):
            return boolish(x.left) or boolish(x.right)
        if isinstance(x, ast.UnaryOp) and isinstance(x.op, ast.Invert):
            return boolish(x.operand) or True
        if isinstance(x, ast.Call) and call_name(x) in ("isin", "isna", "isnull", "notna", "notnull", "duplicated", "between",
                                                       "startswith", "endswith", "contains", "match"):
            return True
        return False
    return boolish(sel)


def _nonempty_labels(test, name):
    """Edge labels of a branch on `test` under which the frame `name` is known to have rows."""
    if isinstance(test, ast.UnaryOp) and isinstance(test.op, ast.Not):
        return {not x for x in _nonempty_labels(test.operand, name)}
    t = norm(test)
    if t == "%s.empty" % name:
        return {False}
    if t == "len(%s)" % name or t == "len(%s.index)" % name:
        return {True}
    if isinstance(test, ast.Compare) and len(test.ops) == 1 and isinstance(test.comparators[0], ast.Constant):
        left, op, c = norm(test.left), test.ops[0], test.comparators[0].value
        if left in ("len(%s)" % name, "len(%s.index)" % name, "%s.shape[0]" % name):
            if isinstance(op, (ast.Gt, ast.NotEq)) and c == 0 or isinstance(op, ast.GtE) and c == 1:
                return {True}
            if isinstance(op, (ast.Eq, ast.LtE)) and c == 0 or isinstance(op, ast.Lt) and c == 1:
                return {False}
    if isinstance(test, ast.BoolOp):
        out = set()
        if isinstance(test.op, ast.And):
            if any(True in _nonempty_labels(v, name) for v in test.values):
                out.add(True)
        else:
            if any(False in _nonempty_labels(v, name) for v in test.values):
                out.add(False)
        return out
    return set()


def first_row_sites(fi, v):
    """-> [(subscript node, frame name, def stmt, status)] for `<name>.index[0]`, `<name>.iloc[0]`, `<name>.values[-1]`...
    where <name> is a local bound to a boolean-mask selection."""
    rd = ReachingDefs(fi)
    out = []
    for s in walk_no_nested(fi.node):
        if not (isinstance(s, ast.Subscript) and isinstance(s.ctx, ast.Load)):
            continue
        idx = s.slice
        if isinstance(idx, ast.Tuple) and idx.elts:
            idx = idx.elts[0]
        if isinstance(idx, ast.UnaryOp) and isinstance(idx.op, ast.USub) and isinstance(idx.operand, ast.Constant):
            iv = -idx.operand.value if isinstance(idx.operand.value, int) else None
        elif isinstance(idx, ast.Constant) and isinstance(idx.value, int) and not isinstance(idx.value, bool):
            iv = idx.value
        else:
            continue
        if iv not in (0, -1):
            continue
        b = s.value
        if not (isinstance(b, ast.Attribute) and b.attr in POS_ATTRS and isinstance(b.value, ast.Name)):
            continue
        name = b.value.id
        defs = [d for d in (rd.at(s, name) or []) if d.value is not None and _is_mask_selection(d.value)]
        if not defs:
            continue
        u = v.node(s)
        ok = False
        if u is not None:
            for c in v.cfg.nodes:
                if c.kind != "cond" or c is u:
                    continue
                for lab in _nonempty_labels(c.ast, name):
                    if v.edge_guards(c, lab, u):
                        ok = True
        out.append((s, name, defs[0].node, "ok" if ok else "open"))
    return out


def check_first_row(ctx, rule, funcs, view, consequence):
    n = 0
    for fi in funcs:
        ctx.saw(fi)
        v = view(ctx, fi)
        for s, name, dnode, status in first_row_sites(fi, v):
            n += 1
            ctx.count_sites()
            ctx.check(status == "ok", rule, fi.qualname, s, loc(fi, s),
                      "%s is a selection by a boolean mask (%s) and may have no rows, but its first/last row is taken without an "
                      "emptiness test on the path: %s" % (name, norm(dnode)[:70], consequence),
                      desc="%s: first row of the mask selection %s taken under an emptiness test" % (fi.short, name))
    return n
