"""A1+A6: 'every rule is wired' — a key is registered with the specification's published code and
severity, and an emission site for it is reachable from the entry point (optionally through a phase
function).  Reach uses an over-approximated call graph, so it cannot raise a false alarm; a missing
path is a definite 'this rule can never fire from here'."""
import json
import os

from .callgraph import STRONG_KINDS
from .dataflow import UNKNOWN
from .model import AnalysisError, loc
from .registry import get_registry
from .report import VERIF


def load_table(name):
    with open(os.path.join(VERIF, "tables", name)) as f:
        return json.load(f)


def resolve_key(prog, ref):
    """'ValidationErrors.HED_TAG_REPEATED' -> the constant's value (AnalysisError when gone)."""
    clsname, _, attr = ref.partition(".")
    cls = prog.find_class(clsname)
    consts = prog.class_constants(cls)
    if attr not in consts:
        raise AnalysisError("anchor constant vanished: %s" % ref)
    return consts[attr]


def check_wiring(ctx, rule, rows, entry, phases=None, kinds=STRONG_KINDS):
    """rows: list of dicts {key: 'Class.CONST', code: published code or None, severity: 'ERROR'|'WARNING',
    phase: name or None}.  phases: name -> FunctionInfo (the site must be reachable from entry via
    that function).  Returns number of keys checked."""
    prog, cg = ctx.prog, ctx.cg
    reg = get_registry(ctx)
    reach_entry = cg.reachable([entry], kinds)
    reach_phase = {}
    for name, f in (phases or {}).items():
        if f not in reach_entry:
            ctx.violation(rule, f.qualname, "phase " + name, loc(f, f.node),
                          "phase function %s is no longer reachable from %s" % (f.short, entry.short))
        reach_phase[name] = cg.reachable([f], kinds)
    ctx.saw(*reach_entry)
    n = 0
    for row in rows:
        ref = row["key"]
        key = resolve_key(prog, ref)
        n += 1
        e = reg.entries.get(key)
        if e is None:
            ctx.violation(rule, ref, "registration of %s" % ref, "hed/errors", "no message function is registered "
                          "under %s (%r): format_error falls back to the 'Unknown' message and code" % (ref, key))
            continue
        where = loc(e.func, e.func.node)
        want_code = row.get("code")
        if want_code is not None:
            want = resolve_key(prog, want_code) if "." in want_code else want_code
            ctx.check(e.code == want, rule, ref, "code of %s" % ref, where,
                      "%s must be published as %s (specification), registered actual_code is %r" % (ref, want, e.code),
                      desc="%s published as %s" % (ref, want))
        if row.get("severity", "ERROR") is not None:
            sev = reg.severity[row.get("severity", "ERROR")]
            ctx.check(e.severity == sev, rule, ref, "severity of %s" % ref, where,
                      "%s must have default severity %s, registered %r" % (ref, row.get("severity", "ERROR"), e.severity),
                      desc="%s severity %s" % (ref, row.get("severity", "ERROR")))
        sites = reg.sites_for_key(key)
        ctx.count_sites(len(sites))
        scope = reach_phase[row["phase"]] if row.get("phase") else reach_entry
        live = [s for s in sites if s.fi in scope and s.fi in reach_entry]
        if live:
            s = live[0]
            chain = cg.path(entry, s.fi, kinds)
            ctx.ok(rule, "%s emitted at %s reachable from %s%s" % (
                ref, s.where, entry.short, (" via " + row["phase"]) if row.get("phase") else ""), s.where)
            # unoverridden sites must exist unless the row allows only overrides
            if row.get("need_plain", True) and want_code is not None:
                plain = [x for x in live if None in x.actual]
                ctx.check(bool(plain), rule, ref, "plain site of %s" % ref, s.where,
                          "every reachable emission of %s overrides the code with actual_error=; "
                          "the specification code %s is never published" % (ref, want_code),
                          desc="%s has an emission without override" % ref)
            for x in live:
                allowed = set(row.get("overrides", []))
                for a in x.actual:
                    if a in (None, UNKNOWN):
                        continue
                    if allowed and a not in allowed or (not allowed and "overrides" in row):
                        ctx.violation(rule, x.fi.qualname, x.call, x.where,
                                      "emission of %s overrides the published code with %r; the specification "
                                      "allows only %s here" % (ref, a, sorted(allowed) or "no override"))
        else:
            others = ["%s (%s)" % (s.where, s.fi.short) for s in sites]
            ctx.violation(rule, ref, "reachability of %s" % ref, where,
                          "no emission site of %s is reachable from %s%s; the rule can never fire. Sites: %s" % (
                              ref, entry.short, (" through " + row["phase"]) if row.get("phase") else "",
                              ", ".join(others) or "none in the package"))
    return n


def check_override_codes(ctx, rule, entry, required, kinds=STRONG_KINDS, phases=None):
    """required: list of {code, phase?, note}: some reachable site must publish `code` through an
    actual_error= override."""
    reg = get_registry(ctx)
    cg = ctx.cg
    reach = cg.reachable([entry], kinds)
    for r in required:
        scope = reach
        if r.get("phase") and phases:
            scope = cg.reachable([phases[r["phase"]]], kinds) & reach
        keyvals = None
        if r.get("keys"):
            keyvals = {resolve_key(ctx.prog, k) for k in r["keys"]}
        hits = [s for s in reg.sites if s.fi in scope and r["code"] in s.actual
                and (keyvals is None or (s.keys & keyvals))]
        if hits:
            ctx.ok(rule, "override actual_error=%s emitted at %s (%s)" % (r["code"], hits[0].where, r.get("note", "")),
                   hits[0].where)
        else:
            ctx.violation(rule, "override:" + r["code"] + ":" + r.get("note", ""), "actual_error=%s" % r["code"],
                          loc(entry, entry.node),
                          "no reachable emission publishes %s through actual_error= (%s)" % (r["code"], r.get("note", "")))
