"""R12.2 decorate-once / R12.3 warnings-filtered: abstract content of issue lists.

Content flags of a list of issues:
  UT / UN : undecorated issues that carry a source tag (created under @hed_tag_error) / that do not
  DT / DN : issues already decorated (context + location suffix added)
  WU      : warning-severity issues that have not passed the warning filter
Decoration (ErrorHandler.add_context_and_filter, format_error_with_context, format_error_from_context)
appends the location suffix to tag-carrying issues each time it is applied, so decorating a list whose
content includes DT duplicates the suffix."""
import ast

from .cfg import build_cfg
from .dataflow import UNKNOWN
from .model import call_name, loc, norm, walk_no_nested
from .registry import get_registry

DECORATE = "add_context_and_filter"


class IssueContent:
    def __init__(self, ctx):
        self.ctx = ctx
        self.prog, self.cg = ctx.prog, ctx.cg
        self.reg = get_registry(ctx)
        self.site_by_call = {id(s.call): s for s in self.reg.sites}
        self.summary = {}
        self.attr_content = {}
        self._resolved = {}
        self.decorate_fn = self.prog.find_function("ErrorHandler." + DECORATE)
        warn = self.reg.severity["WARNING"]
        self.warn = warn
        self._fixpoint()

    # ------------------------------------------------------------------
    def site_content(self, site):
        out = set()
        decorated = site.api != "format_error"
        for k in site.keys:
            e = self.reg.entries.get(k) if k is not UNKNOWN else None
            tag = True if e is None else e.carries_tag
            out.add(("D" if decorated else "U") + ("T" if tag else "N"))
            if e is not None and e.severity >= self.warn and site.api == "format_error":
                out.add("WU")
            if e is not None and e.severity >= self.warn and site.api == "format_error_from_context":
                out.add("WU")   # this API cannot filter
        return out

    def targets(self, call, f):
        key = id(call)
        if key not in self._resolved:
            res = self.cg.resolve_call(call, f)
            prec = [c for (k, c) in res if k == "precise"]
            self._resolved[key] = prec or [c for (k, c) in res if k in ("name",)] or \
                [c for (k, c) in res if k == "weak" and len(res) <= 2]
        return self._resolved[key]

    def expr_content(self, e, f, state):
        if isinstance(e, ast.Call):
            s = self.site_by_call.get(id(e))
            if s is not None:
                return self.site_content(s)
            nm = call_name(e)
            if nm in ("sort_issues", "sorted", "list", "filter_issues_by_severity") and e.args:
                c = self.expr_content(e.args[0], f, state)
                if nm == "filter_issues_by_severity":
                    c = c - {"WU"}
                return c
            out = set()
            for t in self.targets(e, f):
                out |= self.summary.get(t, set())
            return out
        if isinstance(e, ast.Name):
            return set(state.get(e.id, ()))
        if isinstance(e, ast.BinOp) and isinstance(e.op, ast.Add):
            return self.expr_content(e.left, f, state) | self.expr_content(e.right, f, state)
        if isinstance(e, ast.IfExp):
            return self.expr_content(e.body, f, state) | self.expr_content(e.orelse, f, state)
        if isinstance(e, (ast.List, ast.Tuple)):
            out = set()
            for x in e.elts:
                out |= self.expr_content(x, f, state)
            return out
        if isinstance(e, ast.Attribute) and isinstance(e.value, ast.Name) and e.value.id == "self" and \
                ("self." + e.attr) in state:
            return set(state.get("self." + e.attr, ()))
        if isinstance(e, ast.Attribute):
            # an issue list kept on an object (sidecar._extract_definition_issues) or exposed by a property (.issues)
            out = set(self.attr_content.get(e.attr, ()))
            for pf in self.cg._prop_names.get(e.attr, []):
                out |= self.summary.get(pf, set())
            return out
        return set()

    def analyse(self, f, report=None):
        """Flow the contents through f.  report(kind, node, content) is called for decorate sites.
        Returns the union content of all return values."""
        cfg = build_cfg(f.node)

        def transfer(n, st, lab):
            a = n.ast
            if a is None or n.kind not in ("stmt",):
                return st
            st = dict(st)

            def name_of(t):
                if isinstance(t, ast.Name):
                    return t.id
                if isinstance(t, ast.Attribute) and isinstance(t.value, ast.Name) and t.value.id == "self":
                    return "self." + t.attr
                return None
            if isinstance(a, ast.Assign) and len(a.targets) == 1 and name_of(a.targets[0]):
                st[name_of(a.targets[0])] = frozenset(self.expr_content(a.value, f, st))
            elif isinstance(a, ast.Assign) and len(a.targets) == 1 and isinstance(a.targets[0], ast.Subscript) and \
                    isinstance(a.targets[0].slice, ast.Slice) and name_of(a.targets[0].value):
                st[name_of(a.targets[0].value)] = frozenset(self.expr_content(a.value, f, st))
            elif isinstance(a, ast.AugAssign) and name_of(a.target):
                k = name_of(a.target)
                st[k] = frozenset(set(st.get(k, ())) | self.expr_content(a.value, f, st))
            elif isinstance(a, ast.Expr) and isinstance(a.value, ast.Call):
                c = a.value
                if isinstance(c.func, ast.Attribute) and c.func.attr in ("extend", "append") and name_of(c.func.value) and c.args:
                    k = name_of(c.func.value)
                    st[k] = frozenset(set(st.get(k, ())) | self.expr_content(c.args[0], f, st))
                elif call_name(c) == DECORATE and c.args and name_of(c.args[0]):
                    k = name_of(c.args[0])
                    cur = set(st.get(k, ()))
                    if report is not None:
                        report("decorate", c, cur)
                    new = set()
                    for x in cur:
                        if x in ("UT", "DT"):
                            new.add("DT")
                        elif x in ("UN", "DN"):
                            new.add("DN")
                    st[k] = frozenset(new)      # WU removed: the filter has run
            return st

        def join(a, b):
            if a == b:
                return a
            out = dict(a)
            for k, v in b.items():
                out[k] = frozenset(set(out.get(k, ())) | set(v))
            return out
        IN = cfg.dataflow({}, transfer, join, normal_only=True)
        ret = set()
        for n in cfg.nodes:
            if n.kind == "stmt" and isinstance(n.ast, ast.Return) and n.ast.value is not None and n in IN:
                ret |= self.expr_content(n.ast.value, f, IN[n])
        return ret

    def _fixpoint(self):
        P = None
        from .issues import issue_producers
        P, _ = issue_producers(self.ctx)
        funcs = [f for f in P if f not in self.reg.api_funcs.values()]
        # the APIs themselves
        for api, f in self.reg.api_funcs.items():
            self.summary[f] = set()
        # property getters that may expose issue lists
        props = [pf for lst in self.cg._prop_names.values() for pf in lst if "issue" in pf.name]
        funcs = funcs + [pf for pf in props if pf not in funcs]
        changed = True
        rounds = 0
        while changed and rounds < 12:
            changed = False
            rounds += 1
            # issue lists stored on objects: union content of every value assigned / added to self.<attr>
            for f in self.prog.functions.values():
                for n in walk_no_nested(f.node):
                    tgt, val = None, None
                    if isinstance(n, ast.Assign) and len(n.targets) == 1:
                        tgt, val = n.targets[0], n.value
                    elif isinstance(n, ast.AugAssign):
                        tgt, val = n.target, n.value
                    elif isinstance(n, ast.Expr) and isinstance(n.value, ast.Call) and isinstance(n.value.func, ast.Attribute) \
                            and n.value.func.attr in ("extend", "append") and n.value.args:
                        tgt, val = n.value.func.value, n.value.args[0]
                    if isinstance(tgt, ast.Attribute) and isinstance(tgt.value, ast.Name) and tgt.value.id == "self" \
                            and "issue" in tgt.attr:
                        c = self.expr_content(val, f, {})
                        if c - self.attr_content.get(tgt.attr, set()):
                            self.attr_content[tgt.attr] = self.attr_content.get(tgt.attr, set()) | c
                            changed = True
            for f in funcs:
                new = self.analyse(f)
                if new != self.summary.get(f, set()):
                    if not new >= self.summary.get(f, set()):
                        new = new | self.summary.get(f, set())
                    if new != self.summary.get(f, set()):
                        self.summary[f] = new
                        changed = True
        self.funcs = funcs


def get_content(ctx):
    if "issue_content" not in ctx.shared:
        ctx.shared["issue_content"] = IssueContent(ctx)
    return ctx.shared["issue_content"]
