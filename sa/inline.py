"""Private single-caller helpers are part of their caller.

"Extract method" and its inverse are the most common behaviour-preserving edits, and rules that look for a test, a call
or a store *inside an anchored function* would otherwise lose it whenever a block moves into a new private helper.  After
the call graph is built, every helper that
  * has a private name (`_x`, not dunder), lives in the same module as its caller, is not one of the names the rules or
    tables mention (those are anchors in their own right) and is NOT listed in tables/private_functions.json — the
    private functions the tree had when the rules were validated; i.e. only helpers introduced by a later edit are expanded,
  * is called from exactly one place in the package (precisely resolved), is never used as a value, is not part of an
    override chain, and is a plain function (no generator, decorator other than static/classmethod, *args/**kwargs, nested def),
is expanded in place in the in-memory syntax tree of its caller (nothing is written; the helper itself stays in the
program).  Return statements are mapped according to where the call stands:
  * `return helper(...)`                       -> the body as it is;
  * call statement that ends a loop body       -> `return v` becomes `<statement with v>; continue`;
  * any other call statement                   -> `return v` becomes `_r = v`, early returns become if/else (tail form);
  * call inside an expression                  -> only helpers whose body is a single `return <expr>`.
Copied nodes carry `_inl_origin` (the helper's qualified name), which reports use as the construct."""
import ast
import copy
import glob
import os
import re

from .model import walk_no_nested

_VERIF = os.path.dirname(os.path.dirname(os.path.abspath(__file__)))


class NotInlinable(Exception):
    pass


def _anchor_names():
    names = set()
    for p in glob.glob(os.path.join(_VERIF, "rules", "*.py")) + glob.glob(os.path.join(_VERIF, "tables", "*.json")) + \
            [os.path.join(_VERIF, "sa", x) for x in ("null.py", "forward.py", "registry.py", "decorate.py", "effects.py", "issues.py")]:
        try:
            txt = open(p, encoding="utf-8").read()
        except OSError:
            continue
        names |= set(re.findall(r"\b_[A-Za-z][A-Za-z0-9_]*\b", txt))
    return names


def _has_return(node):
    return any(isinstance(x, ast.Return) for x in ast.walk(node))


def _always_returns(stmts):
    for st in stmts:
        if isinstance(st, (ast.Return, ast.Raise)):
            return True
        if isinstance(st, ast.If) and st.orelse and _always_returns(st.body) and _always_returns(st.orelse):
            return True
    return False


def _tail_form(stmts, assign):
    """Statements with every `return v` turned into assign(v); only if/else may hold returns."""
    if not stmts:
        return [assign(None)]
    st, rest = stmts[0], stmts[1:]
    if isinstance(st, ast.Return):
        return [assign(st.value)]
    if isinstance(st, ast.If) and _has_return(st):
        if _always_returns(st.body) and not st.orelse:
            new = ast.If(test=st.test, body=_tail_form(st.body, assign), orelse=_tail_form(rest, assign))
        elif st.orelse and _always_returns(st.orelse) and not _has_return(ast.Module(body=st.body, type_ignores=[])):
            new = ast.If(test=st.test, body=_tail_form(st.body + rest, assign), orelse=_tail_form(st.orelse, assign))
        elif _always_returns(st.body) and _always_returns(st.orelse or []):
            new = ast.If(test=st.test, body=_tail_form(st.body, assign), orelse=_tail_form(st.orelse, assign))
        else:
            if len(rest) > 6:
                raise NotInlinable("fall-through branch with a return and a long continuation")
            new = ast.If(test=st.test, body=_tail_form(st.body + copy.deepcopy(rest), assign),
                         orelse=_tail_form(st.orelse + rest, assign))
        return [ast.copy_location(new, st)]
    if _has_return(st):
        raise NotInlinable("return inside a loop / try / with")
    return [st] + _tail_form(rest, assign)


def _loop_form(stmts, emit):
    """Every `return v` becomes emit(v) + continue (callee must not return from inside its own loops)."""
    out = []
    for st in stmts:
        if isinstance(st, ast.Return):
            out += emit(st.value) + [ast.copy_location(ast.Continue(), st)]
            return out
        if isinstance(st, ast.If) and _has_return(st):
            out.append(ast.copy_location(ast.If(test=st.test, body=_loop_form(st.body, emit) or [ast.Pass()],
                                                orelse=_loop_form(st.orelse, emit)), st))
        elif _has_return(st):
            raise NotInlinable("return inside a loop / try / with")
        else:
            out.append(st)
    return out


class _Renamer(ast.NodeTransformer):
    def __init__(self, mapping, exprs):
        self.mapping, self.exprs = mapping, exprs

    def visit_Name(self, node):
        if node.id in self.exprs and isinstance(node.ctx, ast.Load):
            return ast.copy_location(copy.deepcopy(self.exprs[node.id]), node)
        if node.id in self.mapping:
            node.id = self.mapping[node.id]
        return node

    def visit_arg(self, node):
        return node


def _simple(e):
    return isinstance(e, (ast.Name, ast.Constant)) or (isinstance(e, ast.Attribute) and _simple(e.value))


def _known_private():
    import json
    try:
        return set(json.load(open(os.path.join(_VERIF, "tables", "private_functions.json")))["functions"])
    except (OSError, ValueError, KeyError):
        return None


def inline_private_helpers(cg, max_rounds=3):
    prog = cg.prog
    anchors = _anchor_names()
    known = _known_private()
    if known is None:
        return []
    counter = [0]
    inlined = []
    for _ in range(max_rounds):
        sites, refs = {}, set()
        for f, lst in cg.edges.items():
            for kind, callee, node in lst:
                if isinstance(node, ast.Call) and kind != "ref":
                    sites.setdefault(callee, []).append((kind, f, node))
                else:
                    refs.add(callee)
        changed = set()
        for callee, lst in sorted(sites.items(), key=lambda kv: kv[0].qualname):
            nm = callee.name
            if not nm.startswith("_") or nm.startswith("__") or nm in anchors or callee in refs or len(lst) != 1:
                continue
            if callee.qualname in known:
                continue        # a helper the rules were validated with: it stays a function of its own
            kind, caller, call = lst[0]
            if kind != "precise" or caller is callee or caller.module is not callee.module or caller in changed or callee in changed:
                continue
            if callee.cls is not None:
                others = [c for c in callee.cls.mro()[1:] + callee.cls.all_subclasses() if nm in c.methods]
                if others:
                    continue
            a = callee.node.args
            if a.vararg or a.kwarg or a.kwonlyargs or a.posonlyargs:
                continue
            if any(d for d in callee.decorator_names() if d not in ("staticmethod", "classmethod")):
                continue
            body = list(callee.node.body)
            if body and isinstance(body[0], ast.Expr) and isinstance(getattr(body[0], "value", None), ast.Constant) \
                    and isinstance(body[0].value.value, str):
                body = body[1:]
            if not body or any(isinstance(x, (ast.Yield, ast.YieldFrom, ast.Await, ast.FunctionDef, ast.AsyncFunctionDef, ast.ClassDef,
                                              ast.Global, ast.Nonlocal)) for st in body for x in ast.walk(st)):
                continue
            if any(isinstance(x, ast.Starred) for x in call.args) or any(k.arg is None for k in call.keywords):
                continue
            try:
                if _inline_one(caller, callee, call, body, counter):
                    changed.add(caller)
                    inlined.append((caller.qualname, callee.qualname))
                    _retire(cg, callee)
            except NotInlinable:
                continue
        if not changed:
            break
        for f in changed:
            cg.rebuild(f)
    return inlined


def _retire(cg, callee):
    """The expanded helper is part of its caller now: take it out of the program's tables (its syntax stays in the module)."""
    prog = cg.prog
    prog.functions.pop(callee.qualname, None)
    lst = prog.by_func_name.get(callee.name)
    if lst and callee in lst:
        lst.remove(callee)
    if callee.cls is not None:
        if callee.cls.methods.get(callee.name) is callee:
            del callee.cls.methods[callee.name]
        if callee in callee.cls.all_methods:
            callee.cls.all_methods.remove(callee)
    elif callee.module.functions.get(callee.name) is callee:
        del callee.module.functions[callee.name]
    for kind, c2, node in cg.edges.pop(callee, []):
        l2 = cg.callers.get(c2, [])
        l2[:] = [(k, c, n) for (k, c, n) in l2 if c is not callee]
    cg.callers.pop(callee, None)
    cg.unresolved.pop(callee, None)


def _inline_one(caller, callee, call, body, counter):
    # locate the statement and its block
    pm = {}
    for p in ast.walk(caller.node):
        for ch in ast.iter_child_nodes(p):
            pm[id(ch)] = p
    stmt = call
    while id(stmt) in pm and not isinstance(stmt, ast.stmt):
        stmt = pm[id(stmt)]
    if not isinstance(stmt, ast.stmt) or id(stmt) not in pm:
        return False
    owner = pm[id(stmt)]
    block = None
    for fld in ("body", "orelse", "finalbody"):
        v = getattr(owner, fld, None)
        if isinstance(v, list) and any(x is stmt for x in v):
            block = v
    if block is None:
        return False
    counter[0] += 1
    tag = "_i%d_" % counter[0]
    # parameters
    params = [x.arg for x in callee.node.args.args]
    defaults = callee.node.args.defaults
    bound = {}
    args = list(call.args)
    is_method = callee.cls is not None and not callee.is_static
    if is_method:
        if not isinstance(call.func, ast.Attribute):
            raise NotInlinable("unbound method call")
        recv = call.func.value
        if callee.is_classmethod:
            bound[params[0]] = recv if not (isinstance(recv, ast.Name) and recv.id == "self") else ast.Attribute(
                value=ast.Name(id="self", ctx=ast.Load()), attr="__class__", ctx=ast.Load())
        else:
            bound[params[0]] = recv
        pos_params = params[1:]
    else:
        pos_params = params
    if len(args) > len(pos_params):
        raise NotInlinable("too many arguments")
    for p, a_ in zip(pos_params, args):
        bound[p] = a_
    for k in call.keywords:
        if k.arg not in params or k.arg in bound:
            raise NotInlinable("keyword does not bind")
        bound[k.arg] = k.value
    nd = len(defaults)
    for i, p in enumerate(params):
        if p not in bound:
            di = i - (len(params) - nd)
            if di < 0:
                raise NotInlinable("missing argument")
            bound[p] = defaults[di]
    body = copy.deepcopy(body)
    stored = set()
    for st in body:
        for x in ast.walk(st):
            if isinstance(x, ast.Name) and isinstance(x.ctx, (ast.Store, ast.Del)):
                stored.add(x.id)
            elif isinstance(x, ast.ExceptHandler) and x.name:
                stored.add(x.name)
    mapping = {n: tag + n for n in stored}
    exprs, binds = {}, []
    for p in params:
        val = bound[p]
        if p not in stored and _simple(val):
            exprs[p] = val
        else:
            mapping[p] = tag + p
            binds.append(ast.copy_location(ast.Assign(targets=[ast.Name(id=tag + p, ctx=ast.Store())], value=copy.deepcopy(val)), stmt))
    ren = _Renamer(mapping, exprs)
    for st in body:
        for x in ast.walk(st):
            if isinstance(x, ast.ExceptHandler) and x.name in mapping:
                x.name = mapping[x.name]
    body = [ren.visit(st) for st in body]
    for st in body:
        for x in ast.walk(st):
            x._inl_origin = callee.qualname
    idx = next(i for i, x in enumerate(block) if x is stmt)
    direct = getattr(stmt, "value", None) is call and isinstance(stmt, (ast.Expr, ast.Assign, ast.AugAssign, ast.AnnAssign, ast.Return))
    single_expr = len(body) == 1 and isinstance(body[0], ast.Return) and body[0].value is not None and not binds
    if not direct or single_expr:
        # expression substitution: single `return <expr>` helpers (arguments simple, so no bindings are needed)
        if not single_expr:
            raise NotInlinable("call inside an expression")
        par = pm[id(call)]
        for fld, v in ast.iter_fields(par):
            if v is call:
                setattr(par, fld, body[0].value)
            elif isinstance(v, list):
                for i, x in enumerate(v):
                    if x is call:
                        v[i] = body[0].value
        return True

    def with_value(v):
        if isinstance(stmt, ast.Expr):
            return [ast.copy_location(ast.Expr(value=v), stmt)] if (v is not None and any(isinstance(x, ast.Call) for x in ast.walk(v))) else []
        new = copy.copy(stmt)
        new.value = v if v is not None else ast.copy_location(ast.Constant(value=None), stmt)
        return [new]
    if isinstance(stmt, ast.Return):
        new_stmts = body if _always_returns(body) else body + [ast.copy_location(ast.Return(value=None), stmt)]
    else:
        in_loop = isinstance(owner, (ast.For, ast.While)) and block is owner.body and idx == len(block) - 1
        new_stmts = None
        if in_loop:
            try:
                new_stmts = _loop_form(body, with_value)
                if not _always_returns(body):
                    new_stmts += with_value(None)
            except NotInlinable:
                new_stmts = None
        if new_stmts is None:
            rname = tag + "r"

            def assign(v):
                return ast.copy_location(ast.Assign(targets=[ast.Name(id=rname, ctx=ast.Store())],
                                                    value=v if v is not None else ast.Constant(value=None)), stmt)
            new_stmts = _tail_form(body, assign)
            if isinstance(stmt, ast.Expr):
                pass
            else:
                new_stmts += with_value(ast.copy_location(ast.Name(id=rname, ctx=ast.Load()), stmt))
    block[idx:idx + 1] = binds + (new_stmts or [ast.copy_location(ast.Pass(), stmt)])
    ast.fix_missing_locations(caller.node)
    return True
