"""Per-function control-flow graph, dominators, generic forward dataflow, path enumeration.

Nodes are simple statements and branch conditions.  Edge labels: None (fall through), True / False
(branch on a condition or loop head: True = enter body), 'exc' (exception edge into a handler).
Calls outside a `try` are assumed to return (normal-path reasoning); `raise` outside a `try` goes
to the distinguished raise-exit.
"""
import ast


class Node:
    __slots__ = ("id", "kind", "ast", "extra")

    def __init__(self, id, kind, node=None, extra=None):
        self.id = id
        self.kind = kind      # entry exit raise_exit stmt cond loop with handler
        self.ast = node
        self.extra = extra

    @property
    def lineno(self):
        return getattr(self.ast, "lineno", 0)

    def __repr__(self):
        return "<N%d %s L%s>" % (self.id, self.kind, self.lineno)


class CFG:
    def __init__(self, funcdef):
        self.func = funcdef
        self.nodes = []
        self.succ = {}
        self.pred = {}
        self.entry = self._new("entry")
        self.exit = self._new("exit")
        self.raise_exit = self._new("raise_exit")
        self._loops = []       # stack of (head, after) for break/continue
        self._handlers = []    # stack of lists of handler-entry nodes
        self._finally = []     # stack of finally entry nodes (approximation)
        ends = self._body(funcdef.body, [(self.entry, None)])
        for n, lab in ends:
            self._edge(n, self.exit, lab)

    # -------------------------------------------------------------- construction
    def _new(self, kind, node=None, extra=None):
        n = Node(len(self.nodes), kind, node, extra)
        self.nodes.append(n)
        self.succ[n] = []
        self.pred[n] = []
        return n

    def _edge(self, a, b, label=None):
        if (b, label) not in self.succ[a]:
            self.succ[a].append((b, label))
            self.pred[b].append((a, label))

    def _connect(self, frontier, node):
        for n, lab in frontier:
            self._edge(n, node, lab)

    def _exc_edges(self, node, stmt):
        """Exception edges from a statement inside try bodies to the innermost handlers."""
        if not self._handlers:
            return
        has_call = any(isinstance(x, (ast.Call, ast.Subscript, ast.Attribute, ast.BinOp)) for x in ast.walk(stmt)) \
            if stmt is not None else True
        if has_call or isinstance(stmt, ast.Raise):
            for h in self._handlers[-1]:
                self._edge(node, h, "exc")

    def _body(self, stmts, frontier):
        for s in stmts:
            frontier = self._stmt(s, frontier)
        return frontier

    def _stmt(self, s, frontier):
        if isinstance(s, ast.If):
            c = self._new("cond", s.test, extra=s)
            self._connect(frontier, c)
            self._exc_edges(c, s.test)
            t_end = self._body(s.body, [(c, True)])
            f_end = self._body(s.orelse, [(c, False)]) if s.orelse else [(c, False)]
            return t_end + f_end
        if isinstance(s, (ast.For, ast.AsyncFor)):
            h = self._new("loop", s, extra=s)
            self._connect(frontier, h)
            self._exc_edges(h, s.iter)
            after = []
            self._loops.append((h, after))
            b_end = self._body(s.body, [(h, True)])
            self._loops.pop()
            self._connect(b_end, h)
            o_end = self._body(s.orelse, [(h, False)]) if s.orelse else [(h, False)]
            return o_end + after
        if isinstance(s, ast.While):
            h = self._new("cond", s.test, extra=s)
            self._connect(frontier, h)
            self._exc_edges(h, s.test)
            after = []
            self._loops.append((h, after))
            b_end = self._body(s.body, [(h, True)])
            self._loops.pop()
            self._connect(b_end, h)
            is_true = isinstance(s.test, ast.Constant) and bool(s.test.value)
            o_end = [] if is_true else (self._body(s.orelse, [(h, False)]) if s.orelse else [(h, False)])
            return o_end + after
        if isinstance(s, (ast.With, ast.AsyncWith)):
            w = self._new("with", s, extra=s)
            self._connect(frontier, w)
            self._exc_edges(w, s)
            end = self._body(s.body, [(w, None)])
            x = self._new("with_exit", s, extra=s)
            self._connect(end, x)
            return [(x, None)]
        if isinstance(s, ast.Try) or (hasattr(ast, "TryStar") and isinstance(s, ast.TryStar)):
            handler_nodes = [self._new("handler", h, extra=h) for h in s.handlers]
            fin_entry = None
            self._handlers.append(handler_nodes)
            b_end = self._body(s.body, frontier)
            self._handlers.pop()
            if s.orelse:
                b_end = self._body(s.orelse, b_end)
            ends = list(b_end)
            for hn, h in zip(handler_nodes, s.handlers):
                ends += self._body(h.body, [(hn, None)])
            if not s.handlers:
                # try/finally only: exceptions propagate outward (through finally)
                pass
            if s.finalbody:
                ends = self._body(s.finalbody, ends)
            return ends
        if isinstance(s, ast.Return):
            n = self._new("stmt", s)
            self._connect(frontier, n)
            self._exc_edges(n, s)
            self._edge(n, self.exit, None)
            return []
        if isinstance(s, ast.Raise):
            n = self._new("stmt", s)
            self._connect(frontier, n)
            if self._handlers:
                for h in self._handlers[-1]:
                    self._edge(n, h, "exc")
                # a raise may also not match any handler
                self._edge(n, self.raise_exit, "exc")
            else:
                self._edge(n, self.raise_exit, None)
            return []
        if isinstance(s, ast.Break):
            n = self._new("stmt", s)
            self._connect(frontier, n)
            if self._loops:
                self._loops[-1][1].append((n, None))
            return []
        if isinstance(s, ast.Continue):
            n = self._new("stmt", s)
            self._connect(frontier, n)
            if self._loops:
                self._edge(n, self._loops[-1][0], None)
            return []
        if hasattr(ast, "Match") and isinstance(s, ast.Match):
            c = self._new("cond", s.subject, extra=s)
            self._connect(frontier, c)
            ends = [(c, False)]
            for case in s.cases:
                ends += self._body(case.body, [(c, True)])
            return ends
        if isinstance(s, (ast.FunctionDef, ast.AsyncFunctionDef, ast.ClassDef)):
            n = self._new("stmt", s)
            self._connect(frontier, n)
            return [(n, None)]
        n = self._new("stmt", s)
        self._connect(frontier, n)
        self._exc_edges(n, s)
        return [(n, None)]

    # -------------------------------------------------------------- queries
    def stmt_nodes(self):
        return [n for n in self.nodes if n.kind in ("stmt", "cond", "loop", "with", "with_exit", "handler")]

    def node_of(self, astnode):
        """The CFG node whose statement contains `astnode`."""
        target = id(astnode)
        best = None
        for n in self.nodes:
            if n.ast is None:
                continue
            if (n.ast is astnode or n.extra is astnode) and n.kind != "with_exit":
                return n
            root = n.ast
            if n.kind == "loop":
                roots = [root.iter, root.target]
            elif n.kind in ("with", "with_exit"):
                if n.kind == "with_exit":
                    continue
                roots = [it.context_expr for it in root.items] + \
                        [it.optional_vars for it in root.items if it.optional_vars is not None]
            elif n.kind == "handler":
                roots = [root.type] if root.type is not None else []
            else:
                roots = [root]
            for r in roots:
                if isinstance(r, (ast.FunctionDef, ast.AsyncFunctionDef, ast.ClassDef)):
                    if id(r) == target:
                        return n
                    continue
                for x in ast.walk(r):
                    if id(x) == target:
                        return n
        return best

    def normal_succ(self, n):
        return [(m, l) for (m, l) in self.succ[n] if l != "exc"]

    def reachable_from(self, n, normal_only=True, avoid=()):
        seen = set()
        stack = [n]
        avoid = set(avoid)
        while stack:
            x = stack.pop()
            if x in seen or x in avoid:
                continue
            seen.add(x)
            for m, l in self.succ[x]:
                if normal_only and l == "exc":
                    continue
                stack.append(m)
        return seen

    def dominators(self, normal_only=True, post=False, root=None):
        """node -> set of dominators (or post-dominators w.r.t. the normal exit)."""
        nodes = self.nodes
        if post:
            root = root or self.exit
            preds = lambda n: [m for (m, l) in self.succ[n] if not (normal_only and l == "exc")]  # noqa: E731
        else:
            root = root or self.entry
            preds = lambda n: [m for (m, l) in self.pred[n] if not (normal_only and l == "exc")]  # noqa: E731
        # restrict to nodes connected to root
        if post:
            reach = set()
            stack = [root]
            while stack:
                x = stack.pop()
                if x in reach:
                    continue
                reach.add(x)
                for m, l in self.pred[x]:
                    if not (normal_only and l == "exc"):
                        stack.append(m)
        else:
            reach = self.reachable_from(root, normal_only)
        allset = set(reach)
        dom = {n: set(allset) for n in reach}
        dom[root] = {root}
        changed = True
        order = sorted(reach, key=lambda n: n.id, reverse=post)
        while changed:
            changed = False
            for n in order:
                if n is root:
                    continue
                ps = [p for p in preds(n) if p in reach]
                if ps:
                    new = set.intersection(*(dom[p] for p in ps))
                else:
                    new = set()
                new = new | {n}
                if new != dom[n]:
                    dom[n] = new
                    changed = True
        return dom

    def dataflow(self, init, transfer, join, normal_only=True, edge_filter=None, max_iter=10000):
        """Forward dataflow.  transfer(node, in_state, label) -> out_state for that out-edge.
        Returns (IN, iterations)."""
        IN = {self.entry: init}
        work = [self.entry]
        it = 0
        while work:
            it += 1
            if it > max_iter:
                raise RuntimeError("dataflow did not converge")
            n = work.pop(0)
            st = IN[n]
            for m, lab in self.succ[n]:
                if normal_only and lab == "exc":
                    continue
                if edge_filter is not None and not edge_filter(n, m, lab, st):
                    continue
                out = transfer(n, st, lab)
                if out is None:
                    continue
                if m in IN:
                    new = join(IN[m], out)
                    if new != IN[m]:
                        IN[m] = new
                        if m not in work:
                            work.append(m)
                else:
                    IN[m] = out
                    work.append(m)
        return IN

    def paths(self, start=None, end=None, limit=5000, normal_only=True, loop_bound=1):
        """Enumerate acyclic-ish paths (each node at most loop_bound+1 times) start -> end."""
        start = start or self.entry
        end = end or self.exit
        out = []

        def rec(n, path, counts):
            if len(out) >= limit:
                return
            if n is end:
                out.append(path + [n])
                return
            for m, lab in self.succ[n]:
                if normal_only and lab == "exc":
                    continue
                c = counts.get(m, 0)
                if c > loop_bound:
                    continue
                counts[m] = c + 1
                rec(m, path + [n], counts)
                counts[m] = c
        rec(start, [], {start: 1})
        return out


def build_cfg(funcdef):
    return CFG(funcdef)


def exits_on_true(cond_node_ast_if):
    """For an ast.If: does the true branch always leave (raise/return/continue/break)?"""
    return _always_leaves(cond_node_ast_if.body)


def _always_leaves(body):
    if not body:
        return False
    last = body[-1]
    if isinstance(last, (ast.Raise, ast.Return, ast.Continue, ast.Break)):
        return True
    if isinstance(last, ast.If) and last.orelse:
        return _always_leaves(last.body) and _always_leaves(last.orelse)
    return False
