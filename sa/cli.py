"""./check Cnn [--tier quick|thorough] [--replay path] [--repo DIR]

Exit codes: 0 all obligations discharged (known findings printed), 1 violation (VIOLATION line),
2 analysis error (ANALYSIS-ERROR line; never a verdict).
"""
import argparse
import importlib
import json
import os
import sys
import time
import traceback

from . import model
from .model import AnalysisError, Program
from .callgraph import CallGraph
from .report import Context, emit

ALL = ["C%02d" % i for i in range(1, 21)]


def build(repo=None, overlay=None):
    prog = Program(root=repo, overlay=overlay)
    cg = CallGraph(prog)
    return prog, cg


def run_property(pid, prog, cg, tier, shared=None, out=print, write=True):
    mod = importlib.import_module("rules.%s" % pid.lower())
    t0 = time.time()
    ctx = Context(pid, prog, cg, tier, shared)
    mod.run(ctx)
    if tier == "thorough" and hasattr(mod, "thorough"):
        mod.thorough(ctx)
    if tier == "thorough":
        from selftest import harness
        from . import thorough
        thorough.package_lints(ctx)
        harness.run_for_property(ctx, out=out)
        thorough.transforms_for(ctx, out=out)
    return emit(ctx, time.time() - t0, (getattr(mod, "LEVEL_TEXT", mod.__doc__ or "") + " " + getattr(mod, "LEVEL_EXTRA", "")).strip(), out=out, write=write), ctx


def main(argv=None):
    ap = argparse.ArgumentParser()
    ap.add_argument("prop")
    ap.add_argument("--tier", default=os.environ.get("VERIF_TIER") or "quick", choices=["quick", "thorough"])
    ap.add_argument("--replay")
    ap.add_argument("--repo", default=None)
    ap.add_argument("--no-write", action="store_true")
    a = ap.parse_args(argv)
    props = ALL if a.prop.lower() == "all" else [a.prop.upper()]
    try:
        for p in props:
            if p not in ALL:
                raise AnalysisError("unknown property %s" % p)
        prog, cg = build(a.repo)
        rc = 0
        shared = {}
        for p in props:
            if a.replay:
                with open(a.replay) as fh:
                    want = json.load(fh)
                code, ctx = run_property(p, prog, cg, "quick", shared, out=lambda *_: None, write=False)
                hit = [f for f in ctx.findings if f.rule == want["rule"] and f.construct == want["construct"]
                       and (f.shape == want.get("shape") or f.statement == want["statement"])]
                if hit:
                    f = hit[0]
                    print("replay: still reported on the current tree")
                    print("  rule      : %s" % f.rule)
                    print("  where     : %s" % f.where)
                    print("  construct : %s" % f.construct)
                    print("  statement : %s" % f.statement)
                    print("  problem   : %s" % f.message)
                    for w in f.witness:
                        print("  witness   : %s" % w)
                    print("VIOLATION property=%s replay=%s" % (p, a.replay))
                    rc = 1
                else:
                    print("replay: the recorded construct is no longer reported "
                          "(tree digest then %s, now %s)" % (want.get("digest", "?")[:12], prog.digest[:12]))
                continue
            code, _ = run_property(p, prog, cg, a.tier, shared, write=not a.no_write)
            rc = max(rc, code)
        return rc
    except AnalysisError as e:
        print("ANALYSIS-ERROR %s" % e)
        return 2
    except Exception:
        traceback.print_exc()
        print("ANALYSIS-ERROR internal exception (see traceback)")
        return 2


if __name__ == "__main__":
    code = main()
    sys.stdout.flush()
    os._exit(code)
