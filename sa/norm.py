"""A7: key-normalisation agreement for a named mapping / set."""
import ast

from .dataflow import ReachingDefs
from .model import norm, walk_no_nested, loc

NORMALISERS = ("casefold", "lower", "upper", "strip", "title")


# the call graph of the run in progress (set by report.Context): lets the key analysis follow a repository helper that
# produces the key (`self._fold(key)`, `name, value = self._split(tag)`)
CG = None


def _helper_returns(rd, call, index=None):
    """-> [(ReachingDefs of helper, value expr, return stmt)] for a call that resolves precisely to one repository function;
    with `index`, the index-th element of tuple returns.  None when the call is not such a helper."""
    fi = getattr(rd, "fi", None)
    if CG is None or fi is None or not isinstance(call, ast.Call):
        return None
    targets = [t for (k, t) in CG.resolve_call(call, fi) if k == "precise"]
    if len(targets) != 1:
        return None
    h = targets[0]
    rdh = ReachingDefs(h)
    out = []
    for r in walk_no_nested(h.node):
        if isinstance(r, ast.Return) and r.value is not None:
            v = r.value
            if index is not None:
                if not (isinstance(v, ast.Tuple) and index < len(v.elts)):
                    return None
                v = v.elts[index]
            out.append((rdh, v, r))
    return out or None


def normalisation(rd, expr, at, depth=0):
    """The set of normalisations the key expression may carry: {'casefold'}, {'lower'}, {'raw'}, ..."""
    if depth > 6:
        return {"raw"}
    if isinstance(expr, ast.Call) and isinstance(expr.func, ast.Attribute) and expr.func.attr in NORMALISERS \
            and not expr.args:
        if expr.func.attr == "strip":
            return normalisation(rd, expr.func.value, at, depth + 1)
        return {expr.func.attr}
    if isinstance(expr, ast.Call):
        rets = _helper_returns(rd, expr)
        if rets:
            out = set()
            for rdh, v, r in rets:
                out |= normalisation(rdh, v, r, depth + 2)
            return out
    if isinstance(expr, ast.Name):
        defs = rd.at(at, expr.id) if rd is not None else None
        if not defs:
            return {"raw"}
        out = set()
        for d in defs:
            if d.kind == "assign" and d.value is not None:
                out |= normalisation(rd, d.value, d.node, depth + 1)
            elif d.kind == "unpack" and isinstance(d.value, ast.Call) and _helper_returns(rd, d.value, d.index):
                for rdh, v, r in _helper_returns(rd, d.value, d.index):
                    out |= normalisation(rdh, v, r, depth + 2)
            elif d.kind == "for" and d.value is not None:
                # iterating a comprehension / list of normalised items
                out |= _iter_norm(rd, d.value, d.node, depth + 1)
            else:
                out.add("raw")
        return out
    if isinstance(expr, ast.IfExp):
        return normalisation(rd, expr.body, at, depth + 1) | normalisation(rd, expr.orelse, at, depth + 1)
    if isinstance(expr, ast.Constant):
        return {"const"}
    if isinstance(expr, ast.JoinedStr):
        return {"raw"}
    return {"raw"}


def _iter_norm(rd, expr, at, depth):
    if isinstance(expr, (ast.ListComp, ast.SetComp, ast.GeneratorExp)):
        return normalisation(None, expr.elt, at, depth)
    return {"raw"}


class Access:
    def __init__(self, fi, node, kind, key, conditional_norm=None):
        self.fi = fi
        self.node = node
        self.kind = kind
        self.key = key
        self.cond = conditional_norm


def mapping_accesses(fi, is_mapping):
    """Accesses of a mapping/set in fi: subscript load/store/del, .get/.pop/.add/.discard/.remove/
    .setdefault, `k in m`."""
    out = []
    for n in walk_no_nested(fi.node):
        if isinstance(n, ast.Subscript) and is_mapping(n.value):
            kind = {"Store": "store", "Del": "del", "Load": "load"}[type(n.ctx).__name__]
            out.append(Access(fi, n, kind, n.slice))
        elif isinstance(n, ast.Call) and isinstance(n.func, ast.Attribute) and is_mapping(n.func.value) and \
                n.func.attr in ("get", "pop", "add", "discard", "remove", "setdefault", "__contains__", "__getitem__") and n.args:
            out.append(Access(fi, n, n.func.attr, n.args[0]))
        elif isinstance(n, ast.Compare) and len(n.ops) == 1 and isinstance(n.ops[0], (ast.In, ast.NotIn)) and \
                is_mapping(n.comparators[0]):
            out.append(Access(fi, n, "in", n.left))
    return out


def check_uniform(ctx, rule, accesses, want, what, consequence):
    """Every access key must carry exactly the normalisation set `want` (e.g. {'casefold'})."""
    rds = ctx.shared.setdefault("rds", {})
    for a in accesses:
        if a.fi not in rds:
            rds[a.fi] = ReachingDefs(a.fi)
        got = normalisation(rds[a.fi], a.key, a.node)
        ctx.count_sites()
        ctx.saw(a.fi)
        ctx.check(got == want, rule, a.fi.qualname, a.node, loc(a.fi, a.node),
                  "%s is accessed (%s) with key `%s` normalised as %s, the other accessors use %s: %s" % (
                      what, a.kind, norm(a.key), sorted(got), sorted(want), consequence),
                  desc="%s: %s key `%s` is %s" % (a.fi.short, a.kind, norm(a.key)[:40], sorted(want)))
    return len(accesses)


def accesses_with_helpers(ctx, fi, table_name):
    """Accesses of the local/parameter table `table_name` in fi, plus those made by repository helpers the table is handed
    to: an access in the helper keyed by one of the helper's parameters is judged by the caller's argument expression."""
    cg = ctx.cg
    out = mapping_accesses(fi, lambda e: isinstance(e, ast.Name) and e.id == table_name)
    for c in walk_no_nested(fi.node):
        if not isinstance(c, ast.Call) or not any(isinstance(a, ast.Name) and a.id == table_name for a in c.args):
            continue
        order = cg.param_order.get(id(c))
        if not order:
            continue
        targets = [t for (k, t) in cg.resolve_call(c, fi) if k == "precise"]
        if len(targets) != 1:
            continue
        callee = targets[0]
        bound = {}
        for i, a in enumerate(c.args):
            if i < len(order):
                bound[order[i]] = a
        for kw in c.keywords:
            if kw.arg:
                bound[kw.arg] = kw.value
        tparams = [p for p, a in bound.items() if isinstance(a, ast.Name) and a.id == table_name]
        for tp in tparams:
            for acc in mapping_accesses(callee, lambda e, tp=tp: isinstance(e, ast.Name) and e.id == tp):
                key = acc.key
                if isinstance(key, ast.Name) and key.id in bound and not any(
                        isinstance(x, ast.Name) and x.id == key.id and isinstance(x.ctx, ast.Store) for x in ast.walk(callee.node)):
                    out.append(Access(fi, c, acc.kind + " (in %s)" % callee.short, bound[key.id]))
                else:
                    out.append(acc)
    return out
