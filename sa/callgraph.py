"""Call graph over the program model.

Edge kinds
  precise : callee resolved through scoping, imports, `self`/`super()`/typed receivers
  prop    : attribute load resolving to a property on a typed receiver (precise)
  ref     : the function is mentioned as a value (function tables, partial(), callbacks)
  name    : untyped receiver, all repo methods of that name (name not a builtin container/str method)
  weak    : like `name` but the name is also a builtin container/str method
"""
import ast

from .model import ClassInfo, FunctionInfo, ModuleInfo, walk_no_nested

BUILTIN_METHOD_NAMES = set(dir(list)) | set(dir(dict)) | set(dir(set)) | set(dir(str)) | {
    "copy", "sort", "replace", "remove", "get", "items", "keys", "values", "append", "extend", "insert",
    "pop", "update", "clear", "add", "index", "count", "find", "split", "join", "strip", "format",
    "lower", "upper", "startswith", "endswith", "read", "write", "close", "apply", "map", "drop",
    "rename", "fillna", "astype", "tolist", "to_csv", "match", "search", "group", "sub", "compile",
    "findall", "finditer", "iter", "find", "findall", "set", "validate", "save", "open", "load",
}

PRECISE = ("precise", "prop")


class CallGraph:
    def __init__(self, prog):
        self.prog = prog
        self.edges = {}      # FunctionInfo -> list of (kind, callee FunctionInfo, call node)
        self.callers = {}    # FunctionInfo -> list of (kind, caller FunctionInfo, call node)
        self.unresolved = {}  # FunctionInfo -> list of call nodes with no edge (non-builtin names)
        self.stats = {"precise": 0, "prop": 0, "ref": 0, "name": 0, "weak": 0, "none": 0}
        self._prop_names = {}
        for f in prog.functions.values():
            if f.cls is not None and "property" in f.decorator_names():
                self._prop_names.setdefault(f.name, []).append(f)
        for f in list(prog.functions.values()):
            self._build(f)
        from .inline import inline_private_helpers
        self.inlined = inline_private_helpers(self)
        self.param_order = {}   # id(call node) -> positional parameter names of the callee(s) (self dropped)
        self._normalise_calls()

    def rebuild(self, f):
        """Recompute the outgoing edges of f after its syntax tree was changed."""
        for kind, callee, node in self.edges.pop(f, []):
            lst = self.callers.get(callee, [])
            lst[:] = [(k, c, n) for (k, c, n) in lst if c is not f]
        self.unresolved.pop(f, None)
        if hasattr(f, "_params_cache"):
            del f._params_cache
        self._build(f)

    # ------------------------------------------------------------------
    def _normalise_calls(self):
        """One written form for argument passing: where every candidate callee of a call agrees on the positional order of its
        parameters, leading keyword arguments are moved into position (`f(a, x=1)` -> `f(a, 1)` when x is the 2nd parameter).
        Rules then read an argument with `arg(call, name)`, which sees both forms."""
        by_call = {}
        for f, lst in self.edges.items():
            for kind, callee, node in lst:
                if kind in ("precise", "name", "weak") and isinstance(node, ast.Call):
                    by_call.setdefault(id(node), (node, []))[1].append((kind, callee))
        for node, cands in by_call.values():
            if any(isinstance(a, ast.Starred) for a in node.args) or any(k.arg is None for k in node.keywords):
                continue
            prec = [c for (k, c) in cands if k == "precise"]
            use = prec or [c for (k, c) in cands]
            if not use or len(use) > 4:
                continue
            orders = set()
            for t in use:
                a = t.node.args
                if a.vararg is not None or a.posonlyargs:
                    orders.add(None)
                    continue
                ps = [x.arg for x in a.args]
                if t.cls is not None and not t.is_static:
                    if isinstance(node.func, ast.Attribute) or t.name in ("__init__", "__new__"):
                        ps = ps[1:]
                    else:
                        orders.add(None)
                        continue
                orders.add(tuple(ps))
            if len(orders) != 1 or None in orders:
                continue
            ps = list(orders.pop())
            self.param_order[id(node)] = ps
            kws = {k.arg: k.value for k in node.keywords}
            take = []
            for pname in ps[len(node.args):]:
                if pname in kws:
                    take.append(pname)
                else:
                    break
            if take:
                node.args = list(node.args) + [kws[pn] for pn in take]
                node.keywords = [k for k in node.keywords if k.arg not in take]

    def arg(self, call, pname, default=None):
        """The expression bound to parameter `pname` at this call (keyword or position), or default."""
        for k in call.keywords:
            if k.arg == pname:
                return k.value
        ps = self.param_order.get(id(call))
        if ps and pname in ps:
            i = ps.index(pname)
            if i < len(call.args) and not any(isinstance(a, ast.Starred) for a in call.args[:i + 1]):
                return call.args[i]
        return default

    # ------------------------------------------------------------------
    def local_types(self, f):
        """name -> set(ClassInfo) for locals assigned from constructor calls / typed attrs."""
        types = {}
        prog = self.prog
        for n in walk_no_nested(f.node):
            if isinstance(n, ast.Assign) and len(n.targets) == 1 and isinstance(n.targets[0], ast.Name):
                t = self.expr_types(n.value, f, types)
                if t:
                    types.setdefault(n.targets[0].id, set()).update(t)
            elif isinstance(n, ast.With):
                for it in n.items:
                    if isinstance(it.optional_vars, ast.Name):
                        t = self.expr_types(it.context_expr, f, types)
                        if t:
                            types.setdefault(it.optional_vars.id, set()).update(t)
        return types

    def expr_types(self, e, f, types):
        prog = self.prog
        if isinstance(e, ast.Call):
            r = prog.resolve_expr(e.func, f.module, f.cls, f)
            if isinstance(r, ClassInfo):
                return {r}
            return set()
        if isinstance(e, ast.Name):
            if e.id == "self" and f.cls is not None and not f.is_static:
                return {f.cls}
            return set(types.get(e.id, ()))
        if isinstance(e, ast.Attribute) and isinstance(e.value, ast.Name) and e.value.id == "self" \
                and f.cls is not None:
            out = set()
            for c in f.cls.mro():
                out |= c.attr_types.get(e.attr, set())
            return out
        return set()

    def _methods_on(self, cls, name):
        """Targets of a virtual call cls-typed.receiver.name(): MRO hit + overriding subclasses."""
        out = []
        m = cls.find_method(name)
        if m is not None:
            out.append(m)
        for s in cls.all_subclasses():
            if name in s.methods:
                out.append(s.methods[name])
        return out

    def _add(self, f, kind, callee, node):
        if callee.is_abstract and callee.cls is not None:
            subs = callee.cls.all_subclasses()
            if subs and all(s.find_method(callee.name) is not callee for s in subs if not s.subclasses):
                # every concrete leaf overrides it: not a real target
                return
        self.edges.setdefault(f, []).append((kind, callee, node))
        self.callers.setdefault(callee, []).append((kind, f, node))
        self.stats[kind] += 1

    def resolve_call(self, call, f, types=None):
        """-> list of (kind, FunctionInfo)"""
        prog = self.prog
        if types is None:
            types = self.local_types(f)
        fn = call.func
        out = []
        # super().m()
        if isinstance(fn, ast.Attribute) and isinstance(fn.value, ast.Call) and \
                isinstance(fn.value.func, ast.Name) and fn.value.func.id == "super" and f.cls is not None:
            for c in f.cls.mro()[1:]:
                if fn.attr in c.methods:
                    return [("precise", c.methods[fn.attr])]
            return []
        r = prog.resolve_expr(fn, f.module, f.cls, f)
        if isinstance(r, FunctionInfo):
            return [("precise", r)]
        if isinstance(r, ClassInfo):
            init = r.find_method("__init__")
            res = [("precise", init)] if init is not None else []
            new = r.find_method("__new__")
            if new is not None:
                res.append(("precise", new))
            return res
        if isinstance(r, tuple) and r[0] == "const":
            # calling a module/class level alias: follow if it is a name of a function
            r2 = prog.resolve_expr(r[2], r[1]) if isinstance(r[2], (ast.Name, ast.Attribute)) else None
            if isinstance(r2, FunctionInfo):
                return [("precise", r2)]
        if isinstance(fn, ast.Attribute):
            recv_types = self.expr_types(fn.value, f, types)
            if isinstance(fn.value, ast.Name) and fn.value.id == "cls" and f.cls is not None and f.is_classmethod:
                recv_types = {f.cls}
            if recv_types:
                for c in recv_types:
                    for m in self._methods_on(c, fn.attr):
                        out.append(("precise", m))
                if out:
                    return out
                return []
            # receiver resolves to an external module?  (os.path.join, re.compile, pd.concat ...)
            base = fn.value
            while isinstance(base, ast.Attribute):
                base = base.value
            if isinstance(base, ast.Name):
                imp = f.module.imports.get(base.id)
                if imp and imp[0] == "module" and imp[1] not in prog.modules and not _is_local(base.id, f):
                    return []
                if imp and imp[0] == "symbol" and prog.resolve_symbol(f.module.name, base.id) is None \
                        and not _is_local(base.id, f):
                    return []   # external class/function object, e.g. ET.Element
            cands = [m for m in prog.by_func_name.get(fn.attr, []) if m.cls is not None]
            kind = "weak" if fn.attr in BUILTIN_METHOD_NAMES else "name"
            return [(kind, m) for m in cands]
        return out

    def _build(self, f):
        prog = self.prog
        types = self.local_types(f)
        call_funcs = set()
        for n in walk_no_nested(f.node):
            if isinstance(n, ast.Call):
                call_funcs.add(id(n.func))
                res = self.resolve_call(n, f, types)
                if not res:
                    self.stats["none"] += 1
                    self.unresolved.setdefault(f, []).append(n)
                for kind, callee in res:
                    self._add(f, kind, callee, n)
        # properties and function references
        for n in walk_no_nested(f.node):
            if isinstance(n, ast.Attribute) and isinstance(n.ctx, ast.Load) and id(n) not in call_funcs:
                rt = self.expr_types(n.value, f, types)
                hit = False
                for c in rt:
                    m = c.find_method(n.attr)
                    if m is not None and "property" in m.decorator_names():
                        self._add(f, "prop", m, n)
                        hit = True
                    for s in c.all_subclasses():
                        if n.attr in s.methods and "property" in s.methods[n.attr].decorator_names():
                            self._add(f, "prop", s.methods[n.attr], n)
                if not rt and n.attr in self._prop_names:
                    for m in self._prop_names[n.attr]:
                        self._add(f, "name", m, n)
                # bound method of a typed receiver used as a value: self._id_validator.verify_tag_id
                if rt and not (isinstance(n.value, ast.Name) and n.value.id in ("self", "cls")):
                    for c in rt:
                        for m in self._methods_on(c, n.attr):
                            if "property" not in m.decorator_names():
                                self._add(f, "ref", m, n)
            if isinstance(n, (ast.Name, ast.Attribute)) and isinstance(getattr(n, "ctx", None), ast.Load) \
                    and id(n) not in call_funcs:
                r = prog.resolve_expr(n, f.module, f.cls, f)
                if isinstance(r, FunctionInfo) and "property" not in r.decorator_names():
                    self._add(f, "ref", r, n)
                elif isinstance(r, tuple) and r[0] == "const":
                    for fr in self._funcs_in_table(r[2], r[1], r[3] if len(r) > 3 else None):
                        self._add(f, "ref", fr, n)
                elif isinstance(n, ast.Attribute) and isinstance(n.value, ast.Name) and n.value.id in ("self", "cls") \
                        and f.cls is not None and self._methods_on(f.cls, n.attr) and \
                        "property" not in (f.cls.find_method(n.attr).decorator_names() if f.cls.find_method(n.attr) else []):
                    # bound-method reference (callbacks, parse tables): self._read_section
                    for m in self._methods_on(f.cls, n.attr):
                        self._add(f, "ref", m, n)
                elif isinstance(n, ast.Attribute) and isinstance(n.value, ast.Name) and n.value.id == "self" \
                        and f.cls is not None:
                    for c in f.cls.mro():
                        if n.attr in c.attrs:
                            for fr in self._funcs_in_table(c.attrs[n.attr], c.module, c):
                                self._add(f, "ref", fr, n)
                            break

    def _funcs_in_table(self, expr, module, cls, _depth=0):
        out = []
        if _depth > 3:
            return out
        for n in ast.walk(expr):
            if isinstance(n, (ast.Name, ast.Attribute)):
                r = self.prog.resolve_expr(n, module, cls)
                if isinstance(r, FunctionInfo):
                    out.append(r)
                elif isinstance(r, ClassInfo):
                    # registry of classes (valid_operations): every method may be called through it
                    pass
        return out

    # ------------------------------------------------------------------ queries
    def callees(self, f, kinds):
        return [(k, c, n) for (k, c, n) in self.edges.get(f, []) if k in kinds]

    def reachable(self, entries, kinds, stop=None):
        """Set of functions reachable from entries over edges of the given kinds."""
        seen = set()
        stack = list(entries)
        while stack:
            f = stack.pop()
            if f in seen:
                continue
            seen.add(f)
            if stop is not None and stop(f):
                continue
            for k, c, _ in self.edges.get(f, []):
                if k in kinds and c not in seen:
                    stack.append(c)
        return seen

    def path(self, entry, target, kinds):
        """One call chain entry -> ... -> target (list of FunctionInfo) or None."""
        prev = {entry: None}
        queue = [entry]
        while queue:
            f = queue.pop(0)
            if f is target:
                out = []
                while f is not None:
                    out.append(f)
                    f = prev[f]
                return list(reversed(out))
            for k, c, _ in self.edges.get(f, []):
                if k in kinds and c not in prev:
                    prev[c] = f
                    queue.append(c)
        return None


ALL_KINDS = ("precise", "prop", "ref", "name", "weak")
STRONG_KINDS = ("precise", "prop", "ref", "name")


def _is_local(name, f):
    for n in walk_no_nested(f.node):
        if isinstance(n, ast.Name) and n.id == name and isinstance(n.ctx, ast.Store):
            return True
    return name in f.params()
