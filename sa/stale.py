"""Loop-carried conditional state: a variable that is assigned only conditionally inside a loop body and read inside the
same loop can carry the value of a previous iteration (or of the pre-loop initialisation) into the current one.
Deliberate accumulators (x += ..., x = f(x), containers mutated in place) and variables reset unconditionally at the top
of the body are not reported."""
import ast

from .cfg import build_cfg
from .dataflow import ReachingDefs, defs_of_node
from .model import loc, norm, walk_no_nested


def stale_loop_vars(fi):
    """-> [(loop ast, var name, use ast, carried def ast)]"""
    out = []
    rd = ReachingDefs(fi)
    cfg = rd.cfg
    dom = cfg.dominators()
    loops = [n for n in cfg.nodes if n.kind == "loop" or (n.kind == "cond" and isinstance(n.extra, ast.While))]
    for lp in loops:
        body = lp.extra.body if lp.extra is not None else []
        body_ids = {id(x) for b in body for x in ast.walk(b)}
        body_nodes = [n for n in cfg.nodes if n.ast is not None and id(n.ast) in body_ids and n is not lp]
        if not body_nodes:
            continue
        targets = {x.id for x in ast.walk(lp.ast.target) if isinstance(x, ast.Name)} if lp.kind == "loop" else set()
        # definitions inside the body
        defs_in = {}
        for n in body_nodes:
            for d in rd.gen[n]:
                defs_in.setdefault(d.name, []).append((n, d))
        for name, dl in defs_in.items():
            if name in targets:
                continue
            # accumulator: every in-loop definition reads the variable itself
            def self_ref(d):
                if d.kind == "aug":
                    return True
                return d.value is not None and any(isinstance(x, ast.Name) and x.id == name for x in ast.walk(d.value))
            if all(self_ref(d) for _, d in dl):
                continue
            # a nested loop's own target / comprehension variables are not state
            if any(d.kind in ("for", "with", "except", "import") for _, d in dl):
                continue
            # uses inside the body
            for n in body_nodes:
                if n not in rd.IN:
                    continue
                used = [x for r in _roots(n) for x in ast.walk(r) if isinstance(x, ast.Name) and x.id == name and isinstance(x.ctx, ast.Load)]
                if not used:
                    continue
                # an in-iteration definition dominating this use (and lying in the body) makes the value fresh
                if any(dn in dom.get(n, ()) and dn is not n for dn, _ in dl):
                    continue
                reaching = [d for d in rd.IN[n] if d.name == name]
                outside = [d for d in reaching if not any(d is dd for _, dd in dl)]
                if not outside:
                    continue
                # an in-loop definition that can travel round the back edge to this use without being overwritten
                def_nodes = {dn for dn, _ in dl}
                via_back = None
                for dn, d in dl:
                    if d not in reaching:
                        continue
                    to_head = lp in cfg.reachable_from(dn, True, avoid=def_nodes - {dn})
                    from_head = n in cfg.reachable_from(lp, True, avoid=def_nodes) or n in def_nodes and \
                        n in cfg.reachable_from(lp, True, avoid=def_nodes - {n})
                    if to_head and from_head:
                        via_back = d
                        break
                if via_back is not None:
                    out.append((lp.extra, name, used[0], via_back.node))
                    break
    return out


def _roots(n):
    a = n.ast
    if n.kind == "loop":
        return [a.iter]
    if n.kind == "with":
        return [it.context_expr for it in a.items]
    if n.kind in ("with_exit", "handler"):
        return []
    if isinstance(a, (ast.FunctionDef, ast.AsyncFunctionDef, ast.ClassDef)):
        return []
    if isinstance(a, ast.Assign):
        return [a.value] + [t for t in a.targets if not isinstance(t, ast.Name)]
    if isinstance(a, ast.AugAssign):
        return [a.value, a.target]
    return [a]


def _node_of_def(dl, d):
    for n, dd in dl:
        if dd is d:
            return n
    return None


def _precedes_in_iteration(cfg, lp, dn, un):
    """Can control flow from the definition node to the use node without passing the loop head?"""
    if dn is None:
        return False
    return un in cfg.reachable_from(dn, True, avoid={lp}) and dn is not un


def check_no_stale_state(ctx, rule, funcs, allow, why):
    """Armed form: in `funcs`, no loop-carried conditional state except the frozen, individually justified exceptions
    `allow` = {function short name: (number of deliberately carried variables, reason)}.  Exceptions are counted per
    function, not matched by variable name, so renaming a local does not change the verdict."""
    n_loops = 0
    for f in funcs:
        ctx.saw(f)
        n_loops += sum(1 for x in walk_no_nested(f.node) if isinstance(x, (ast.For, ast.While)))
        hits = stale_loop_vars(f)
        names = []
        for lp, name, use, d in hits:
            if name not in names:
                names.append(name)
        budget, reason = allow.get(f.short, (0, ""))
        if len(names) <= budget:
            if names:
                ctx.ok(rule, "%s: %d variable(s) carried between iterations on purpose — %s" % (f.short, len(names), reason), loc(f, f.node))
            continue
        for lp, name, use, d in hits:
            ctx.violation(rule, f.qualname, "loop-carried state in %s" % f.short, loc(f, use),
                          "`%s` is assigned only on some paths through the loop body (line %d) and read in the same loop: in an "
                          "iteration that does not assign it, the value of an earlier iteration (or the pre-loop value) is used "
                          "(%d such variable(s) here, %d deliberate). %s" % (name, d.lineno, len(names), budget, why))
    ctx.ok(rule, "%d loops in %d functions: no loop-carried conditional state beyond the frozen exceptions" % (n_loops, len(list(funcs))), "")
    return n_loops


def last_only_vars(fi):
    """Variables whose only in-loop definitions are plain (non-accumulating) assignments and whose in-loop value is read
    after the loop: only the last iteration's value survives.  Search loops (the definition is followed by a `break`/
    `return` on every path) and loop targets are not reported.  -> [(loop ast, var name, use ast, def ast)]"""
    out = []
    rd = ReachingDefs(fi)
    cfg = rd.cfg
    loops = [n for n in cfg.nodes if n.kind == "loop" or (n.kind == "cond" and isinstance(n.extra, ast.While))]
    for lp in loops:
        body = lp.extra.body if lp.extra is not None else []
        body_ids = {id(x) for b in body for x in ast.walk(b)}
        body_nodes = [n for n in cfg.nodes if n.ast is not None and id(n.ast) in body_ids and n is not lp]
        body_set = set(body_nodes)
        if not body_nodes:
            continue
        targets = {x.id for x in ast.walk(lp.ast.target) if isinstance(x, ast.Name)} if lp.kind == "loop" else set()
        defs_in = {}
        for n in body_nodes:
            for d in rd.gen[n]:
                defs_in.setdefault(d.name, []).append((n, d))
        for name, dl in defs_in.items():
            if name in targets:
                continue
            if any(d.kind != "assign" for _, d in dl):
                continue
            if any(d.value is not None and any(isinstance(x, ast.Name) and x.id == name for x in ast.walk(d.value))
                   for _, d in dl):
                continue
            # the definition can travel round the back edge (otherwise it is a search loop: def then break/return)
            def_nodes = {dn for dn, _ in dl}
            if not any(lp in cfg.reachable_from(dn, True) for dn in def_nodes):
                continue
            # the variable is also used inside the loop only as a per-iteration temporary?  irrelevant: we look at uses after
            hit = None
            for n in cfg.nodes:
                if n in body_set or n is lp or n not in rd.IN or n.ast is None:
                    continue
                used = [x for r in _roots(n) for x in ast.walk(r)
                        if isinstance(x, ast.Name) and x.id == name and isinstance(x.ctx, ast.Load)]
                if not used:
                    continue
                reach = [d for d in rd.IN[n] if d.name == name and any(d is dd for _, dd in dl)]
                if reach:
                    hit = (lp.extra, name, used[0], reach[0].node)
                    break
            if hit:
                out.append(hit)
    return out


def check_no_last_only(ctx, rule, funcs, allow, why):
    """Armed form of last_only_vars with per-function count exceptions (see check_no_stale_state)."""
    n_loops = 0
    for f in funcs:
        ctx.saw(f)
        n_loops += sum(1 for x in walk_no_nested(f.node) if isinstance(x, (ast.For, ast.While)))
        hits = last_only_vars(f)
        names = []
        for lp, name, use, d in hits:
            if name not in names:
                names.append(name)
        budget, reason = allow.get(f.short, (0, ""))
        if len(names) <= budget:
            if names:
                ctx.ok(rule, "%s: %d variable(s) keep the last iteration's value on purpose — %s" % (f.short, len(names), reason),
                       loc(f, f.node))
            continue
        for lp, name, use, d in hits:
            ctx.violation(rule, f.qualname, "last-iteration-only value in %s" % f.short, loc(f, use),
                          "`%s` is overwritten (not accumulated) in every iteration of the loop at line %d and read after the "
                          "loop: only the last iteration's value is used (%d such variable(s) here, %d deliberate). %s"
                          % (name, lp.lineno, len(names), budget, why))
    ctx.ok(rule, "%d loops in %d functions: no value of a per-entry loop is consumed after the loop except the frozen exceptions"
           % (n_loops, len(list(funcs))), "")
    return n_loops


def _own_breaks(loop):
    out = []

    def rec(stmts):
        for s in stmts:
            if isinstance(s, (ast.For, ast.While, ast.AsyncFor)):
                rec(s.orelse)
                continue
            if isinstance(s, (ast.FunctionDef, ast.AsyncFunctionDef, ast.ClassDef)):
                continue
            if isinstance(s, ast.Break):
                out.append(s)
            for fld in ("body", "orelse", "finalbody"):
                v = getattr(s, fld, None)
                if v:
                    rec(v)
            for h in getattr(s, "handlers", []) or []:
                rec(h.body)
            for c in getattr(s, "cases", []) or []:
                rec(c.body)
    rec(loop.body)
    return out


def silent_breaks(fi):
    """Loops that accumulate into a list the function returns (`x += ...`, `x.append/extend(...)`) and are left by a `break`
    that is not preceded, in the same iteration, by such an accumulation: the remaining items are skipped without a report.
    -> (number of breaks examined, [(loop ast, break ast)])"""
    returned = set()
    for n in walk_no_nested(fi.node):
        if isinstance(n, ast.Return) and n.value is not None:
            returned |= {x.id for x in ast.walk(n.value) if isinstance(x, ast.Name)}
    if not returned:
        return 0, []

    def is_emit(s):
        for x in ast.walk(s):
            if isinstance(x, ast.AugAssign) and isinstance(x.target, ast.Name) and x.target.id in returned:
                return True
            if isinstance(x, ast.Call) and isinstance(x.func, ast.Attribute) and x.func.attr in ("append", "extend") and \
                    isinstance(x.func.value, ast.Name) and x.func.value.id in returned:
                return True
        return False
    cfg = build_cfg(fi.node)
    out, n_checked = [], 0
    for lp in walk_no_nested(fi.node):
        if not isinstance(lp, (ast.For, ast.While)):
            continue
        brs = _own_breaks(lp)
        if not brs:
            continue
        body_ids = {id(x) for b in lp.body for x in ast.walk(b)}
        emits = [n for n in cfg.nodes if n.kind == "stmt" and n.ast is not None and id(n.ast) in body_ids and is_emit(n.ast)
                 and not isinstance(n.ast, (ast.For, ast.While, ast.If, ast.With, ast.Try))]
        if not emits:
            continue          # a search loop: nothing is reported per item
        head = cfg.node_of(lp)
        for b in brs:
            bn = cfg.node_of(b)
            if head is None or bn is None:
                continue
            n_checked += 1
            if bn in cfg.reachable_from(head, True, avoid=set(emits)):
                out.append((lp, b))
    return n_checked, out


def check_no_silent_break(ctx, rule, funcs, why):
    total = 0
    for f in funcs:
        n, hits = silent_breaks(f)
        if n:
            ctx.saw(f)
        total += n
        for lp, b in hits:
            ctx.violation(rule, f.qualname, b, loc(f, b),
                          "the loop at line %d reports per item into the returned list, and this `break` leaves it without a "
                          "report in the current iteration: every item after this one is skipped silently. %s" % (lp.lineno, why))
        for _ in range(n - len(hits)):
            ctx.ok(rule, "%s: break only after a report in the same iteration" % f.short, loc(f, f.node))
    return total
