"""A2: must-pass-through, guard dominance and ordering inside one function."""
import ast

from .cfg import build_cfg
from .model import walk_no_nested, call_name, norm


class FuncView:
    def __init__(self, fi):
        self.fi = fi
        self.cfg = build_cfg(fi.node)
        self._dom = None
        self._pdom = None

    # ------------------------------------------------------------ basics
    @property
    def dom(self):
        if self._dom is None:
            self._dom = self.cfg.dominators()
        return self._dom

    @property
    def pdom(self):
        if self._pdom is None:
            self._pdom = self.cfg.dominators(post=True)
        return self._pdom

    def node(self, astnode):
        return self.cfg.node_of(astnode)

    def dominates(self, a, b):
        return b in self.dom and a in self.dom[b]

    def postdominates(self, a, b):
        """a post-dominates b with respect to the normal exit."""
        return b in self.pdom and a in self.pdom[b]

    def reachable(self, src, avoid=()):
        return self.cfg.reachable_from(src, True, avoid)

    def reachable_from_entry(self, avoid=(), cut_edges=()):
        """Nodes reachable from entry on normal edges, not entering `avoid` and not using cut_edges
        (set of (node, label))."""
        cfg = self.cfg
        seen = set()
        stack = [cfg.entry]
        avoid = set(avoid)
        cut = set(cut_edges)
        while stack:
            x = stack.pop()
            if x in seen or x in avoid:
                continue
            seen.add(x)
            for m, l in cfg.succ[x]:
                if l == "exc" or (x, l) in cut:
                    continue
                stack.append(m)
        return seen

    def must_pass(self, via, target, start=None):
        """Every normal path entry -> target passes through a node in `via`."""
        if start is None:
            r = self.reachable_from_entry(avoid=via)
        else:
            r = self.cfg.reachable_from(start, True, avoid=via)
        return target not in r

    def edge_required(self, cond, label, target):
        """target is reachable only through edge (cond, label)."""
        r = self.reachable_from_entry(cut_edges={(cond, label)})
        return target not in r

    def edge_guards(self, cond, label, target):
        """`target` executes only after `cond` took `label` *this time round*: cond dominates target and
        target is not reachable from cond's other successors without passing cond again (loop safe)."""
        if not self.dominates(cond, target):
            return False
        for m, l in self.cfg.succ[cond]:
            if l == "exc" or l == label:
                continue
            if target in self.cfg.reachable_from(m, True, avoid={cond}):
                return False
        return True

    def guard_for(self, target, test_pred, want_leave=None):
        """Find (cond, continue-label) such that cond's test satisfies test_pred, the other branch leaves
        (raise/return/continue/break, optionally restricted to want_leave kinds) and the continue-label
        edge guards target.  Also accepts the inverted form `if ok: <target>`.  Returns (cond, label) or None."""
        for c in self.conds(test_pred):
            for lab in (True, False):
                other = not lab
                kinds = self.leaves(c, other)
                if want_leave is not None:
                    if not kinds or not kinds <= set(want_leave):
                        # inverted form: the target sits inside the branch and the other branch need not leave
                        if self.edge_guards(c, lab, target) and self._inside_branch(c, lab, target):
                            return c, lab
                        continue
                if self.edge_guards(c, lab, target):
                    return c, lab
        return None

    def _inside_branch(self, cond, label, target):
        ifnode = cond.extra
        if not isinstance(ifnode, ast.If) or target.ast is None:
            return False
        body = ifnode.body if label is True else ifnode.orelse
        return any(x is target.ast for b in body for x in ast.walk(b))

    def every_path_to_exit_passes(self, frm, via):
        """Every normal path frm -> exit passes through a node in via (frm itself excluded)."""
        cfg = self.cfg
        seen = set()
        stack = [m for (m, l) in cfg.succ[frm] if l != "exc"]
        via = set(via)
        while stack:
            x = stack.pop()
            if x in seen or x in via:
                continue
            if x is cfg.exit:
                return False
            seen.add(x)
            for m, l in cfg.succ[x]:
                if l != "exc":
                    stack.append(m)
        return True

    # ------------------------------------------------------------ finders
    def conds(self, pred=None):
        return [n for n in self.cfg.nodes if n.kind == "cond" and (pred is None or pred(n.ast))]

    def calls(self, pred):
        """[(cfg node, call ast)] for calls satisfying pred(call)."""
        out = []
        for n in self.cfg.nodes:
            for c in self.node_calls(n):
                if pred(c):
                    out.append((n, c))
        return out

    def node_roots(self, n):
        a = n.ast
        if a is None:
            return []
        if n.kind == "loop":
            return [a.iter]
        if n.kind == "with":
            return [it.context_expr for it in a.items]
        if n.kind in ("with_exit", "handler"):
            return []
        if isinstance(a, (ast.FunctionDef, ast.AsyncFunctionDef, ast.ClassDef)):
            return []
        return [a]

    def node_calls(self, n):
        out = []
        for r in self.node_roots(n):
            for x in ast.walk(r):
                if isinstance(x, ast.Call):
                    out.append(x)
        return out

    def stmts(self, pred):
        return [n for n in self.cfg.nodes if n.ast is not None and n.kind == "stmt" and pred(n.ast)]

    def leaves(self, cond, label):
        """The branch (cond,label) never reaches the normal exit of the function by falling through
        the rest of the function: it ends in raise / return / continue / break.  Returns the kind set."""
        ifnode = cond.extra
        if not isinstance(ifnode, ast.If):
            return set()
        body = ifnode.body if label is True else ifnode.orelse
        return _leave_kinds(body)


def _leave_kinds(body):
    if not body:
        return set()
    last = body[-1]
    if isinstance(last, ast.Raise):
        return {"raise"}
    if isinstance(last, ast.Return):
        return {"return"}
    if isinstance(last, ast.Continue):
        return {"continue"}
    if isinstance(last, ast.Break):
        return {"break"}
    if isinstance(last, ast.If) and last.orelse:
        a, b = _leave_kinds(last.body), _leave_kinds(last.orelse)
        if a and b:
            return a | b
    return set()


def loop_fresh(v, use_node, name):
    """Is `name` (re)defined in every iteration before `use_node`: a definition inside the innermost loop body that
    contains use_node dominates it?  (Otherwise a value from a previous iteration, or from before the loop, is used.)"""
    from .dataflow import defs_of_node
    loops = [lp for lp in v.cfg.nodes if lp.kind == "loop" and use_node.ast is not None and
             any(x is use_node.ast for b in lp.ast.body for x in ast.walk(b))]
    if not loops:
        return True
    # innermost: the loop whose body is smallest
    inner = min(loops, key=lambda lp: sum(1 for b in lp.ast.body for _ in ast.walk(b)))
    if name in {x.id for x in ast.walk(inner.ast.target) if isinstance(x, ast.Name)}:
        return True
    for n in v.cfg.nodes:
        if n.ast is None or n is inner:
            continue
        if any(x is n.ast for b in inner.ast.body for x in ast.walk(b)) and \
                any(d.name == name and d.kind in ("assign", "unpack", "for", "with") for d in defs_of_node(n)) and v.dominates(n, use_node):
            return True
    return False


def view(ctx, fi):
    cache = ctx.shared.setdefault("views", {})
    if fi not in cache:
        cache[fi] = FuncView(fi)
    return cache[fi]


def is_call_to(call, *names):
    return call_name(call) in names


def mentions(node, *names):
    """Some Name id or Attribute attr inside node is in names."""
    for x in ast.walk(node):
        if isinstance(x, ast.Name) and x.id in names:
            return True
        if isinstance(x, ast.Attribute) and x.attr in names:
            return True
    return False


def iteration_can_skip(v, loop_ast, targets):
    """Can one iteration of `loop_ast` go from the loop head round to the head again without passing a node in targets?
    (Leaving the function or the loop does not count.)"""
    head = v.cfg.node_of(loop_ast)
    targets = set(targets)
    seen, stack = set(), [m for (m, l) in v.cfg.succ[head] if l is True]
    while stack:
        x = stack.pop()
        if x in seen or x in targets:
            continue
        if x is head:
            return True
        seen.add(x)
        stack.extend(m for (m, l) in v.cfg.succ[x] if l != "exc" and m is not v.cfg.exit and m is not v.cfg.raise_exit)
    return False


def edge_always_raises(v, cond, label):
    """Taking edge (cond, label) inevitably ends in a `raise`: neither the normal exit of the function nor `cond` itself
    (the next loop iteration) is reachable from it over normal edges."""
    starts = [m for (m, l) in v.cfg.succ[cond] if l == label]
    if not starts:
        return False
    seen, stack = set(), list(starts)
    raised = False
    while stack:
        x = stack.pop()
        if x in seen:
            continue
        seen.add(x)
        if x is v.cfg.exit or x is cond:
            return False
        if x.kind == "stmt" and isinstance(x.ast, ast.Raise):
            raised = True
            continue
        for m, l in v.cfg.succ[x]:
            if l == "exc":
                continue
            stack.append(m)
    return raised
