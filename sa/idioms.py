"""Small repository-wide idiom checks shared by several properties (each is a necessary condition named in the rule text)."""
import ast

from .model import loc, norm, walk_no_nested


def check_def_masks_case_insensitive(ctx, rule, floor=1):
    """Every pandas `.str.contains('<Def…>/')` row mask of the column-wise definition helpers is case-insensitive, as the
    object-level helpers are (tag names are case-insensitive): a row whose Def tags are written `def/…` must be selected."""
    n = 0
    for f in ctx.prog.functions.values():
        if f.module.name not in ("hed.models.df_util", "hed.models.def_expand_gather"):
            continue
        for c in walk_no_nested(f.node):
            if not (isinstance(c, ast.Call) and isinstance(c.func, ast.Attribute) and c.func.attr in ("contains", "startswith", "match")
                    and isinstance(c.func.value, ast.Attribute) and c.func.value.attr == "str" and c.args):
                continue
            # every text mask of these two modules selects rows by a Def/Def-expand marker (a literal, or the marker handed to
            # a shared helper)
            n += 1
            ctx.saw(f)
            kw = {k.arg: k.value for k in c.keywords if k.arg}
            ci = isinstance(kw.get("case"), ast.Constant) and kw["case"].value is False
            ci = ci or ("flags" in kw and "IGNORECASE" in norm(kw["flags"]))
            ctx.check(ci, rule, f.qualname, c, loc(f, c),
                      "the row mask `%s` is case-sensitive: rows whose definition tags are written in another letter case "
                      "(`def/Name`, `DEF-EXPAND/Name`) are skipped by this column-wise variant while the other variants and the "
                      "object-level helpers process them" % norm(c)[:60],
                      desc="%s: Def row mask is case-insensitive" % f.short)
    ctx.floor(rule, "Def row masks in the column-wise helpers", n, floor)
    return n


def check_no_strip_of_prefix(ctx, rule, scope, what):
    """`s.lstrip(p)` / `s.rstrip(p)` with a computed, possibly multi-character `p` removes any run of p's *characters*, not the
    prefix/suffix p: a prefix is removed by length (slicing) or removeprefix()."""
    n = 0
    for f in scope:
        for c in walk_no_nested(f.node):
            if isinstance(c, ast.Call) and isinstance(c.func, ast.Attribute) and c.func.attr in ("lstrip", "rstrip", "strip") and c.args:
                a = c.args[0]
                val = a.value if isinstance(a, ast.Constant) else ctx.prog.try_const(a, f.module, f.cls, f, default=None)
                n += 1
                if isinstance(val, str):
                    continue        # a constant character set: that is what strip is for
                ctx.saw(f)
                ctx.violation(rule, f.qualname, c, loc(f, c),
                              "`%s` strips every leading/trailing character that occurs in `%s`, not that text as a prefix/suffix: %s"
                              % (norm(c)[:60], norm(a)[:30], what))
    ctx.ok(rule, "%d strip calls with an argument: all strip a constant character set" % n, "")
    return n
