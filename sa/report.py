"""Obligation bookkeeping, evidence, known findings, replay files."""
import json
import os
import time

from .model import AnalysisError, stmt_key, shape_key

VERIF = os.path.dirname(os.path.dirname(os.path.abspath(__file__)))


class Finding:
    def __init__(self, prop, rule, construct, statement, where, message, witness=None, shape=None):
        self.shape = shape if shape is not None else statement
        self.prop = prop
        self.rule = rule
        self.construct = construct
        self.statement = statement
        self.where = where
        self.message = message
        self.witness = witness or []
        self.known = None

    def key(self):
        return (self.prop, self.rule, self.construct, self.statement)

    def as_dict(self):
        return {"property": self.prop, "rule": self.rule, "construct": self.construct,
                "statement": self.statement, "shape": self.shape, "where": self.where, "message": self.message,
                "witness": self.witness}


class Context:
    """Handed to every rule module."""

    def __init__(self, prop, prog, cg, tier="quick", shared=None):
        self.prop = prop
        self.prog = prog
        self.cg = cg
        from . import norm as _norm
        _norm.CG = cg
        self.tier = tier
        self.shared = shared if shared is not None else {}
        self.findings = []
        self.xrefs = []
        self.obligations = []     # (rule, description, where, ok)
        self.rules = {}           # rule id -> text
        self.analysed = {"functions": set(), "call_sites": 0, "paths": 0, "modules": set()}
        self.assumptions = []
        self.notes = []

    # -- declarations
    def rule(self, rid, text):
        self.rules[rid] = text

    def assume(self, text):
        if text not in self.assumptions:
            self.assumptions.append(text)

    def saw(self, *funcs):
        for f in funcs:
            if f is None:
                continue
            self.analysed["functions"].add(f.qualname)
            self.analysed["modules"].add(f.module.name)

    def count_sites(self, n=1):
        self.analysed["call_sites"] += n

    def count_paths(self, n=1):
        self.analysed["paths"] += n

    # -- verdicts
    def ok(self, rule, desc, where=""):
        self.obligations.append((rule, desc, where, True))

    def violation(self, rule, construct, node_or_text, where, message, witness=None, desc=None):
        st = node_or_text if isinstance(node_or_text, str) else stmt_key(node_or_text)
        sh = node_or_text if isinstance(node_or_text, str) else shape_key(node_or_text)
        origin = getattr(node_or_text, "_inl_origin", None)
        if origin:
            construct = origin          # a statement of a private helper that was expanded into its caller
        f = Finding(self.prop, rule, construct, st, where, message, witness, shape=sh)
        # de-duplicate
        for g in self.findings:
            if g.key() == f.key():
                return g
        self.findings.append(f)
        self.obligations.append((rule, desc or message, where, False))
        return f

    def check(self, cond, rule, construct, node_or_text, where, message, witness=None, desc=None):
        if cond:
            self.ok(rule, desc or message, where)
        else:
            self.violation(rule, construct, node_or_text, where, message, witness, desc=desc)
        return cond

    def xref(self, rule, where, message):
        self.xrefs.append({"rule": rule, "where": where, "message": message})

    def floor(self, rule, what, count, floor):
        if count < floor:
            raise AnalysisError("rule %s: %s = %d is below the confirmed floor %d (rule would pass vacuously)"
                                % (rule, what, count, floor))
        self.notes.append("%s: %s = %d (floor %d)" % (rule, what, count, floor))


def load_known():
    p = os.path.join(VERIF, "known_findings.json")
    if not os.path.exists(p):
        return []
    with open(p) as f:
        return json.load(f)


def match_known(finding, known):
    for k in known:
        if k.get("status") != "known":
            continue
        if k["property"] == finding.prop and k["rule"] == finding.rule and k["construct"] == finding.construct:
            if ("shape" in k and k["shape"] == finding.shape) or ("shape" not in k and k["statement"] == finding.statement):
                return k
    return None


def emit(ctx, wall, level_text, out=print, write=True):
    """Print the report, write evidence + replay files, return the exit code."""
    known = load_known()
    viol = []
    for f in ctx.findings:
        k = match_known(f, known)
        if k is not None:
            f.known = k
            out("KNOWN-FINDING: property=%s %s %s: %s" % (f.prop, f.rule, f.construct, k.get("fails", f.message)))
        else:
            viol.append(f)
    replay_dir = os.path.join(VERIF, "evidence", "replay")
    paths = []
    if write:
        os.makedirs(replay_dir, exist_ok=True)
        # remove stale replay files for this property
        for fn in os.listdir(replay_dir):
            if fn.startswith(ctx.prop + "-"):
                try:
                    os.unlink(os.path.join(replay_dir, fn))
                except OSError:
                    pass
    for i, f in enumerate(viol):
        out("")
        out("  rule      : %s — %s" % (f.rule, ctx.rules.get(f.rule, "")))
        out("  where     : %s" % f.where)
        out("  construct : %s" % f.construct)
        out("  statement : %s" % f.statement)
        out("  problem   : %s" % f.message)
        for w in f.witness:
            out("  witness   : %s" % w)
        rp = os.path.join(replay_dir, "%s-%d.json" % (ctx.prop, i))
        if write:
            with open(rp, "w") as fh:
                d = f.as_dict()
                d["digest"] = ctx.prog.digest
                json.dump(d, fh, indent=1)
        paths.append(rp)
        out("VIOLATION property=%s replay=%s" % (ctx.prop, rp))
    n_ob = len(ctx.obligations)
    n_ok = sum(1 for o in ctx.obligations if o[3])
    distinct = len({(o[0], o[1], o[2]) for o in ctx.obligations})
    samples = []
    seen_rules = {}
    for o in ctx.obligations:
        if seen_rules.get(o[0], 0) < 3:
            seen_rules[o[0]] = seen_rules.get(o[0], 0) + 1
            samples.append({"rule": o[0], "obligation": o[1], "where": o[2],
                            "verdict": "discharged" if o[3] else "VIOLATED"})
    for f in ctx.findings:
        samples.append({"rule": f.rule, "construct": f.construct, "statement": f.statement, "where": f.where,
                        "verdict": "known-finding" if f.known else "VIOLATION", "problem": f.message})
    ev = {
        "property_id": ctx.prop,
        "tier": ctx.tier,
        "seed": int(os.environ.get("VERIF_SEED", "0") or 0),
        "level": "other",
        "wall_s": round(wall, 3),
        "violations": len(viol),
        "assumptions": ctx.assumptions,
        "coverage": {
            "explanation": level_text,
            "obligations": n_ob,
            "discharged": n_ok + sum(1 for f in ctx.findings if f.known),
            "evaluations": n_ob,
            "distinct_nontrivial": distinct,
            "rule": "one obligation per rule instance found in the current tree (call site, function, table "
                    "entry, path); distinct = distinct (rule, obligation, location) triples; an instance is "
                    "non-trivial because it is bound to a concrete construct of /repo's source",
            "rules": ctx.rules,
            "samples": samples[:60],
            "functions_analysed": len(ctx.analysed["functions"]),
            "modules_analysed": len(ctx.analysed["modules"]),
            "modules_parsed": len(ctx.prog.modules),
            "call_sites_analysed": ctx.analysed["call_sites"],
            "paths_analysed": ctx.analysed["paths"],
            "cross_references": ctx.xrefs[:40],
            "instance_counts": ctx.notes,
            "known_findings": [f.as_dict() for f in ctx.findings if f.known],
            "tree_digest": ctx.prog.digest,
            "call_graph_edges": dict(ctx.cg.stats) if ctx.cg is not None else {},
            "exhaustive": True,
        },
    }
    extra = ctx.shared.get("evidence_extra")
    if extra:
        ev["coverage"].update(extra)
    if write:
        os.makedirs(os.path.join(VERIF, "evidence"), exist_ok=True)
        with open(os.path.join(VERIF, "evidence", ctx.prop + ".json"), "w") as fh:
            json.dump(ev, fh, indent=1, sort_keys=True)
    out("%s: %d obligations over %d functions / %d call sites / %d paths; %d discharged, %d known finding(s), "
        "%d violation(s); %.2fs" % (ctx.prop, n_ob, len(ctx.analysed["functions"]), ctx.analysed["call_sites"],
                                    ctx.analysed["paths"], n_ok, sum(1 for f in ctx.findings if f.known),
                                    len(viol), wall))
    return 1 if viol else 0
