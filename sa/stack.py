"""A3: push_error_context / pop_error_context balance over all normal paths of a function.

Abstract state = (depth relative to entry, facts) where facts records the truth value already
taken for *correlated guards* (a condition whose normalised text occurs at least twice in the
function; a fact dies when one of its variables is re-assigned).  Obligations: depth never
negative, depth 0 at every normal exit (return / fall-off), bounded in loops."""
import ast

from .cfg import build_cfg
from .dataflow import defs_of_node
from .model import AnalysisError, norm, loc, walk_no_nested

PUSH, POP = "push_error_context", "pop_error_context"
CAP = 6


def _cond_key(test):
    """-> (normalised text, polarity)"""
    pol = True
    while isinstance(test, ast.UnaryOp) and isinstance(test.op, ast.Not):
        test = test.operand
        pol = not pol
    return norm(test), pol


def direct_effect(stmt_ast):
    """Net push/pop calls syntactically inside a simple statement, in evaluation order -> list of +1/-1."""
    out = []
    if stmt_ast is None:
        return out
    for n in ast.walk(stmt_ast):
        if isinstance(n, ast.Call) and isinstance(n.func, ast.Attribute):
            if n.func.attr == PUSH:
                out.append((n.lineno, n.col_offset, +1))
            elif n.func.attr == POP:
                out.append((n.lineno, n.col_offset, -1))
    out.sort()
    return [d for (_, _, d) in out]


class StackAnalysis:
    def __init__(self, prog, cg):
        self.prog = prog
        self.cg = cg
        owners = [f for f in prog.functions.values() if f.name in (PUSH, POP) and f.cls is not None]
        classes = {f.cls.qualname for f in owners}
        if len(classes) != 1 or len(owners) != 2:
            raise AnalysisError("A3 precondition: exactly one class must define %s/%s, found %s"
                                % (PUSH, POP, sorted(classes)))
        self.owner_cls = owners[0].cls
        self._summary = {}
        self._active = set()
        self.direct = [f for f in prog.functions.values()
                       if f.cls is not self.owner_cls and any(
                           isinstance(n, ast.Call) and isinstance(n.func, ast.Attribute) and n.func.attr in (PUSH, POP)
                           for n in walk_no_nested(f.node))]

    def functions_with_effect(self):
        return list(self.direct)

    def summary(self, f):
        """Net effect of calling f (0 when balanced / unknown)."""
        if f in self._summary:
            return self._summary[f]
        if f in self._active:
            return 0
        if f not in self.direct:
            self._summary[f] = 0
            return 0
        self._active.add(f)
        res = self.analyse(f)
        self._active.discard(f)
        exits = {d for (d, _) in res["exit_states"]}
        s = exits.pop() if len(exits) == 1 else 0
        self._summary[f] = s
        return s

    def _node_effects(self, f, n):
        """list of deltas for CFG node n, including callee summaries."""
        a = n.ast
        if a is None:
            return []
        if n.kind == "loop":
            roots = [a.iter]
        elif n.kind == "with":
            roots = [it.context_expr for it in a.items]
        elif n.kind in ("with_exit", "handler"):
            return []
        elif n.kind == "stmt" and isinstance(a, (ast.FunctionDef, ast.AsyncFunctionDef, ast.ClassDef)):
            return []
        else:
            roots = [a]
        out = []
        for r in roots:
            evs = []
            for c in ast.walk(r):
                if isinstance(c, ast.Call):
                    if isinstance(c.func, ast.Attribute) and c.func.attr in (PUSH, POP):
                        evs.append((c.lineno, c.col_offset, +1 if c.func.attr == PUSH else -1))
                    else:
                        res = self.cg.resolve_call(c, f)
                        prec = [t for (k, t) in res if k == "precise"]
                        cands = prec or [t for (k, t) in res if k == "name"]
                        cands = [t for t in cands if t in self.direct and t is not f]
                        if cands:
                            effs = {self.summary(t) for t in cands}
                            if len(effs) == 1:
                                e = effs.pop()
                                if e:
                                    evs.append((c.lineno, c.col_offset, e))
            evs.sort()
            out += [d for (_, _, d) in evs]
        return out

    def analyse(self, f):
        cfg = build_cfg(f.node)
        # correlated guards
        texts = {}
        for n in cfg.nodes:
            if n.kind == "cond":
                k, _ = _cond_key(n.ast)
                texts[k] = texts.get(k, 0) + 1
        correlated = {k for k, c in texts.items() if c >= 2}
        cond_vars = {}
        for n in cfg.nodes:
            if n.kind == "cond":
                k, _ = _cond_key(n.ast)
                if k in correlated:
                    cond_vars[k] = {x.id for x in ast.walk(n.ast) if isinstance(x, ast.Name)}
        effects = {n: self._node_effects(f, n) for n in cfg.nodes}
        kills = {}
        for n in cfg.nodes:
            names = {d.name for d in defs_of_node(n)}
            kills[n] = {k for k, vs in cond_vars.items() if vs & names}
        # worklist over (node, state)
        start = (0, frozenset())
        seen = {(cfg.entry, start): None}
        work = [(cfg.entry, start)]
        violations = []
        exit_states = set()
        n_states = 0
        while work:
            node, st = work.pop()
            n_states += 1
            depth, facts = st
            bad = False
            for d in effects[node]:
                depth += d
                if depth < 0:
                    violations.append(("negative", node, (node, st)))
                    bad = True
                    break
            if bad:
                continue
            if abs(depth) > CAP:
                violations.append(("unbounded", node, (node, st)))
                continue
            if kills[node]:
                facts = frozenset((k, v) for (k, v) in facts if k not in kills[node])
            for m, lab in cfg.succ[node]:
                if lab == "exc":
                    continue
                nf = facts
                if node.kind == "cond" and lab in (True, False):
                    k, pol = _cond_key(node.ast)
                    if k in correlated:
                        val = (lab == pol)
                        known = dict(facts).get(k)
                        if known is not None and known != val:
                            continue
                        if known is None:
                            nf = facts | {(k, val)}
                if m is cfg.exit:
                    exit_states.add((depth, nf))
                    if depth != 0:
                        violations.append(("exit", node, (node, st)))
                    continue
                if m is cfg.raise_exit:
                    continue
                key = (m, (depth, nf))
                if key not in seen:
                    seen[key] = (node, st)
                    work.append(key)

        def witness(key):
            path = []
            while key is not None:
                node, st = key
                if node.ast is not None and node.kind != "with_exit":
                    path.append(node.lineno)
                key = seen.get(key)
            path.reverse()
            out = []
            for x in path:
                if not out or out[-1] != x:
                    out.append(x)
            return out
        vio = []
        for kind, node, key in violations:
            vio.append({"kind": kind, "node": node, "lines": witness(key), "depth": key[1][0]})
        pushes = sum(1 for n in cfg.nodes for d in effects[n] if d > 0)
        pops = sum(1 for n in cfg.nodes for d in effects[n] if d < 0)
        return {"violations": vio, "states": n_states, "exit_states": exit_states, "pushes": pushes, "pops": pops,
                "correlated": sorted(correlated)}


def check_balance(ctx, rule, funcs):
    sa = ctx.shared.get("stack")
    if sa is None:
        sa = ctx.shared["stack"] = StackAnalysis(ctx.prog, ctx.cg)
    total_push = total_pop = 0
    for f in funcs:
        ctx.saw(f)
        res = sa.analyse(f)
        ctx.count_paths(res["states"])
        total_push += res["pushes"]
        total_pop += res["pops"]
        if not res["violations"]:
            ctx.ok(rule, "%s: %d push / %d pop sites balanced on every normal path (%d abstract states%s)" % (
                f.short, res["pushes"], res["pops"], res["states"],
                ", correlated guards: %s" % res["correlated"] if res["correlated"] else ""), loc(f, f.node))
            continue
        seen = set()
        for v in res["violations"]:
            node = v["node"]
            key = (v["kind"], node.lineno)
            if key in seen:
                continue
            seen.add(key)
            what = {"negative": "pops more contexts than were pushed (depth would become negative)",
                    "exit": "leaves the function with %+d error context(s) still pushed/popped" % v["depth"],
                    "unbounded": "context depth grows without bound around a loop"}[v["kind"]]
            stmt = node.ast if node.ast is not None else f.node
            ctx.violation(rule, f.qualname, "%s: %s" % (v["kind"], norm(stmt)[:120]), loc(f, stmt),
                          "a normal path through %s %s; every later issue is labelled with the wrong "
                          "row/column/key context" % (f.short, what),
                          witness=["path (line numbers from entry): %s" % v["lines"]])
    return total_push, total_pop
