"""Program model: modules, symbols, classes, constants, imports.

Built from the *source text* of /repo's working tree (or an in-memory overlay used by the
self-test).  Nothing under the analysed tree is imported or executed.
"""
import ast
import hashlib
import os
import warnings


class AnalysisError(Exception):
    """The analysis itself cannot run (vanished anchor, parse failure, floor not met)."""


class Unknown(Exception):
    """A constant expression could not be evaluated statically."""


REPO = os.environ.get("HED_REPO", "/repo")


class FunctionInfo:
    def __init__(self, module, node, cls=None, parent=None):
        self.module = module
        self.node = node
        self.cls = cls
        self.parent = parent          # enclosing FunctionInfo for nested functions
        self.name = node.name
        if parent is not None:
            self.qualname = parent.qualname + ".<locals>." + node.name
        elif cls is not None:
            self.qualname = cls.qualname + "." + node.name
        else:
            self.qualname = module.name + "." + node.name
        self.nested = {}              # name -> FunctionInfo
        self.decorators = node.decorator_list

    @property
    def short(self):
        """Class.method or function (no module)."""
        q = self.qualname[len(self.module.name) + 1:]
        return q

    @property
    def file(self):
        return self.module.relpath

    @property
    def lineno(self):
        return self.node.lineno

    def decorator_names(self):
        out = []
        for d in self.decorators:
            t = d.func if isinstance(d, ast.Call) else d
            if isinstance(t, ast.Name):
                out.append(t.id)
            elif isinstance(t, ast.Attribute):
                out.append(t.attr)
        return out

    @property
    def is_static(self):
        return "staticmethod" in self.decorator_names()

    @property
    def is_classmethod(self):
        return "classmethod" in self.decorator_names()

    @property
    def is_property(self):
        names = self.decorator_names()
        return "property" in names or "setter" in names

    @property
    def is_abstract(self):
        return "abstractmethod" in self.decorator_names()

    def params(self):
        a = self.node.args
        return [x.arg for x in a.posonlyargs + a.args]

    def __repr__(self):
        return "<fn %s>" % self.qualname


class ClassInfo:
    def __init__(self, module, node, outer=None):
        self.module = module
        self.node = node
        self.name = node.name
        self.qualname = (outer.qualname if outer else module.name) + "." + node.name
        self.methods = {}     # name -> FunctionInfo (last definition wins, like Python)
        self.all_methods = []  # every def, including property setter/getter pairs
        self.attrs = {}       # class-level simple assignments: name -> ast expr
        self.base_exprs = node.bases
        self.bases = []       # resolved ClassInfo list
        self.subclasses = []
        self.attr_types = {}  # self.<attr> -> set of ClassInfo (from constructor assignments)

    def mro(self):
        seen, out = set(), []

        def walk(c):
            if id(c) in seen:
                return
            seen.add(id(c))
            out.append(c)
            for b in c.bases:
                walk(b)
        walk(self)
        return out

    def find_method(self, name):
        for c in self.mro():
            if name in c.methods:
                return c.methods[name]
        return None

    def all_subclasses(self):
        out, stack = [], list(self.subclasses)
        while stack:
            c = stack.pop()
            if c not in out:
                out.append(c)
                stack.extend(c.subclasses)
        return out

    def is_subclass_of(self, other):
        return other in self.mro()

    def __repr__(self):
        return "<class %s>" % self.qualname


def canonicalise(tree):
    """Behaviour-preserving canonical forms, applied to the in-memory syntax tree only (positions are kept), so that every
    rule sees one spelling of two common refactors:
      * `t = <expr>` immediately followed by `if t:` / `if not t:` where `t` occurs nowhere else in the function
        -> `if <expr>:` (a guard computed into a single-use local is the guard);
      * `if not c: A else: B` (plain if/else, no elif) -> `if c: B else: A`;
      * `if a: if b: X` (no else on either) -> `if a and b: X`;
      * `t = <expr>; return t` with single-use `t` -> `return <expr>`;
      * `CONST == x` -> `x == CONST`, `<expr> == name` -> `name == <expr>` (also `!=`)."""
    def uses(scope, name):
        return sum(1 for x in ast.walk(scope) if isinstance(x, ast.Name) and x.id == name)

    def block(stmts, scope):
        out = []
        for st in stmts:
            rec(st, scope)
            if isinstance(st, ast.If) and out and isinstance(out[-1], ast.Assign) and len(out[-1].targets) == 1 and \
                    isinstance(out[-1].targets[0], ast.Name):
                nm = out[-1].targets[0].id
                t = st.test
                inner = t.operand if isinstance(t, ast.UnaryOp) and isinstance(t.op, ast.Not) else t
                if isinstance(inner, ast.Name) and inner.id == nm and uses(scope, nm) == 2 and \
                        not isinstance(out[-1].value, (ast.Constant, ast.Name)):
                    val = out.pop().value
                    if inner is t:
                        st.test = val
                    else:
                        t.operand = val
            if isinstance(st, ast.Return) and isinstance(st.value, ast.Name) and out and isinstance(out[-1], ast.Assign) and \
                    len(out[-1].targets) == 1 and isinstance(out[-1].targets[0], ast.Name) and \
                    out[-1].targets[0].id == st.value.id and uses(scope, st.value.id) == 2 and \
                    not isinstance(out[-1].value, (ast.Constant, ast.Name)):
                # `t = <expr>; return t` with single-use t -> `return <expr>`
                st.value = out.pop().value
            while isinstance(st, ast.If) and not st.orelse and len(st.body) == 1 and isinstance(st.body[0], ast.If) and \
                    not st.body[0].orelse:
                # `if a: if b: X` (no else on either) -> `if a and b: X`
                inner = st.body[0]
                vals = (st.test.values if isinstance(st.test, ast.BoolOp) and isinstance(st.test.op, ast.And) else [st.test]) + \
                       (inner.test.values if isinstance(inner.test, ast.BoolOp) and isinstance(inner.test.op, ast.And) else [inner.test])
                st.test = ast.copy_location(ast.BoolOp(op=ast.And(), values=vals), st.test)
                st.body = inner.body
            if isinstance(st, ast.If) and st.orelse and not (len(st.orelse) == 1 and isinstance(st.orelse[0], ast.If)) and \
                    isinstance(st.test, ast.UnaryOp) and isinstance(st.test.op, ast.Not):
                st.test = st.test.operand
                st.body, st.orelse = st.orelse, st.body
            out.append(st)
        return out

    def rec(node, scope):
        if isinstance(node, (ast.FunctionDef, ast.AsyncFunctionDef)):
            scope = node
        for fld in ("body", "orelse", "finalbody"):
            v = getattr(node, fld, None)
            if isinstance(v, list) and v and isinstance(v[0], ast.stmt):
                setattr(node, fld, block(v, scope))
        for h in getattr(node, "handlers", None) or []:
            h.body = block(h.body, scope)
        for c in getattr(node, "cases", None) or []:
            c.body = block(c.body, scope)
    rec(tree, tree)
    _inline_attribute_aliases(tree)
    # `CONST == x` -> `x == CONST`; `<non-name> == name` -> `name == <non-name>` (same for !=)
    for c in ast.walk(tree):
        if isinstance(c, ast.Compare) and len(c.ops) == 1 and isinstance(c.ops[0], (ast.Eq, ast.NotEq)):
            l, r = c.left, c.comparators[0]
            if (isinstance(l, ast.Constant) and not isinstance(r, ast.Constant)) or \
                    (isinstance(r, ast.Name) and not isinstance(l, (ast.Name, ast.Constant))):
                c.left, c.comparators = r, [l]
    return tree


def _inline_attribute_aliases(tree):
    """`t = p.q.r` where `t` is bound exactly once in the function, `p` is never re-bound there and `p.q.r` is not stored to
    between the binding and the last use of `t`, all uses lying after the binding inside the block that holds it: every `t` is
    read as `p.q.r` and the binding goes (a local alias of an attribute chain is the chain)."""
    import copy as _copy
    for fn in [n for n in ast.walk(tree) if isinstance(n, (ast.FunctionDef, ast.AsyncFunctionDef))]:
        if any(n is not fn and isinstance(n, (ast.FunctionDef, ast.AsyncFunctionDef, ast.Lambda)) for n in ast.walk(fn)):
            continue          # closures: leave alone
        stores, attr_stores, globs = {}, [], set()
        params = {a.arg for a in fn.args.posonlyargs + fn.args.args + fn.args.kwonlyargs}
        if fn.args.vararg:
            params.add(fn.args.vararg.arg)
        if fn.args.kwarg:
            params.add(fn.args.kwarg.arg)
        for n in ast.walk(fn):
            if isinstance(n, ast.Name) and isinstance(n.ctx, (ast.Store, ast.Del)):
                stores[n.id] = stores.get(n.id, 0) + 1
            elif isinstance(n, ast.Attribute) and isinstance(n.ctx, (ast.Store, ast.Del)):
                attr_stores.append((ast.unparse(n), n.lineno))
            elif isinstance(n, (ast.Global, ast.Nonlocal)):
                globs |= set(n.names)

        def chain_base(e):
            d = 0
            while isinstance(e, ast.Attribute):
                e = e.value
                d += 1
            return (e.id, d) if isinstance(e, ast.Name) else (None, 0)
        cands = {}      # name -> (assign stmt, block list)

        def scan(stmts):
            for st in stmts:
                if isinstance(st, ast.Assign) and len(st.targets) == 1 and isinstance(st.targets[0], ast.Name):
                    t = st.targets[0].id
                    base, depth = chain_base(st.value)
                    if base is not None and depth >= 1 and stores.get(t, 0) == 1 and t not in params and t not in globs \
                            and stores.get(base, 0) == 0 and t != base:
                        cands[t] = (st, stmts)
                for fld in ("body", "orelse", "finalbody"):
                    v = getattr(st, fld, None)
                    if isinstance(v, list) and v and isinstance(v[0], ast.stmt):
                        scan(v)
                for h in getattr(st, "handlers", None) or []:
                    scan(h.body)
        scan(fn.body)
        for t, (st, blk) in list(cands.items()):
            uses = [n.lineno for n in ast.walk(fn) if isinstance(n, ast.Name) and n.id == t and isinstance(n.ctx, ast.Load)]
            end = max(getattr(x, "end_lineno", x.lineno) or x.lineno for x in blk)
            txt = ast.unparse(st.value)
            ok = bool(uses) and min(uses) >= st.lineno and max(uses) <= end and \
                not any((a == txt or txt.startswith(a + ".")) and st.lineno <= ln <= max(uses) for (a, ln) in attr_stores)
            # the binding statement itself must not be the use line (t = p.q; on one line with its use is impossible)
            if not ok or any(u == st.lineno for u in uses):
                del cands[t]
        if not cands:
            continue

        class Sub(ast.NodeTransformer):
            def visit_Name(self, node):
                if isinstance(node.ctx, ast.Load) and node.id in cands:
                    return ast.copy_location(_copy.deepcopy(cands[node.id][0].value), node)
                return node
        for t, (st, blk) in cands.items():
            blk[:] = [x for x in blk if x is not st] or [ast.copy_location(ast.Pass(), st)]
        Sub().visit(fn)
        ast.fix_missing_locations(fn)


class ModuleInfo:
    def __init__(self, name, relpath, src, is_pkg):
        self.name = name
        self.relpath = relpath
        self.src = src
        self.is_pkg = is_pkg
        with warnings.catch_warnings():
            warnings.simplefilter("ignore")
            self.tree = canonicalise(ast.parse(src, filename=relpath))
        self.functions = {}   # top-level name -> FunctionInfo
        self.classes = {}     # top-level name -> ClassInfo
        self.assigns = {}     # top-level name -> ast expr (last simple assignment)
        self.imports = {}     # local name -> ('module', modname) | ('symbol', modname, name)
        self.lines = src.splitlines()

    @property
    def package(self):
        return self.name if self.is_pkg else self.name.rpartition(".")[0]


class Program:
    def __init__(self, root=None, overlay=None, packages=("hed",)):
        self.root = root or REPO
        self.overlay = overlay or {}
        self.modules = {}
        self.functions = {}      # qualname -> FunctionInfo
        self.classes = {}        # qualname -> ClassInfo
        self.by_func_name = {}   # bare name -> [FunctionInfo]
        self.by_class_name = {}  # bare name -> [ClassInfo]
        self.node_owner = {}     # id(ast node of def) -> FunctionInfo
        self.digest = None
        self._load(packages)
        self._index()
        self._resolve_bases()
        self._attr_types()

    # ------------------------------------------------------------------ loading
    def _load(self, packages):
        h = hashlib.sha256()
        for pkg in packages:
            base = os.path.join(self.root, pkg)
            if not os.path.isdir(base):
                raise AnalysisError("package directory missing: %s" % base)
            for dirpath, dirnames, filenames in os.walk(base):
                dirnames[:] = sorted(d for d in dirnames if d != "__pycache__")
                for fn in sorted(filenames):
                    if not fn.endswith(".py"):
                        continue
                    full = os.path.join(dirpath, fn)
                    rel = os.path.relpath(full, self.root)
                    if rel in self.overlay:
                        src = self.overlay[rel]
                    else:
                        with open(full, "rb") as f:
                            src = f.read().decode("utf-8")
                    src = src.replace("\r\n", "\n")
                    h.update(rel.encode())
                    h.update(src.encode())
                    parts = rel[:-3].split(os.sep)
                    is_pkg = parts[-1] == "__init__"
                    if is_pkg:
                        parts = parts[:-1]
                    name = ".".join(parts)
                    try:
                        self.modules[name] = ModuleInfo(name, rel, src, is_pkg)
                    except SyntaxError as e:
                        raise AnalysisError("cannot parse %s: %s" % (rel, e))
        self.digest = h.hexdigest()

    def _index(self):
        for m in self.modules.values():
            self._index_body(m, m.tree.body, None, None)
            self._index_imports(m)

    def _add_function(self, fi):
        self.functions[fi.qualname] = fi
        self.by_func_name.setdefault(fi.name, []).append(fi)
        self.node_owner[id(fi.node)] = fi
        # nested defs
        for sub in self._direct_defs(fi.node.body):
            if isinstance(sub, (ast.FunctionDef, ast.AsyncFunctionDef)):
                n = FunctionInfo(fi.module, sub, cls=None, parent=fi)
                fi.nested[sub.name] = n
                self._add_function(n)

    @staticmethod
    def _direct_defs(body):
        """Function/class defs lexically inside body but not inside another def."""
        out = []
        stack = list(body)
        while stack:
            n = stack.pop()
            if isinstance(n, (ast.FunctionDef, ast.AsyncFunctionDef, ast.ClassDef)):
                out.append(n)
                continue
            for c in ast.iter_child_nodes(n):
                if isinstance(c, (ast.stmt, ast.excepthandler, ast.match_case)) or \
                        isinstance(c, (ast.FunctionDef, ast.ClassDef)):
                    stack.append(c)
        return out

    def _index_body(self, m, body, cls, outer_cls):
        for n in body:
            if isinstance(n, (ast.FunctionDef, ast.AsyncFunctionDef)):
                fi = FunctionInfo(m, n, cls=cls)
                if cls is not None:
                    cls.methods[n.name] = fi
                    cls.all_methods.append(fi)
                else:
                    m.functions[n.name] = fi
                self._add_function(fi)
            elif isinstance(n, ast.ClassDef):
                ci = ClassInfo(m, n, outer=cls)
                if cls is None:
                    m.classes[n.name] = ci
                self.classes[ci.qualname] = ci
                self.by_class_name.setdefault(ci.name, []).append(ci)
                self._index_body(m, n.body, ci, cls)
            elif isinstance(n, ast.Assign):
                for t in n.targets:
                    if isinstance(t, ast.Name):
                        (cls.attrs if cls is not None else m.assigns)[t.id] = n.value
            elif isinstance(n, ast.AnnAssign) and isinstance(n.target, ast.Name) and n.value is not None:
                (cls.attrs if cls is not None else m.assigns)[n.target.id] = n.value
            elif isinstance(n, (ast.If, ast.Try)) and cls is None:
                # top-level conditional definitions (rare)
                for sub in ast.iter_child_nodes(n):
                    if isinstance(sub, ast.stmt):
                        self._index_body(m, [sub], cls, outer_cls)

    def _index_imports(self, m):
        for n in ast.walk(m.tree):
            if isinstance(n, ast.Import):
                for a in n.names:
                    if a.asname:
                        m.imports.setdefault(a.asname, ("module", a.name))
                    else:
                        top = a.name.split(".")[0]
                        m.imports.setdefault(top, ("module", top))
            elif isinstance(n, ast.ImportFrom):
                if n.level:
                    pkg = m.package.split(".")
                    if n.level > 1:
                        pkg = pkg[: -(n.level - 1)]
                    base = ".".join(pkg + ([n.module] if n.module else []))
                else:
                    base = n.module or ""
                for a in n.names:
                    local = a.asname or a.name
                    if a.name == "*":
                        m.imports.setdefault("*" + base, ("star", base))
                        continue
                    m.imports.setdefault(local, ("symbol", base, a.name))

    # ------------------------------------------------------------------ resolution
    def resolve_symbol(self, modname, name, _depth=0):
        """Resolve `name` looked up in module `modname` to FunctionInfo/ClassInfo/ModuleInfo/
        ('const', module, expr) or None (external / unknown)."""
        if _depth > 8:
            return None
        m = self.modules.get(modname)
        if m is None:
            return None
        if name in m.classes:
            return m.classes[name]
        if name in m.functions:
            return m.functions[name]
        if name in m.assigns:
            return ("const", m, m.assigns[name])
        imp = m.imports.get(name)
        if imp:
            if imp[0] == "module":
                return self.modules.get(imp[1]) or None
            if imp[0] == "symbol":
                sub = imp[1] + "." + imp[2]
                if sub in self.modules:
                    return self.modules[sub]
                return self.resolve_symbol(imp[1], imp[2], _depth + 1)
        for k, v in m.imports.items():
            if v[0] == "star":
                r = self.resolve_symbol(v[1], name, _depth + 1)
                if r is not None:
                    return r
        return None

    def resolve_expr(self, expr, module, cls=None, func=None):
        """Resolve a Name / dotted Attribute expression to a program entity, or None."""
        if isinstance(expr, ast.Name):
            f = func
            while f is not None:
                if expr.id in f.nested:
                    return f.nested[expr.id]
                f = f.parent
            return self.resolve_symbol(module.name, expr.id)
        if isinstance(expr, ast.Attribute):
            base = self.resolve_expr(expr.value, module, cls, func)
            if isinstance(base, ModuleInfo):
                sub = base.name + "." + expr.attr
                if sub in self.modules and expr.attr not in base.classes and expr.attr not in base.functions:
                    return self.modules[sub]
                return self.resolve_symbol(base.name, expr.attr)
            if isinstance(base, ClassInfo):
                m = base.find_method(expr.attr)
                if m is not None:
                    return m
                for c in base.mro():
                    if expr.attr in c.attrs:
                        return ("const", c.module, c.attrs[expr.attr], c)
                # nested class
                q = base.qualname + "." + expr.attr
                if q in self.classes:
                    return self.classes[q]
            return None
        return None

    def _resolve_bases(self):
        for c in self.classes.values():
            for b in c.base_exprs:
                r = self.resolve_expr(b, c.module)
                if isinstance(r, ClassInfo):
                    c.bases.append(r)
                    r.subclasses.append(c)

    def _attr_types(self):
        for c in self.classes.values():
            for fi in c.all_methods:
                for n in ast.walk(fi.node):
                    if isinstance(n, ast.Assign) and isinstance(n.value, ast.Call):
                        r = self.resolve_expr(n.value.func, c.module, c, fi)
                        if isinstance(r, ClassInfo):
                            for t in n.targets:
                                if isinstance(t, ast.Attribute) and isinstance(t.value, ast.Name) \
                                        and t.value.id == "self":
                                    c.attr_types.setdefault(t.attr, set()).add(r)

    # ------------------------------------------------------------------ lookups
    def find_class(self, suffix):
        """Find a class by bare name or dotted suffix; unique or AnalysisError."""
        cands = [c for q, c in self.classes.items() if q == suffix or q.endswith("." + suffix)]
        if len(cands) == 1:
            return cands[0]
        if not cands:
            raise AnalysisError("anchor class not found: %s" % suffix)
        raise AnalysisError("anchor class ambiguous: %s -> %s" % (suffix, [c.qualname for c in cands]))

    def find_function(self, suffix):
        """Find a function/method by dotted suffix, e.g. 'HedString.__init__' or
        'df_util.split_delay_tags'; unique or AnalysisError."""
        cands = [f for q, f in self.functions.items()
                 if (q == suffix or q.endswith("." + suffix)) and "<locals>" not in q]
        if len(cands) == 1:
            return cands[0]
        if not cands:
            raise AnalysisError("anchor function not found: %s" % suffix)
        raise AnalysisError("anchor function ambiguous: %s -> %s" % (suffix, [f.qualname for f in cands]))

    def try_function(self, suffix):
        try:
            return self.find_function(suffix)
        except AnalysisError:
            return None

    def find_method(self, clsname, meth):
        c = self.find_class(clsname)
        m = c.find_method(meth)
        if m is None:
            raise AnalysisError("anchor method not found: %s.%s" % (clsname, meth))
        return m

    def find_module(self, suffix):
        cands = [m for q, m in self.modules.items() if q == suffix or q.endswith("." + suffix)]
        if len(cands) == 1:
            return cands[0]
        if not cands:
            raise AnalysisError("anchor module not found: %s" % suffix)
        raise AnalysisError("anchor module ambiguous: %s" % suffix)

    def owner_of(self, funcdef_node):
        return self.node_owner.get(id(funcdef_node))

    # ------------------------------------------------------------------ constants
    def const_eval(self, expr, module, cls=None, func=None, _depth=0):
        """Evaluate a constant expression (strings, numbers, containers of those, references to
        module/class constants).  Raises Unknown."""
        if _depth > 12:
            raise Unknown("depth")
        ev = lambda e: self.const_eval(e, module, cls, func, _depth + 1)  # noqa: E731
        if isinstance(expr, ast.Constant):
            return expr.value
        if isinstance(expr, (ast.List, ast.Tuple)):
            out = []
            for e in expr.elts:
                if isinstance(e, ast.Starred):
                    out.extend(ev(e.value))
                else:
                    out.append(ev(e))
            return out if isinstance(expr, ast.List) else tuple(out)
        if isinstance(expr, ast.Set):
            return set(_hashable(ev(e)) for e in expr.elts)
        if isinstance(expr, ast.Dict):
            d = {}
            for k, v in zip(expr.keys, expr.values):
                if k is None:
                    d.update(ev(v))
                else:
                    d[_hashable(ev(k))] = ev(v)
            return d
        if isinstance(expr, ast.JoinedStr):
            s = ""
            for v in expr.values:
                if isinstance(v, ast.Constant):
                    s += str(v.value)
                elif isinstance(v, ast.FormattedValue):
                    s += str(ev(v.value))
            return s
        if isinstance(expr, ast.BinOp):
            l, r = ev(expr.left), ev(expr.right)
            try:
                if isinstance(expr.op, ast.Add):
                    return l + r
                if isinstance(expr.op, ast.BitOr):
                    return l | r
                if isinstance(expr.op, ast.Sub):
                    return l - r
                if isinstance(expr.op, ast.Mult):
                    return l * r
            except Exception:
                raise Unknown("binop")
            raise Unknown("binop")
        if isinstance(expr, ast.UnaryOp) and isinstance(expr.op, ast.USub):
            return -ev(expr.operand)
        if isinstance(expr, ast.Call):
            if isinstance(expr.func, ast.Name) and expr.func.id in ("set", "frozenset", "list", "tuple") \
                    and len(expr.args) <= 1 and not expr.keywords:
                v = ev(expr.args[0]) if expr.args else []
                return {"set": set, "frozenset": frozenset, "list": list, "tuple": tuple}[expr.func.id](
                    _hashable(x) for x in v)
            raise Unknown("call")
        if isinstance(expr, (ast.Name, ast.Attribute)):
            if isinstance(expr, ast.Name) and cls is not None:
                for c in cls.mro():
                    if expr.id in c.attrs:
                        return self.const_eval(c.attrs[expr.id], c.module, c, None, _depth + 1)
            r = self.resolve_expr(expr, module, cls, func)
            if isinstance(r, tuple) and r[0] == "const":
                c2 = r[3] if len(r) > 3 else None
                return self.const_eval(r[2], r[1], c2, None, _depth + 1)
            raise Unknown(ast.dump(expr)[:80])
        raise Unknown(type(expr).__name__)

    def try_const(self, expr, module, cls=None, func=None, default=None):
        try:
            return self.const_eval(expr, module, cls, func)
        except (Unknown, RecursionError, TypeError):
            return default

    def class_constants(self, cls):
        """name -> evaluated value for every evaluable class attribute."""
        out = {}
        for c in reversed(cls.mro()):
            for k, e in c.attrs.items():
                v = self.try_const(e, c.module, c, default=_MISSING)
                if v is not _MISSING:
                    out[k] = v
        return out


_MISSING = object()


def _hashable(v):
    if isinstance(v, list):
        return tuple(_hashable(x) for x in v)
    if isinstance(v, set):
        return frozenset(v)
    return v


# ---------------------------------------------------------------------- small AST helpers
def norm(node):
    """Normalised source text of a node (position independent)."""
    try:
        return ast.unparse(node)
    except Exception:
        return ast.dump(node)


def stmt_key(node):
    s = norm(node)
    s = " ".join(s.split())
    return s[:200]


def shape_key(node):
    """Statement text with every plain variable name replaced by a positional placeholder ($0, $1 ... in order of
    first appearance; `self` kept).  Attribute, method, keyword and constant texts stay.  Used to key known findings so
    that renaming a local variable does not turn a recorded finding into a new one."""
    import copy as _copy
    try:
        n2 = _copy.deepcopy(node)
    except Exception:
        return stmt_key(node)
    seen = {}
    names = [x for x in ast.walk(n2) if isinstance(x, ast.Name) and x.id not in ("self", "cls", "True", "False", "None")]
    names.sort(key=lambda x: (getattr(x, "lineno", 0), getattr(x, "col_offset", 0)))
    for x in names:
        if x.id not in seen:
            seen[x.id] = "v%d" % len(seen)
    for x in names:
        x.id = seen[x.id]
    s = " ".join(norm(n2).split())
    return s[:200]


def loc(fi_or_mod, node):
    rel = fi_or_mod.file if isinstance(fi_or_mod, FunctionInfo) else fi_or_mod.relpath
    return "%s:%d" % (rel, getattr(node, "lineno", 0))


def walk_no_nested(node):
    """ast.walk that does not descend into nested function/class definitions or lambdas (and skips
    the decorators of `node` itself when it is a def)."""
    if isinstance(node, (ast.FunctionDef, ast.AsyncFunctionDef)):
        stack = [node.args] + list(node.body)
    else:
        stack = list(ast.iter_child_nodes(node))
    while stack:
        n = stack.pop()
        yield n
        if isinstance(n, (ast.FunctionDef, ast.AsyncFunctionDef, ast.ClassDef, ast.Lambda)):
            continue
        stack.extend(ast.iter_child_nodes(n))


def calls_in(node, nested=False):
    it = ast.walk(node) if nested else walk_no_nested(node)
    return [n for n in it if isinstance(n, ast.Call)]


def call_name(call):
    """The bare callee name of a call: f(...) -> 'f', a.b.f(...) -> 'f'."""
    f = call.func
    if isinstance(f, ast.Name):
        return f.id
    if isinstance(f, ast.Attribute):
        return f.attr
    return None


def dotted(expr):
    """'a.b.c' for Name/Attribute chains, else None."""
    parts = []
    while isinstance(expr, ast.Attribute):
        parts.append(expr.attr)
        expr = expr.value
    if isinstance(expr, ast.Name):
        parts.append(expr.id)
        return ".".join(reversed(parts))
    return None


def names_in(node):
    return {n.id for n in ast.walk(node) if isinstance(n, ast.Name)}
