"""The error registry: keys registered with @hed_error/@hed_tag_error, their published code,
severity and message-function signature; all format_error* call sites with resolved keys; call-site
vs. registered-function signature binding *through the decorator's wrapper* (A6)."""
import ast

from .dataflow import UNKNOWN, Values
from .model import AnalysisError, FunctionInfo, walk_no_nested, loc, norm

APIS = ("format_error", "format_error_with_context", "format_error_from_context")


class Entry:
    def __init__(self, key, func, kind, has_sub_tag, severity, actual_code, deco):
        self.key = key
        self.func = func
        self.kind = kind                # 'hed_error' | 'hed_tag_error'
        self.has_sub_tag = has_sub_tag
        self.severity = severity        # int
        self.code = actual_code         # published code
        self.deco = deco

    @property
    def carries_tag(self):
        return self.kind == "hed_tag_error"


class Site:
    def __init__(self, fi, call, api, keys, actual, npos, kwnames, dynamic):
        self.fi = fi
        self.call = call
        self.api = api
        self.keys = keys            # set of key values (may contain UNKNOWN)
        self.actual = actual        # set of actual_error override values ({None} if absent)
        self.npos = npos            # positionals after the key (and after the context for *_from_context)
        self.kwnames = kwnames
        self.dynamic = dynamic      # uses *args / **kwargs at the site

    @property
    def where(self):
        return loc(self.fi, self.call)


class Registry:
    def __init__(self, prog, cg):
        self.prog = prog
        self.cg = cg
        self.values = Values(prog, cg)
        self.entries = {}
        self.duplicates = []
        self.sites = []
        self.severity = {}
        self._wrapper_shapes()
        self._registrations()
        self._sites()

    # ------------------------------------------------------------------ wrapper model
    def _wrapper_shapes(self):
        """Read the wrappers' parameter lists from error_reporter and check they match the model."""
        prog = self.prog
        he = prog.find_function("error_reporter.hed_error")
        ht = prog.find_function("error_reporter.hed_tag_error")
        self.deco_funcs = {"hed_error": he, "hed_tag_error": ht}

        def wrappers(fi):
            out = []
            for n in ast.walk(fi.node):
                if isinstance(n, ast.FunctionDef) and n.name == "wrapper":
                    a = n.args
                    pos = [x.arg for x in a.posonlyargs + a.args]
                    out.append((pos, a.vararg is not None, [k.arg for k in a.kwonlyargs], a.kwarg is not None, n))
            return out
        w = wrappers(he)
        if len(w) != 1 or w[0][0] != [] or not w[0][1] or w[0][2] != ["severity"] or not w[0][3]:
            raise AnalysisError("error_reporter.hed_error wrapper no longer has the modelled shape "
                                "(*args, severity=..., **kwargs): %s" % (w,))
        wt = wrappers(ht)
        shapes = sorted(tuple(x[0]) for x in wt)
        if shapes != [("tag",), ("tag", "index_in_tag", "index_in_tag_end")] or \
                not all(x[1] and x[2] == ["severity"] and x[3] for x in wt):
            raise AnalysisError("error_reporter.hed_tag_error wrappers no longer have the modelled shapes: %s"
                                % (shapes,))
        # how many leading positionals the wrapper hands to the message function
        self.pre_bound = {}
        for pos, _, _, _, node in wt + w:
            n_pre = None
            for c in ast.walk(node):
                if isinstance(c, ast.Call) and isinstance(c.func, ast.Name) and c.func.id == "func":
                    n_pre = sum(1 for a in c.args if not isinstance(a, ast.Starred))
            if n_pre is None:
                raise AnalysisError("wrapper does not call func(...)")
            self.pre_bound[tuple(pos)] = n_pre
        fe = prog.find_function("ErrorHandler.format_error")
        a = fe.node.args
        if [x.arg for x in a.args] != ["error_type"] or a.vararg is None or \
                [k.arg for k in a.kwonlyargs] != ["actual_error"] or a.kwarg is None:
            raise AnalysisError("ErrorHandler.format_error signature changed; registry model invalid")
        self.api_funcs = {api: prog.find_function("ErrorHandler." + api) for api in APIS}

    # ------------------------------------------------------------------ registrations
    def _registrations(self):
        prog = self.prog
        sev_cls = prog.find_class("ErrorSeverity")
        self.severity = prog.class_constants(sev_cls)
        if "ERROR" not in self.severity or "WARNING" not in self.severity:
            raise AnalysisError("ErrorSeverity constants missing")
        for fi in prog.functions.values():
            for d in fi.decorators:
                if not isinstance(d, ast.Call):
                    continue
                r = prog.resolve_expr(d.func, fi.module, fi.cls)
                if r is None and isinstance(d.func, ast.Name) and fi.cls is not None:
                    r = prog.resolve_symbol(fi.module.name, d.func.id)
                if not isinstance(r, FunctionInfo) or r not in self.deco_funcs.values():
                    continue
                kind = r.name
                params = [x.arg for x in r.node.args.args]
                bound = {}
                for i, a in enumerate(d.args):
                    bound[params[i]] = a
                for kw in d.keywords:
                    bound[kw.arg] = kw.value
                key = prog.try_const(bound["error_type"], fi.module, fi.cls, default=UNKNOWN)
                if key is UNKNOWN:
                    raise AnalysisError("cannot evaluate registered key at %s" % loc(fi, d))
                sev = self.severity["ERROR"]
                if "default_severity" in bound:
                    sev = prog.try_const(bound["default_severity"], fi.module, fi.cls, default=UNKNOWN)
                code = key
                if "actual_code" in bound:
                    code = prog.try_const(bound["actual_code"], fi.module, fi.cls, default=UNKNOWN)
                    if code is None:
                        code = key
                sub = False
                if "has_sub_tag" in bound:
                    sub = bool(prog.try_const(bound["has_sub_tag"], fi.module, fi.cls, default=False))
                e = Entry(key, fi, kind, sub, sev, code, d)
                if key in self.entries:
                    self.duplicates.append((key, fi))
                self.entries[key] = e

    # ------------------------------------------------------------------ sites
    def _sites(self):
        prog, cg = self.prog, self.cg
        api_set = set(self.api_funcs.values())
        for fi in prog.functions.values():
            if fi in api_set and fi.name != "format_error":
                # the API's own forwarding calls (format_error(*args, **kwargs)) are not sites
                pass
            for call in walk_no_nested(fi.node):
                if not isinstance(call, ast.Call):
                    continue
                f = call.func
                name = f.attr if isinstance(f, ast.Attribute) else (f.id if isinstance(f, ast.Name) else None)
                if name not in APIS:
                    continue
                res = cg.resolve_call(call, fi)
                targets = {c for (_, c) in res}
                if not (targets & api_set):
                    continue
                api = name
                args = list(call.args)
                dynamic = any(isinstance(a, ast.Starred) for a in args) or any(k.arg is None for k in call.keywords)
                if fi in api_set and dynamic:
                    continue   # forwarding inside the API itself
                if not args:
                    if dynamic:
                        continue
                    self.sites.append(Site(fi, call, api, {UNKNOWN}, {None}, 0, [], True))
                    continue
                # unbound call through the class: ErrorHandler.format_error_with_context(handler, KEY, ...)
                if api == "format_error_with_context" and isinstance(f, ast.Attribute):
                    from .model import ClassInfo
                    if isinstance(prog.resolve_expr(f.value, fi.module, fi.cls, fi), ClassInfo):
                        args = args[1:]
                        if not args:
                            continue
                keys = self.values.values(args[0], fi, call)
                keys.discard(None)
                kwnames = [k.arg for k in call.keywords if k.arg is not None]
                skip = 1
                if api == "format_error_from_context":
                    if "error_context" in kwnames:
                        kwnames.remove("error_context")
                    else:
                        skip = 2
                npos = max(0, len(args) - skip)
                actual = {None}
                for k in call.keywords:
                    if k.arg == "actual_error":
                        actual = self.values.values(k.value, fi, call)
                self.sites.append(Site(fi, call, api, keys, actual, npos, kwnames, dynamic))

    # ------------------------------------------------------------------ binding
    def bind_error(self, site, entry):
        """None if the site's arguments bind to the registered function, else a message."""
        if site.dynamic:
            return None
        kw = [k for k in site.kwnames if k != "actual_error"]
        if entry.kind == "hed_error":
            wpos = []
        elif entry.has_sub_tag:
            wpos = ["tag", "index_in_tag", "index_in_tag_end"]
        else:
            wpos = ["tag"]
        npos = site.npos
        taken = min(npos, len(wpos))
        for p in wpos[:taken]:
            if p in kw:
                return "wrapper got multiple values for argument '%s'" % p
        for p in wpos[taken:]:
            if p not in kw:
                return "wrapper missing required argument '%s'" % p
        rest_pos = npos - taken
        rest_kw = [k for k in kw if k not in wpos and k != "severity"]
        pre = self.pre_bound[tuple(wpos)]
        a = entry.func.node.args
        fpos = [x.arg for x in a.posonlyargs + a.args]
        ndef = len(a.defaults)
        required = fpos[: len(fpos) - ndef]
        total_pos = pre + rest_pos
        if total_pos > len(fpos) and a.vararg is None:
            return "message function %s takes %d positional argument(s) but %d are passed" % (
                entry.func.name, len(fpos), total_pos)
        bound = set(fpos[:total_pos])
        kwonly = [k.arg for k in a.kwonlyargs]
        for k in rest_kw:
            if k in bound:
                return "message function got multiple values for argument '%s'" % k
            if k not in fpos and k not in kwonly and a.kwarg is None:
                return "message function %s got an unexpected keyword argument '%s'" % (entry.func.name, k)
            bound.add(k)
        for p in required:
            if p not in bound:
                return "message function %s missing required argument '%s'" % (entry.func.name, p)
        for k, d in zip(a.kwonlyargs, a.kw_defaults):
            if d is None and k.arg not in bound:
                return "message function %s missing keyword-only argument '%s'" % (entry.func.name, k.arg)
        return None

    def published_codes(self, site):
        """Set of codes the site can publish."""
        out = set()
        for k in site.keys:
            for a in site.actual:
                if a not in (None, UNKNOWN) and a:
                    out.add(a)
                elif k in self.entries:
                    out.add(self.entries[k].code)
                else:
                    out.add(k)
        return out

    def sites_for_key(self, key):
        return [s for s in self.sites if key in s.keys]


def get_registry(ctx):
    if "registry" not in ctx.shared:
        ctx.shared["registry"] = Registry(ctx.prog, ctx.cg)
    return ctx.shared["registry"]
