"""Issue-list discipline (R1.3 / R16.3): which functions return issue lists, and where a returned
issue list is thrown away."""
import ast

from .model import walk_no_nested, loc, names_in
from .registry import get_registry, APIS


def issue_producers(ctx):
    """Fixpoint set of functions whose return value may carry issues created by format_error*."""
    if "issue_producers" in ctx.shared:
        return ctx.shared["issue_producers"]
    prog, cg = ctx.prog, ctx.cg
    reg = get_registry(ctx)
    api = set(reg.api_funcs.values())
    P = set(api)
    # resolve each call once
    resolved = {}
    for f in prog.functions.values():
        lst = []
        for n in walk_no_nested(f.node):
            if isinstance(n, ast.Call):
                res = cg.resolve_call(n, f)
                prec = [c for (k, c) in res if k == "precise"]
                if prec:
                    lst.append((n, prec))
                else:
                    nm = [c for (k, c) in res if k in ("name", "weak")]
                    if nm:
                        lst.append((n, nm))
        resolved[f] = lst
    changed = True
    while changed:
        changed = False
        for f in prog.functions.values():
            if f in P:
                continue
            prod_calls = set()
            for n, targets in resolved[f]:
                if targets and all(t in P for t in targets):
                    prod_calls.add(id(n))
                elif any(t in P for t in targets) and len(targets) <= 3:
                    prod_calls.add(id(n))
            if not prod_calls:
                continue
            tainted = set()

            def has_prod(e):
                return any(isinstance(x, ast.Call) and id(x) in prod_calls for x in ast.walk(e)) or \
                    bool(names_in(e) & tainted)
            for _ in range(3):
                for n in walk_no_nested(f.node):
                    if isinstance(n, ast.Assign) and has_prod(n.value):
                        for t in n.targets:
                            for x in ast.walk(t):
                                if isinstance(x, ast.Name):
                                    tainted.add(x.id)
                    elif isinstance(n, ast.AugAssign) and isinstance(n.target, ast.Name) and has_prod(n.value):
                        tainted.add(n.target.id)
                    elif isinstance(n, ast.Call) and isinstance(n.func, ast.Attribute) and \
                            n.func.attr in ("extend", "append") and isinstance(n.func.value, ast.Name) and \
                            n.args and has_prod(n.args[0]):
                        tainted.add(n.func.value.id)
            for n in walk_no_nested(f.node):
                if isinstance(n, ast.Return) and n.value is not None and has_prod(n.value):
                    P.add(f)
                    changed = True
                    break
    ctx.shared["issue_producers"] = (P, resolved)
    return P, resolved


def check_no_dropped_issues(ctx, rule, scope_funcs, exempt=None):
    """A call whose value is an issue list must not be a bare expression statement, nor be bound to
    a name that is never read."""
    P, resolved = issue_producers(ctx)
    exempt = exempt or {}
    n_sites = 0
    for f in scope_funcs:
        ctx.saw(f)
        calls = {id(n): t for (n, t) in resolved.get(f, [])}
        loads = {}
        for n in walk_no_nested(f.node):
            if isinstance(n, ast.Name) and isinstance(n.ctx, ast.Load):
                loads[n.id] = loads.get(n.id, 0) + 1
        for n in walk_no_nested(f.node):
            call = None
            dropped = None
            if isinstance(n, ast.Expr) and isinstance(n.value, ast.Call):
                call = n.value
                dropped = "its result is discarded (bare expression statement)"
            elif isinstance(n, ast.Assign) and isinstance(n.value, ast.Call) and len(n.targets) == 1 and \
                    isinstance(n.targets[0], ast.Name) and loads.get(n.targets[0].id, 0) == 0:
                call = n.value
                dropped = "its result is bound to '%s', which is never read" % n.targets[0].id
            if call is None:
                # count accumulating uses as discharged obligations
                continue
            targets = calls.get(id(call))
            if not targets:
                continue
            prods = [t for t in targets if t in P]
            if not prods or len(prods) != len(targets):
                continue
            if all(t.qualname in exempt or t.short in exempt for t in prods):
                continue
            # mutators that *also* return issues and are documented as in-place are not issue sources:
            ctx.violation(rule, f.qualname, n, loc(f, n),
                          "%s returns validation issues but %s; those issues can never be reported"
                          % (prods[0].short, dropped))
        # discharged obligations: every producing call that is consumed
        for n, targets in resolved.get(f, []):
            if targets and all(t in P for t in targets):
                n_sites += 1
    ctx.count_sites(n_sites)
    from .dom import view as _view
    check_no_overwritten_accumulator(ctx, rule, scope_funcs, _view)
    if not ctx.findings or True:
        ctx.ok(rule, "%d issue-producing calls in %d functions are consumed (accumulated, assigned-and-read, "
                     "returned or passed on)" % (n_sites, len(list(scope_funcs))), "")
    return n_sites


def overwritten_accumulators(ctx, f, view):
    """[(assign stmt, name, aug stmt)]: a name that accumulates (`name += ...`, `.extend/.append`) is plainly re-assigned with
    a value that does not mention it, on a path from the accumulation on which the name is never read: what was collected
    there is thrown away.  Loop-local resets whose content was consumed (`total += name`) are not reported."""
    v = view(ctx, f)
    accs, plains, loads = {}, {}, {}
    for n in v.cfg.nodes:
        if n.ast is None:
            continue
        a = n.ast
        if n.kind == "stmt":
            if isinstance(a, ast.AugAssign) and isinstance(a.target, ast.Name) and isinstance(a.op, ast.Add):
                accs.setdefault(a.target.id, []).append(n)
                # the value side may load other names
                for x in ast.walk(a.value):
                    if isinstance(x, ast.Name) and isinstance(x.ctx, ast.Load):
                        loads.setdefault(x.id, set()).add(n)
                continue
            if isinstance(a, ast.Expr) and isinstance(a.value, ast.Call) and isinstance(a.value.func, ast.Attribute) \
                    and a.value.func.attr in ("extend", "append") and isinstance(a.value.func.value, ast.Name):
                accs.setdefault(a.value.func.value.id, []).append(n)
                for arg in a.value.args:
                    for x in ast.walk(arg):
                        if isinstance(x, ast.Name) and isinstance(x.ctx, ast.Load):
                            loads.setdefault(x.id, set()).add(n)
                continue
            if isinstance(a, ast.Assign) and len(a.targets) == 1 and isinstance(a.targets[0], ast.Name):
                nm = a.targets[0].id
                if not any(isinstance(x, ast.Name) and x.id == nm for x in ast.walk(a.value)):
                    plains.setdefault(nm, []).append(n)
        for r in v.node_roots(n):
            for x in ast.walk(r):
                if isinstance(x, ast.Name) and isinstance(x.ctx, ast.Load):
                    loads.setdefault(x.id, set()).add(n)
    out = []
    for nm, alist in accs.items():
        for p in plains.get(nm, []):
            for d in alist:
                avoid = set(loads.get(nm, ())) - {d}
                avoid |= {q for q in plains.get(nm, []) if q is not p}
                if p in avoid:
                    continue
                reach = v.cfg.reachable_from(d, True, avoid=avoid)
                if p in reach and p is not d:
                    out.append((p.ast, nm, d.ast))
                    break
    # a plain assignment that a loop repeats without the name having been read in between: every iteration throws away
    # what the previous one produced (reported with aug=None)
    for nm, plist in plains.items():
        for p in plist:
            avoid = set(loads.get(nm, ())) - {p}
            avoid |= {q for q in plist if q is not p} | set(accs.get(nm, []))
            succ = [m for (m, l) in v.cfg.succ[p] if l != "exc"]
            seen, stack, cyc = set(), list(succ), False
            while stack:
                x = stack.pop()
                if x is p:
                    cyc = True
                    break
                if x in seen or x in avoid:
                    continue
                seen.add(x)
                stack.extend(m for (m, l) in v.cfg.succ[x] if l != "exc")
            if cyc and (nm in accs or nm in loads):
                out.append((p.ast, nm, None))
    return out


def check_no_overwritten_accumulator(ctx, rule, scope_funcs, view, only_issue_names=True):
    P, resolved = issue_producers(ctx)
    n = 0
    for f in list(scope_funcs):
        prod = {id(c) for (c, targets) in resolved.get(f, []) if targets and any(t in P for t in targets)}
        hits = overwritten_accumulators(ctx, f, view)
        # every accumulating name counts as an obligation
        for x in walk_no_nested(f.node):
            if isinstance(x, ast.AugAssign) and isinstance(x.target, ast.Name) and isinstance(x.op, ast.Add):
                n += 1
            elif isinstance(x, ast.Expr) and isinstance(x.value, ast.Call) and isinstance(x.value.func, ast.Attribute) \
                    and x.value.func.attr in ("extend", "append") and isinstance(x.value.func.value, ast.Name):
                n += 1
        for stmt, nm, aug in hits:
            if aug is None:
                # repeated by a loop: only when what is thrown away is an issue list that the function hands back
                returned_ = f in P and any(isinstance(r, ast.Return) and r.value is not None and
                                           any(isinstance(x, ast.Name) and x.id == nm for x in ast.walk(r.value))
                                           for r in walk_no_nested(f.node))
                if returned_ and any(isinstance(c, ast.Call) and id(c) in prod for c in ast.walk(stmt)):
                    ctx.saw(f)
                    ctx.violation(rule, f.qualname, stmt, loc(f, stmt),
                                  "'%s' is plainly assigned an issue list in a loop and not read before the next iteration assigns it "
                                  "again: only the issues of the last item survive (and everything collected before the loop is lost)" % nm)
                continue
            returned = f in P and any(isinstance(r, ast.Return) and r.value is not None and
                                      any(isinstance(x, ast.Name) and x.id == nm for x in ast.walk(r.value))
                                      for r in walk_no_nested(f.node))
            carries = any(isinstance(c, ast.Call) and id(c) in prod for c in ast.walk(aug)) or returned
            if only_issue_names and not carries:
                continue
            ctx.saw(f)
            ctx.violation(rule, f.qualname, stmt, loc(f, stmt),
                          "'%s' collects issues with `+=` (line %d) and is then plainly re-assigned without having been read: "
                          "the issues collected before this statement are lost" % (nm, aug.lineno))
    return n
