"""Label / position confusion on pandas objects: an index *label* (first element of `iterrows()` / `items()`, an element of
`.index`, `.Index` of an `itertuples()` row) must not be used as a *position* (`.iloc[...]`, `.iat[...]`), and a position
(`enumerate`, `range(len(...))`) must not be used as a label (`.loc[...]`, `.at[...]`).  The two coincide only while the
index is 0..n-1 in order; the table validator sorts unordered files and keeps the labels."""
import ast

from .dataflow import ReachingDefs
from .model import call_name, walk_no_nested

LABEL_ITERS = ("iterrows", "items", "iteritems")


def _loop_kinds(fi):
    """-> {variable name: 'label' | 'position'} for loop/comprehension targets of fi (a name bound both ways is dropped)."""
    kinds = {}

    def put(name, kind):
        if kinds.get(name, kind) != kind:
            kinds[name] = "mixed"
        else:
            kinds[name] = kind
    for n in ast.walk(fi.node):
        if isinstance(n, (ast.For, ast.comprehension)):
            tgt, it = n.target, n.iter
            if isinstance(it, ast.Call) and isinstance(it.func, ast.Attribute) and it.func.attr in LABEL_ITERS and \
                    isinstance(tgt, ast.Tuple) and tgt.elts and isinstance(tgt.elts[0], ast.Name):
                put(tgt.elts[0].id, "label")
            elif isinstance(it, ast.Attribute) and it.attr == "index" and isinstance(tgt, ast.Name):
                put(tgt.id, "label")
            elif isinstance(it, ast.Call) and call_name(it) == "enumerate" and isinstance(tgt, ast.Tuple) and tgt.elts and \
                    isinstance(tgt.elts[0], ast.Name):
                put(tgt.elts[0].id, "position")
            elif isinstance(it, ast.Call) and call_name(it) == "range" and it.args and isinstance(tgt, ast.Name) and \
                    any(isinstance(x, ast.Call) and call_name(x) == "len" for x in ast.walk(it)):
                put(tgt.id, "position")
    return {k: v for k, v in kinds.items() if v != "mixed"}


def confusions(fi):
    """-> (number of indexer uses examined, [(subscript node, variable, 'label used as position' | 'position used as label')])"""
    kinds = _loop_kinds(fi)
    n, out = 0, []
    for s in walk_no_nested(fi.node):
        if not (isinstance(s, ast.Subscript) and isinstance(s.value, ast.Attribute) and s.value.attr in ("iloc", "iat", "loc", "at")):
            continue
        n += 1
        positional = s.value.attr in ("iloc", "iat")
        idx = s.slice.elts[0] if isinstance(s.slice, ast.Tuple) and s.slice.elts else s.slice
        for x in ast.walk(idx):
            if isinstance(x, ast.Name) and x.id in kinds:
                k = kinds[x.id]
                if positional and k == "label":
                    out.append((s, x.id, "label used as position"))
                elif not positional and k == "position":
                    out.append((s, x.id, "position used as label"))
            if isinstance(x, ast.Attribute) and x.attr == "Index" and positional:
                out.append((s, "<row>.Index", "label used as position"))
    return n, out
