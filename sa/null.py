"""A5: possibly-absent (None) results reaching None-intolerant uses without a dominating guard."""
import ast

from .dataflow import ReachingDefs
from .dom import view
from .model import loc, norm, walk_no_nested

ARITH = (ast.Add, ast.Sub, ast.Mult, ast.Div, ast.FloorDiv, ast.Mod, ast.Pow, ast.MatMult)
INTOLERANT_BUILTINS = {"float", "int", "len", "set", "list", "sorted", "iter", "tuple", "sum", "min", "max",
                       "abs", "round", "enumerate", "zip", "reversed", "frozenset", "dict"}


def parent_map(root):
    pm = {}
    for n in ast.walk(root):
        for c in ast.iter_child_nodes(n):
            pm[id(c)] = n
    return pm


def sink_kind(node, pm):
    """If `node` (an expression) is used in a None-intolerant position return a description."""
    p = pm.get(id(node))
    if p is None:
        return None
    if isinstance(p, ast.Attribute) and p.value is node:
        return "attribute access .%s" % p.attr
    if isinstance(p, ast.Subscript) and p.value is node:
        return "subscript"
    if isinstance(p, ast.BinOp) and isinstance(p.op, ARITH):
        return "arithmetic operand"
    if isinstance(p, ast.UnaryOp) and isinstance(p.op, (ast.USub, ast.UAdd)):
        return "arithmetic operand"
    if isinstance(p, ast.Call):
        if p.func is node:
            return "call"
        if isinstance(p.func, ast.Name) and p.func.id in INTOLERANT_BUILTINS and node in p.args:
            return "argument of %s()" % p.func.id
    if isinstance(p, (ast.For, ast.comprehension)) and p.iter is node:
        return "iteration"
    if isinstance(p, ast.Compare):
        ops = p.ops
        if any(isinstance(o, (ast.Lt, ast.Gt, ast.LtE, ast.GtE)) for o in ops):
            return "ordering comparison"
        if any(isinstance(o, (ast.In, ast.NotIn)) for o in ops) and node in p.comparators:
            return "membership test in it"
    if isinstance(p, ast.Starred):
        return "unpacking"
    if isinstance(p, ast.AugAssign) and p.value is node and isinstance(p.op, ARITH):
        return "arithmetic operand"
    return None


def nonnull_labels(test, key):
    """Edge labels (True/False) of a branch on `test` under which expression `key` (normalised text)
    is known to be not None / truthy."""
    out = set()
    if isinstance(test, ast.UnaryOp) and isinstance(test.op, ast.Not):
        # the True edge of `not e` is the False edge of e
        return {not lab for lab in nonnull_labels(test.operand, key)}
    if isinstance(test, ast.Compare) and len(test.ops) == 1 and norm(test.left) == key:
        c = test.comparators[0]
        if isinstance(c, ast.Constant) and c.value is None:
            if isinstance(test.ops[0], (ast.IsNot, ast.NotEq)):
                return {True}
            if isinstance(test.ops[0], (ast.Is, ast.Eq)):
                return {False}
    if norm(test) == key:
        return {True}
    if isinstance(test, ast.Call) and isinstance(test.func, ast.Name) and test.func.id == "isinstance" \
            and test.args and norm(test.args[0]) == key:
        return {True}
    if isinstance(test, ast.BoolOp):
        if isinstance(test.op, ast.And):
            for v in test.values:
                if True in nonnull_labels(v, key):
                    out.add(True)
        else:
            # a or b False edge: all operands false
            for v in test.values:
                if False in nonnull_labels(v, key):
                    out.add(False)
    return out


def null_labels(test, key):
    """Labels under which key is known to be None/falsy — used for `not (...)`."""
    if isinstance(test, ast.Compare) and len(test.ops) == 1 and norm(test.left) == key:
        c = test.comparators[0]
        if isinstance(c, ast.Constant) and c.value is None:
            if isinstance(test.ops[0], (ast.IsNot, ast.NotEq)):
                return {False}      # not (x is not None): True edge => x None; so nonnull on False
            if isinstance(test.ops[0], (ast.Is, ast.Eq)):
                return {True}       # not (x is None): nonnull on True
    return set()


def expr_guarded_locally(node, key, pm):
    """Guard inside the same expression: `x and x.y`, `x.y if x else z`, `a if x is not None else b`."""
    cur = node
    while True:
        p = pm.get(id(cur))
        if p is None or isinstance(p, ast.stmt):
            return False
        if isinstance(p, ast.IfExp):
            if cur is p.body and True in nonnull_labels(p.test, key):
                return True
            if cur is p.orelse and False in nonnull_labels(p.test, key):
                return True
        if isinstance(p, ast.BoolOp) and isinstance(p.op, ast.And):
            idx = p.values.index(cur) if cur in p.values else -1
            for v in p.values[:idx]:
                if True in nonnull_labels(v, key):
                    return True
        if isinstance(p, ast.BoolOp) and isinstance(p.op, ast.Or):
            idx = p.values.index(cur) if cur in p.values else -1
            for v in p.values[:idx]:
                if False in nonnull_labels(v, key):
                    return True
        if isinstance(p, ast.comprehension):
            for cond in p.ifs:
                if True in nonnull_labels(cond, key):
                    return True
        if isinstance(p, (ast.ListComp, ast.SetComp, ast.GeneratorExp, ast.DictComp)):
            for g in p.generators:
                for cond in g.ifs:
                    if True in nonnull_labels(cond, key):
                        return True
        cur = p


class NullChecker:
    def __init__(self, ctx):
        self.ctx = ctx
        self._rd = {}

    def rd(self, fi):
        if fi not in self._rd:
            self._rd[fi] = ReachingDefs(fi)
        return self._rd[fi]

    def guarded(self, fi, use_node, key, def_stmt=None):
        """Is the expression with normalised text `key` known non-None at use_node?  With def_stmt (the
        assignment that bound the possibly-None value to the name `key`) the question is asked per
        definition: can the use be reached from that assignment without taking the non-None edge of a
        test on the name and without the name being re-assigned?"""
        v = view(self.ctx, fi)
        pm = self.ctx.shared.setdefault("pm", {})
        if fi not in pm:
            pm[fi] = parent_map(fi.node)
        if expr_guarded_locally(use_node, key, pm[fi]):
            return True
        u = v.node(use_node)
        if u is None:
            return False
        if def_stmt is not None:
            d = v.node(def_stmt)
            if d is not None:
                from .dataflow import defs_of_node
                seen = set()
                stack = [m for (m, l) in v.cfg.succ[d] if l != "exc"]
                while stack:
                    x = stack.pop()
                    if x in seen:
                        continue
                    seen.add(x)
                    if x is u:
                        return False
                    if x is not d and any(dd.name == key for dd in defs_of_node(x)):
                        continue        # re-assigned: another definition's business
                    if x.kind == "stmt" and isinstance(x.ast, ast.Assert) and True in nonnull_labels(x.ast.test, key):
                        continue
                    labs = nonnull_labels(x.ast, key) if x.kind == "cond" else set()
                    for m, l in v.cfg.succ[x]:
                        if l == "exc" or l in labs:
                            continue
                        stack.append(m)
                return True
        rd = self.rd(fi)
        names = {x.id for x in ast.walk(ast.parse(key, mode="eval")) if isinstance(x, ast.Name)} if key else set()
        for c in v.cfg.nodes:
            if c.kind != "cond":
                continue
            labs = nonnull_labels(c.ast, key)
            if not labs:
                continue
            for lab in labs:
                if c is u:
                    continue
                if v.edge_required(c, lab, u):
                    # no redefinition of the operands between the guard and the use
                    same = True
                    for nm in names:
                        if nm == "self":
                            continue
                        d_c = {id(d) for d in (rd.IN.get(c) or ()) if d.name == nm}
                        d_u = {id(d) for d in (rd.IN.get(u) or ()) if d.name == nm}
                        if d_c != d_u:
                            same = False
                    if same:
                        return True
        # while-loop guards / assert
        for n in v.cfg.nodes:
            if n.kind == "stmt" and isinstance(n.ast, ast.Assert) and True in nonnull_labels(n.ast.test, key):
                if v.dominates(n, u):
                    return True
        return False

    def uses_of(self, fi, source_node, pm):
        """Yield (use_expr, key) for the places where the value of source_node flows: the node
        itself, and loads of a local name it is assigned to (while that definition reaches)."""
        yield source_node, norm(source_node), None
        p = pm.get(id(source_node))
        targets = []
        if isinstance(p, ast.Assign) and p.value is source_node:
            targets = [t for t in p.targets if isinstance(t, ast.Name)]
        elif isinstance(p, ast.NamedExpr) and p.value is source_node and isinstance(p.target, ast.Name):
            targets = [p.target]
        if not targets:
            return
        rd = self.rd(fi)
        for t in targets:
            for n in walk_no_nested(fi.node):
                if isinstance(n, ast.Name) and n.id == t.id and isinstance(n.ctx, ast.Load):
                    defs = rd.at(n, t.id) or []
                    if any(d.node is p for d in defs):
                        yield n, t.id, p


def check_nullable(ctx, rule, funcs, source_pred, describe, xref_only=False, xref=None,
                   what="may be absent (None)", test="None test"):
    """source_pred(fi, node) -> truthy description if `node` (Call or Attribute) is a possibly-None
    source.  Every None-intolerant use must be guarded."""
    nc = ctx.shared.setdefault("nullchecker", NullChecker(ctx))
    pmc = ctx.shared.setdefault("pm", {})
    n_sources = 0
    for fi in funcs:
        ctx.saw(fi)
        if fi not in pmc:
            pmc[fi] = parent_map(fi.node)
        pm = pmc[fi]
        for node in walk_no_nested(fi.node):
            if not isinstance(node, (ast.Call, ast.Attribute)):
                continue
            src = source_pred(fi, node)
            if not src:
                continue
            n_sources += 1
            ctx.count_sites()
            bad = False
            for use, key, def_stmt in nc.uses_of(fi, node, pm):
                sk = sink_kind(use, pm)
                if sk is None:
                    continue
                if nc.guarded(fi, use, key, def_stmt):
                    continue
                bad = True
                stmt = use
                while id(stmt) in pm and not isinstance(stmt, ast.stmt):
                    stmt = pm[id(stmt)]
                msg = "%s %s — %s — but is used as %s without a dominating %s" % (
                    norm(node)[:80], what, src, sk, test)
                if xref_only or (xref is not None and xref(fi, node)):
                    ctx.xref(rule, loc(fi, use), msg)
                else:
                    ctx.violation(rule, fi.qualname, stmt, loc(fi, use), msg)
            if not bad:
                ctx.ok(rule, "%s: every None-intolerant use of %s is guarded (%s)" % (fi.short, norm(node)[:60], describe),
                       loc(fi, node))
    return n_sources


# Frozen table of repo functions/properties whose documentation or body says "or None".
NULLABLE = {
    "HedTag.value_as_default_unit": "returns None when the unit is unknown or has no conversion factor",
    "HedTag.default_unit": "None when the tag has no unit class default",
    "UnitEntry.get_conversion_factor": "None when the unit text is not a derivative unit",
    "UnitClassEntry.get_derivative_unit_entry": "None when the unit is not in the class",
    "DefinitionEntry.get_definition": "None when the placeholder cannot be plugged",
    "HedGroup.find_placeholder_tag": "None when no tag holds '#'",
    "DefinitionDict.get": "None for an unknown definition name",
    "DefinitionDict.get_definition_entry": "None for an unknown definition name",
    "BaseInput.onsets": "None when the table has no onset column",
    "BackupManager.get_backup": "None for an unknown backup name",
    "hed_cache.get_hed_version_path": "None when the version is not cached",
    "io_util.get_path_components": "None when the path is the root",
}


def named_sources(ctx, names=None):
    """-> source_pred resolving calls / property loads to the frozen nullable functions."""
    prog, cg = ctx.prog, ctx.cg
    names = names or list(NULLABLE)
    funcs = {}
    for nm in names:
        f = prog.try_function(nm)
        if f is None:
            from .model import AnalysisError
            raise AnalysisError("nullable source vanished: %s" % nm)
        funcs[f] = NULLABLE.get(nm, "may return None")
    props = {f for f in funcs if "property" in f.decorator_names()}

    def pred(fi, node):
        if isinstance(node, ast.Call):
            res = cg.resolve_call(node, fi)
            prec = [c for (k, c) in res if k == "precise"]
            cands = prec or [c for (k, c) in res if k in ("name", "weak")]
            hit = [c for c in cands if c in funcs and c not in props]
            if hit and (prec or _receiver_plausible(node, hit[0])):
                return funcs[hit[0]]
            return None
        if isinstance(node, ast.Attribute) and isinstance(node.ctx, ast.Load):
            for p in props:
                if node.attr == p.name:
                    # typed receiver?
                    types = cg.expr_types(node.value, fi, cg.local_types(fi))
                    if types:
                        if any(c.find_method(p.name) is p for c in types):
                            return funcs[p]
                        return None
                    return funcs[p]
        return None
    return pred


def _receiver_plausible(call, target):
    """Name-based match only: reject dict-style `.get(k, default)` against DefinitionDict.get(def_name)."""
    if target.name == "get":
        if len(call.args) != 1 or call.keywords:
            return False
        recv = call.func.value if isinstance(call.func, ast.Attribute) else None
        txt = norm(recv) if recv is not None else ""
        return "def" in txt.lower() and "default" not in txt.lower()
    return True


# ---------------------------------------------------------------------------------------------
# A5': JSON-typed values must be isinstance-guarded before type-specific use
TYPE_SINK_ARGS = {"update": "argument of dict.update", "set": "argument of set()", "dict": "argument of dict()",
                  "list": "argument of list()", "len": "argument of len()", "sorted": "argument of sorted()"}


def type_labels(test, keys):
    """Edge labels under which some expression in `keys` is known to have passed an isinstance test."""
    out = set()
    if isinstance(test, ast.UnaryOp) and isinstance(test.op, ast.Not):
        return {not lab for lab in type_labels(test.operand, keys)}
    if isinstance(test, ast.Call) and isinstance(test.func, ast.Name) and test.func.id == "isinstance" and test.args \
            and norm(test.args[0]) in keys:
        return {True}
    if isinstance(test, ast.BoolOp):
        if isinstance(test.op, ast.And):
            for v in test.values:
                if True in type_labels(v, keys):
                    out.add(True)
        else:
            for v in test.values:
                if False in type_labels(v, keys):
                    out.add(False)
    return out


def type_sink(node, pm):
    p = pm.get(id(node))
    if p is None:
        return None
    if isinstance(p, ast.Attribute) and p.value is node:
        return "attribute/method .%s" % p.attr
    if isinstance(p, ast.Subscript) and p.value is node:
        return "subscript"
    if isinstance(p, ast.Compare) and any(isinstance(o, (ast.In, ast.NotIn)) for o in p.ops) and node in p.comparators:
        return "membership test in it"
    if isinstance(p, (ast.For, ast.comprehension)) and p.iter is node:
        return "iteration"
    if isinstance(p, ast.Call) and node in p.args:
        nm = p.func.attr if isinstance(p.func, ast.Attribute) else (p.func.id if isinstance(p.func, ast.Name) else None)
        if nm in TYPE_SINK_ARGS:
            return TYPE_SINK_ARGS[nm]
    if isinstance(p, ast.BinOp) and isinstance(p.op, ARITH):
        return "operand"
    return None


def check_type_guards(ctx, rule, fi, source_texts, what):
    """Every type-specific use of a JSON-typed value in fi (expressions with text in source_texts,
    plus local names assigned from them) must be dominated by an isinstance test of that value."""
    pmc = ctx.shared.setdefault("pm", {})
    if fi not in pmc:
        pmc[fi] = parent_map(fi.node)
    pm = pmc[fi]
    v = view(ctx, fi)
    nc = ctx.shared.setdefault("nullchecker", NullChecker(ctx))
    rd = nc.rd(fi)
    ctx.saw(fi)
    n_uses = 0
    n_sources = 0
    for src in source_texts:
        # a source is an expression text, ("call", callee name) or ("values-of", text of a mapping iterated with .items())
        def is_source(e, src=src):
            if isinstance(src, str):
                return norm(e) == src
            if src[0] == "call":
                return isinstance(e, ast.Call) and (
                    (isinstance(e.func, ast.Attribute) and e.func.attr == src[1]) or
                    (isinstance(e.func, ast.Name) and e.func.id == src[1]))
            return False
        aliases = {src} if isinstance(src, str) else set()
        alias_defs = {}
        for n in walk_no_nested(fi.node):
            if isinstance(n, ast.Assign) and is_source(n.value):
                for t in n.targets:
                    if isinstance(t, ast.Name):
                        aliases.add(t.id)
                        alias_defs[t.id] = n
            if not isinstance(src, str) and isinstance(n, ast.expr) and is_source(n):
                aliases.add(norm(n))
            if not isinstance(src, str) and src[0] == "values-of-call" and isinstance(n, ast.For) and \
                    isinstance(n.iter, ast.Call) and isinstance(n.iter.func, ast.Attribute) and n.iter.func.attr == "items" \
                    and isinstance(n.target, ast.Tuple) and len(n.target.elts) == 2 and isinstance(n.target.elts[1], ast.Name):
                # the mapping iterated is (a local bound to) a call chain containing every callee name of src[1:]
                recv = n.iter.func.value
                exprs = [recv]
                if isinstance(recv, ast.Name):
                    exprs = [d.value for d in (rd.at(n, recv.id) or []) if d.kind == "assign" and d.value is not None]
                def has_all(e):
                    names = {x.func.attr if isinstance(x.func, ast.Attribute) else getattr(x.func, "id", None)
                             for x in ast.walk(e) if isinstance(x, ast.Call)}
                    return all(c in names for c in src[1:])
                if exprs and all(has_all(e) for e in exprs):
                    aliases.add(n.target.elts[1].id)
            if not isinstance(src, str) and src[0] == "values-of" and isinstance(n, ast.For) and \
                    isinstance(n.iter, ast.Call) and isinstance(n.iter.func, ast.Attribute) and n.iter.func.attr == "items" \
                    and norm(n.iter.func.value) == src[1] and isinstance(n.target, ast.Tuple) and len(n.target.elts) == 2 \
                    and isinstance(n.target.elts[1], ast.Name):
                aliases.add(n.target.elts[1].id)
        found = False
        for n in walk_no_nested(fi.node):
            if not isinstance(n, ast.expr) or norm(n) not in aliases:
                continue
            if isinstance(n, ast.Name) and not isinstance(n.ctx, ast.Load):
                continue
            if isinstance(n, ast.Name) and n.id in alias_defs:
                defs = rd.at(n, n.id) or []
                if not any(d.node is alias_defs[n.id] for d in defs):
                    continue
            found = True
            sk = type_sink(n, pm)
            if sk is None:
                continue
            n_uses += 1
            ctx.count_sites()
            # expression-local guard: isinstance(x, T) and x.y / x.y if isinstance(x, T) else ...
            ok = False
            cur = n
            while not ok:
                p = pm.get(id(cur))
                if p is None or isinstance(p, ast.stmt):
                    break
                if isinstance(p, ast.IfExp) and ((cur is p.body and True in type_labels(p.test, aliases)) or
                                                 (cur is p.orelse and False in type_labels(p.test, aliases))):
                    ok = True
                if isinstance(p, ast.BoolOp) and cur in p.values:
                    idx = p.values.index(cur)
                    want = True if isinstance(p.op, ast.And) else False
                    if any(want in type_labels(x, aliases) for x in p.values[:idx]):
                        ok = True
                if isinstance(p, (ast.ListComp, ast.SetComp, ast.GeneratorExp, ast.DictComp)):
                    if any(True in type_labels(c, aliases) for g in p.generators for c in g.ifs):
                        ok = True
                cur = p
            u = v.node(n)
            if not ok and u is not None:
                for c in v.cfg.nodes:
                    if c.kind != "cond" or c is u:
                        continue
                    for lab in type_labels(c.ast, aliases):
                        if v.edge_guards(c, lab, u) or v.edge_required(c, lab, u):
                            ok = True
            stmt = n
            while id(stmt) in pm and not isinstance(stmt, ast.stmt):
                stmt = pm[id(stmt)]
            ctx.check(ok, rule, fi.qualname, stmt, loc(fi, n),
                      "%s `%s` comes from a decoded JSON document and may have any type, but is used as %s without a "
                      "dominating isinstance test: a sidecar with another type here makes validation raise" % (
                          what, norm(n)[:50], sk),
                      desc="%s: `%s` (%s) is isinstance-guarded" % (fi.short, norm(n)[:40], sk))
        if found:
            n_sources += 1
    return n_sources, n_uses
