"""Memo-key completeness: a value stored in a per-object cache `self.<attr>[key] = value` (where the same function also
tests/reads `self.<attr>`) may depend only on parameters the key depends on; otherwise the first caller's argument is
baked into what later callers with another argument receive."""
import ast

from .dataflow import ReachingDefs, depends_on
from .model import walk_no_nested


def memo_sites(fi):
    """-> [(store stmt, attr name, key expr, value expr)] for memo-shaped stores in fi."""
    if fi.cls is None or not fi.params() or fi.params()[0] != "self":
        return []
    stores, reads = [], set()
    for n in walk_no_nested(fi.node):
        if isinstance(n, ast.Assign) and len(n.targets) == 1 and isinstance(n.targets[0], ast.Subscript):
            t = n.targets[0]
            if isinstance(t.value, ast.Attribute) and isinstance(t.value.value, ast.Name) and t.value.value.id == "self":
                stores.append((n, t.value.attr, t.slice, n.value))
        if isinstance(n, ast.Compare) and len(n.ops) == 1 and isinstance(n.ops[0], (ast.In, ast.NotIn)):
            c = n.comparators[0]
            if isinstance(c, ast.Attribute) and isinstance(c.value, ast.Name) and c.value.id == "self":
                reads.add(c.attr)
        if isinstance(n, ast.Call) and isinstance(n.func, ast.Attribute) and n.func.attr == "get" and \
                isinstance(n.func.value, ast.Attribute) and isinstance(n.func.value.value, ast.Name) and n.func.value.value.id == "self":
            reads.add(n.func.value.attr)
    return [s for s in stores if s[1] in reads]


def missing_key_params(fi, site, rd=None):
    """Parameters the stored value depends on but the key does not."""
    rd = rd or ReachingDefs(fi)
    stmt, attr, key, value = site
    out = []
    for p in fi.params()[1:]:
        pred = lambda x, p=p: isinstance(x, ast.Name) and x.id == p and isinstance(x.ctx, ast.Load)
        if depends_on(rd, value, stmt, pred) and not depends_on(rd, key, stmt, pred):
            out.append(p)
    return out
