"""Thorough tier extras: package-wide lints reported as cross-references (never verdicts) and the whole-tree
behaviour-preserving transforms for the property under check."""
import ast
import importlib

from .model import AnalysisError, Program, loc, norm, walk_no_nested
from .callgraph import CallGraph
from .report import Context, load_known, match_known


def package_lints(ctx):
    prog = ctx.prog
    n = {"except-boolop": 0, "strip-variable": 0, "cmp-bitop": 0, "mutable-default": 0}
    for f in prog.functions.values():
        for x in walk_no_nested(f.node):
            if isinstance(x, ast.ExceptHandler) and isinstance(x.type, ast.BoolOp):
                n["except-boolop"] += 1
                ctx.xref("lint:except-boolop", loc(f, x), "`except %s` catches only the first type" % norm(x.type))
            if isinstance(x, ast.Call) and isinstance(x.func, ast.Attribute) and x.func.attr in ("lstrip", "rstrip", "strip") \
                    and x.args and not isinstance(x.args[0], ast.Constant):
                n["strip-variable"] += 1
                ctx.xref("lint:strip-variable", loc(f, x), "`%s` strips a character set, not a prefix/suffix" % norm(x)[:60])
            if isinstance(x, ast.Compare) and len(x.ops) > 1 and any(
                    isinstance(c, ast.BinOp) and isinstance(c.op, (ast.BitXor, ast.BitAnd, ast.BitOr)) for c in x.comparators):
                n["cmp-bitop"] += 1
                ctx.xref("lint:cmp-bitop", loc(f, x), "chained comparison through a bit operator: `%s`" % norm(x)[:60])
        a = f.node.args
        for d in list(a.defaults) + [k for k in a.kw_defaults if k is not None]:
            if isinstance(d, (ast.List, ast.Dict, ast.Set)):
                n["mutable-default"] += 1
                ctx.xref("lint:mutable-default", loc(f, d), "%s has a mutable default argument `%s`" % (f.short, norm(d)[:30]))
    # the loop lints that are armed only for named function sets in the quick tier, here over the whole package
    from .stale import last_only_vars, silent_breaks, stale_loop_vars
    from .memo import memo_sites, missing_key_params
    n.update({"loop-carried-state": 0, "last-iteration-only": 0, "silent-break": 0, "memo-key": 0})
    for f in prog.functions.values():
        try:
            for lp, name, use, d in stale_loop_vars(f):
                n["loop-carried-state"] += 1
                ctx.xref("lint:loop-carried-state", loc(f, use), "`%s` may carry a previous iteration's value (%s)" % (name, f.short))
            for lp, name, use, d in last_only_vars(f):
                n["last-iteration-only"] += 1
                ctx.xref("lint:last-iteration-only", loc(f, use), "`%s` keeps only the last iteration's value (%s)" % (name, f.short))
            for lp, b in silent_breaks(f)[1]:
                n["silent-break"] += 1
                ctx.xref("lint:silent-break", loc(f, b), "reporting loop left without a report (%s)" % f.short)
            for site in memo_sites(f):
                if "cache" in site[1].lower():
                    miss = missing_key_params(f, site)
                    if miss:
                        n["memo-key"] += 1
                        ctx.xref("lint:memo-key", loc(f, site[0]), "cached value depends on %s, key does not (%s)" % (miss, f.short))
        except Exception:      # a lint must never break a check
            continue
    ctx.notes.append("thorough: package-wide lints (cross-references only): %s" % n)


def transforms_for(ctx, out=print):
    """Nineteen whole-tree behaviour-preserving transforms (selftest/transforms.py), each applied to every module in memory:
    this property's verdict must not change."""
    from selftest.transforms import read_sources, transform, call_tables
    prop = ctx.prop
    mod = importlib.import_module("rules.%s" % prop.lower())
    known = load_known()
    base_new = len([f for f in ctx.findings if match_known(f, known) is None])
    srcs = read_sources(ctx.prog.root)
    kinds = ("reformat", "rename", "pad", "hoist", "invert", "nest", "unnest", "splitand", "extend", "retlocal", "swapeq",
             "earlycontinue", "positional", "keywords", "argtemp", "notin", "demorgan", "ifexp", "recvtemp")
    table = call_tables(ctx.prog.root)
    for kind in kinds:
        ov = {}
        for rel, src in srcs.items():
            try:
                ov[rel] = transform(src, kind, rel, table)
            except SyntaxError:
                ov[rel] = src
        prog = Program(root=ctx.prog.root, overlay=ov)
        cg = CallGraph(prog)
        c2 = Context(prop, prog, cg, "quick", {})
        try:
            mod.run(c2)
        except AnalysisError as e:
            raise AnalysisError("behaviour-preserving transform `%s` breaks the analysis of %s: %s" % (kind, prop, e))
        new = len([f for f in c2.findings if match_known(f, known) is None])
        if new != base_new:
            raise AnalysisError("behaviour-preserving transform `%s` changes the verdict of %s: %d -> %d unlisted findings (%s)" % (
                kind, prop, base_new, new, [(f.rule, f.where) for f in c2.findings][:4]))
        ctx.ok("selftest", "whole-tree transform `%s` (%d modules): verdict of %s unchanged, %d obligations" % (
            kind, len(ov), prop, len(c2.obligations)), "")
    out("transforms %s: %s keep the verdict" % (prop, "/".join(kinds)))
