"""Parameter forwarding (inferred from the repository itself: 680 of 691 sites): a function that takes a parameter `p` and
calls a repository function that also takes `p` (resolved precisely, or by name when every candidate agrees) hands its own `p` on; a call that leaves `p` to the
callee's default silently replaces the caller's choice (warnings filter, task selection, schema, extra definitions ...).
The sites where today's tree does not forward were read one by one and are frozen here with the reason."""
import ast

from .model import loc

# (caller short name, callee short name, parameter): reason
EXCEPTIONS = {
    ("process_def_expands", "DefExpandGatherer.process_def_expands", "known_defs"): "handed to the gatherer's constructor one line above",
    ("Sidecar.get_def_dict", "DefinitionDict.__init__", "hed_schema"): "the dictionaries passed in are already built against the schema",
    ("Sidecar.extract_definitions", "DefinitionDict.__init__", "hed_schema"): "empty dictionary; the schema is used when definitions are added",
    ("TabularInput.__init__", "Sidecar.__init__", "name"): "the table's display name is not the sidecar's",
    ("load_schema", "from_string", "schema_namespace"): "the namespace is applied by the caller after loading",
    ("load_schema", "from_string", "schema"): "merging into an existing schema is not supported for URL text",
    ("_load_schema_version_sub", "load_schema", "schema_namespace"): "the namespace is set on the merged result by _load_schema_version",
    ("Schema2DF._output_header", "Schema2DF._create_and_add_object_row", "attributes"): "header attributes are written by a separate call",
    ("FactorHedTagsOp.do_op", "Sidecar.__init__", "name"): "the operation's display name is not the sidecar's",
    ("UnitValueValidator.__init__", "CharRexValidator.__init__", "modern_allowed_char_rules"): "kept on the unit validator itself (see R1.7 DEAD_OK)",
}


def unforwarded(ctx, f):
    """-> [(call node, callee, parameter)] where f has parameter p, the precisely resolved callee has p, and the call
    leaves p to its default."""
    cg = ctx.cg
    a = f.node.args
    fps = {x.arg for x in a.args + a.kwonlyargs} - {"self", "cls"}
    out = []
    if not fps:
        return out, 0
    n = 0
    by_call = {}
    for kind, callee, node in cg.edges.get(f, []):
        if kind in ("precise", "name") and isinstance(node, ast.Call):
            by_call.setdefault(id(node), (node, []))[1].append((kind, callee))
    for node, cands in by_call.values():
        if any(isinstance(x, ast.Starred) for x in node.args) or any(k.arg is None for k in node.keywords):
            continue
        prec = [c for (k, c) in cands if k == "precise"]
        use = prec or [c for (k, c) in cands]
        if not use or len(use) > 3:
            continue
        common = None
        for callee in use:
            ca = callee.node.args
            cps = {x.arg for x in ca.args + ca.kwonlyargs}
            common = cps if common is None else (common & cps)
        for p in sorted(fps & (common or set())):
            if cg.arg(node, p) is not None:
                n += 1
                continue
            if id(node) not in cg.param_order:
                continue        # argument positions unknown: not judged
            n += 1
            out.append((node, use[0], p))
    return out, n


def check_forwarding(ctx, rule, scope_funcs, what):
    ctx.rule(rule, "a function that takes a parameter hands it on to every repository callee that takes a parameter of the same name")
    total = 0
    seen_exc = set()
    for f in scope_funcs:
        sites, n = unforwarded(ctx, f)
        total += n
        for node, callee, p in sites:
            key = (f.short, callee.short, p)
            if key in EXCEPTIONS:
                seen_exc.add(key)
                continue
            ctx.saw(f)
            ctx.violation(rule, f.qualname, node, loc(f, node),
                          "%s takes `%s` but calls %s, which takes `%s` too, without handing it on: the callee falls back to its "
                          "default and the caller's %s is silently ignored (%s)" % (f.short, p, callee.short, p, p, what))
    ctx.count_sites(total)
    ctx.ok(rule, "%d same-named parameter sites forward the parameter (%d frozen exceptions met)" % (total - len(seen_exc), len(seen_exc)), "")
    return total
