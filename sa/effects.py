"""A4: freshness/alias based mutation analysis with interprocedural summaries.

Origins of a value:
  ('P', name)     the object bound to parameter `name` (('P','self') for methods)
  ('S', attr)     the object stored in self.<attr>
  ('SH', origin)  a fresh container holding the elements of `origin` (shallow copy)
  ('F',)          fresh (constructor, literal, deep copy, non-inplace pandas result, immutable)
  ('G', name)     module-level object
  ('U',)          unknown
Reading a part (attribute, subscript, iteration element) of an origin yields that origin (mutating a
part mutates the whole); reading a part of ('SH', o) yields o.  A mutation event records the origins
of the mutated object; ('F',) and ('SH', _) receivers are not events.  UNKNOWN is never a violation."""
import ast

from .cfg import build_cfg
from .model import ClassInfo, FunctionInfo, call_name, dotted, loc, norm, walk_no_nested

F = ("F",)
U = ("U",)

MUTATORS = {"append", "extend", "insert", "remove", "clear", "sort", "reverse", "update", "setdefault", "discard",
            "popitem", "pop", "add", "appendleft", "popleft", "__setitem__", "__delitem__", "difference_update",
            "intersection_update", "symmetric_difference_update"}
AMBIGUOUS = {"add"}   # set.add mutates; DataFrame/Series.add is pure. (pop/remove/update mutate every receiver kind that has them)
FRESH_BUILTINS = {"str", "int", "float", "bool", "len", "repr", "format", "sum", "min", "max", "abs", "round", "any", "all",
                  "isinstance", "hasattr", "type", "id", "hash", "range", "enumerate", "zip", "map", "filter", "print",
                  "open", "iter", "next", "getattr", "callable", "ord", "chr", "frozenset", "bytes", "divmod"}
SHALLOW_BUILTINS = {"list", "tuple", "set", "dict", "sorted", "reversed"}
PANDAS_FRESH = {"astype", "transform", "apply", "replace", "fillna", "rename", "drop", "reset_index", "sort_values",
                "concat", "read_csv", "merge", "map", "where", "mask", "dropna", "drop_duplicates", "groupby", "agg",
                "reindex", "set_index", "to_dict", "to_list", "tolist", "to_numpy", "isin", "isna", "notna", "isnull",
                "any", "all", "sum", "mean", "unique", "value_counts", "join", "split", "strip", "lower", "upper",
                "casefold", "format", "startswith", "endswith", "find", "count", "partition", "rpartition", "encode",
                "keys", "values", "items", "get", "copy", "deepcopy", "difference", "union", "intersection", "to_csv",
                "iterrows", "itertuples", "shift", "cumsum", "diff", "eq", "ne", "str", "cat", "filter", "assign",
                "melt", "pivot", "stack", "unstack", "explode", "squeeze", "head", "tail", "sample", "nunique",
                "index", "title", "capitalize", "zfill", "rstrip", "lstrip", "splitlines", "isdigit", "isalpha"}
# `.get`, `.keys`, `.values`, `.items` return parts, handled separately below


class Event:
    def __init__(self, fi, node, origins, how, via=None):
        self.fi = fi
        self.node = node
        self.origins = origins
        self.how = how
        self.via = via or []

    def __repr__(self):
        return "<Event %s %s %s>" % (self.fi.short, self.how, sorted(self.origins))


class Summary:
    def __init__(self):
        self.mutates = {}     # origin (('P',name)|('S',attr)|('G',name)) -> (node, how, via)
        self.returns = set()  # origins of returned values in terms of the callee's params / F / U


def part_of(origins):
    out = set()
    for o in origins:
        if o[0] == "SH":
            out.add(o[1])
        else:
            out.add(o)
    return out


class Effects:
    def __init__(self, prog, cg):
        self.prog = prog
        self.cg = cg
        self.summaries = {}
        self._events = {}
        self._active = set()
        self._targets = {}

    # ------------------------------------------------------------------ callee resolution (no weak edges)
    def targets(self, call, f):
        k = id(call)
        if k not in self._targets:
            res = self.cg.resolve_call(call, f)
            prec = [c for (kind, c) in res if kind == "precise"]
            if prec:
                self._targets[k] = prec
            else:
                nm = [c for (kind, c) in res if kind == "name"]
                self._targets[k] = nm if 0 < len(nm) <= 3 else []
        return self._targets[k]

    # ------------------------------------------------------------------ per-function analysis
    def summary(self, f):
        if f in self.summaries:
            return self.summaries[f]
        if f in self._active:
            return Summary()
        self._active.add(f)
        s, ev = self._analyse(f)
        self._active.discard(f)
        self.summaries[f] = s
        self._events[f] = ev
        return s

    def events(self, f):
        self.summary(f)
        return self._events.get(f, [])

    def _analyse(self, f):
        cfg = build_cfg(f.node)
        a = f.node.args
        params = [x.arg for x in a.posonlyargs + a.args + a.kwonlyargs]
        if a.vararg:
            params.append(a.vararg.arg)
        if a.kwarg:
            params.append(a.kwarg.arg)
        is_method = f.cls is not None and not f.is_static and params and params[0] in ("self", "cls")
        init = {p: frozenset([("P", p)]) for p in params}
        events = []
        summ = Summary()
        summ.self_stores = {}
        local_names = set(params)
        for n in walk_no_nested(f.node):
            if isinstance(n, ast.Name) and isinstance(n.ctx, ast.Store):
                local_names.add(n.id)
        array_attrs = self._array_params(f)

        def origins(e, st):
            if e is None:
                return {F}
            if isinstance(e, ast.Name):
                if e.id in st:
                    return set(st[e.id])
                if e.id in local_names:
                    return {U}
                r = self.prog.resolve_symbol(f.module.name, e.id)
                if isinstance(r, (FunctionInfo, ClassInfo)) or r is None:
                    return {F} if r is not None else {("G", e.id)}
                return {("G", e.id)}
            if isinstance(e, ast.Attribute):
                if isinstance(e.value, ast.Name) and e.value.id == "self" and is_method:
                    # property?  use its return summary
                    m = f.cls.find_method(e.attr)
                    if m is not None and "property" in m.decorator_names():
                        return self._map_returns(self.summary(m).returns, {"self": {("P", "self")}}, recv_self=True)
                    return {("S", e.attr)}
                base = origins(e.value, st)
                # property on a typed receiver
                types = self.cg.expr_types(e.value, f, {})
                for c in types:
                    m = c.find_method(e.attr)
                    if m is not None and "property" in m.decorator_names():
                        return self._map_returns(self.summary(m).returns, {"self": base}, recv_self=False)
                return part_of(base)
            if isinstance(e, ast.Subscript):
                if isinstance(e.slice, ast.Slice):
                    base = origins(e.value, st)
                    return {("SH", o) if o[0] not in ("F", "SH") else o for o in base}
                return part_of(origins(e.value, st))
            if isinstance(e, ast.Starred):
                return origins(e.value, st)
            if isinstance(e, ast.IfExp):
                return origins(e.body, st) | origins(e.orelse, st)
            if isinstance(e, ast.BoolOp):
                out = set()
                for v in e.values:
                    out |= origins(v, st)
                return out
            if isinstance(e, ast.NamedExpr):
                return origins(e.value, st)
            if isinstance(e, ast.Await):
                return origins(e.value, st)
            if isinstance(e, ast.Call):
                return call_origins(e, st)
            if isinstance(e, (ast.List, ast.Tuple, ast.Set)):
                out = set()
                for x in e.elts:
                    for o in origins(x, st):
                        if o[0] not in ("F",):
                            out.add(("SH", o) if o[0] != "SH" else o)
                return out or {F}
            if isinstance(e, ast.Dict):
                out = set()
                for x in e.values:
                    for o in origins(x, st):
                        if o[0] != "F":
                            out.add(("SH", o) if o[0] != "SH" else o)
                return out or {F}
            if isinstance(e, (ast.ListComp, ast.SetComp, ast.GeneratorExp, ast.DictComp)):
                # elements: origins of the element expression with the comprehension variables bound to parts
                st2 = dict(st)
                for g in e.generators:
                    its = part_of(origins(g.iter, st2))
                    for x in ast.walk(g.target):
                        if isinstance(x, ast.Name):
                            st2[x.id] = frozenset(its)
                elt = e.value if isinstance(e, ast.DictComp) else e.elt
                out = set()
                for o in origins(elt, st2):
                    if o[0] != "F":
                        out.add(("SH", o) if o[0] != "SH" else o)
                return out or {F}
            if isinstance(e, ast.BinOp) and isinstance(e.op, (ast.Add, ast.BitOr)):
                keep = {o for o in (origins(e.left, st) | origins(e.right, st)) if o[0] == "SH"}
                return keep or {F}
            return {F}   # constants, f-strings, arithmetic, comparisons, lambdas

        def call_origins(c, st):
            fn = c.func
            nm = call_name(c)
            d = dotted(fn) or ""
            if d in ("copy.deepcopy",) or nm == "deepcopy":
                return {F}
            if d == "copy.copy":
                return {("SH", o) if o[0] not in ("F", "SH") else o for o in origins(c.args[0], st)} if c.args else {F}
            if isinstance(fn, ast.Name):
                if fn.id in SHALLOW_BUILTINS:
                    if not c.args:
                        return {F}
                    return {("SH", o) if o[0] not in ("F", "SH") else o for o in part_of(origins(c.args[0], st))} or {F}
                if fn.id in FRESH_BUILTINS:
                    return {F}
            tg = self.targets(c, f)
            if tg:
                out = set()
                for g in tg:
                    if g.name == "__init__" or g.name == "__new__":
                        out.add(F)
                        continue
                    s = self.summary(g)
                    out |= self._map_returns(s.returns, bind_args(c, g, st), recv_self=False)
                return out or {U}
            r = self.prog.resolve_expr(fn, f.module, f.cls, f)
            if isinstance(r, ClassInfo):
                return {F}
            if isinstance(fn, ast.Attribute):
                if nm in ("get", "pop", "setdefault", "popitem", "popleft", "__getitem__", "first", "last", "iloc", "loc", "at"):
                    return part_of(origins(fn.value, st))
                if nm in ("values", "keys", "items"):
                    return {("SH", o) if o[0] not in ("F", "SH") else o for o in part_of(origins(fn.value, st))}
                if nm in PANDAS_FRESH and not _inplace(c):
                    return {F}
                if _inplace(c):
                    return {F}
                # external module function: pd.Series(...), os.path.join(...), re.compile(...)
                base = fn.value
                while isinstance(base, ast.Attribute):
                    base = base.value
                if isinstance(base, ast.Name) and base.id not in st and base.id not in local_names:
                    return {F}
                return {U}
            if isinstance(fn, ast.Name) and fn.id not in st and fn.id not in local_names:
                return {F}        # external function / builtin
            return {U}

        def bind_args(c, g, st):
            """callee param name -> origins of the bound argument (and 'self' -> receiver)."""
            ga = g.node.args
            gp = [x.arg for x in ga.posonlyargs + ga.args]
            out = {}
            offset = 0
            if g.cls is not None and not g.is_static and gp and gp[0] in ("self", "cls"):
                # bound call through a receiver, or unbound Class.method(obj, ...)
                if isinstance(c.func, ast.Attribute):
                    recv = c.func.value
                    r = self.prog.resolve_expr(recv, f.module, f.cls, f)
                    if isinstance(r, ClassInfo) and not g.is_classmethod:
                        offset = 0       # unbound: first positional is self
                    else:
                        out[gp[0]] = origins(recv, st) if not (isinstance(recv, ast.Call) and call_name(recv) == "super") \
                            else {("P", "self")}
                        offset = 1
                else:
                    offset = 1
            for i, arg in enumerate(c.args):
                if isinstance(arg, ast.Starred):
                    break
                j = i + offset
                if j < len(gp):
                    out[gp[j]] = origins(arg, st)
            for kw in c.keywords:
                if kw.arg:
                    out[kw.arg] = origins(kw.value, st)
            return out

        def record(node, origs, how, via=None):
            real = {o for o in origs if o[0] not in ("F", "SH")}
            if not real:
                return
            events.append(Event(f, node, real, how, via))
            for o in real:
                key = o
                if o == ("P", "self") or o[0] == "S":
                    pass
                if key not in summ.mutates:
                    summ.mutates[key] = (node, how, via or [])

        def scan_calls(root, st):
            """Mutation events of the calls inside one statement/expression."""
            if root is None:
                return
            for c in ast.walk(root):
                if isinstance(c, (ast.Lambda, ast.FunctionDef)):
                    continue
                if not isinstance(c, ast.Call):
                    continue
                nm = call_name(c)
                fn = c.func
                tg = self.targets(c, f)
                if tg:
                    for g in tg:
                        if g.name in ("__init__", "__new__") and not (isinstance(fn, ast.Attribute) and isinstance(fn.value, ast.Call)
                                                                      and call_name(fn.value) == "super"):
                            # constructing a new object: mutations of its own self are not ours; params may be
                            s = self.summary(g)
                            b = bind_args(c, g, st)
                            for o, (n2, how, via) in s.mutates.items():
                                if o[0] == "P" and o[1] not in ("self", "cls") and o[1] in b:
                                    record(c, b[o[1]], "%s mutates its argument `%s` (%s)" % (g.short, o[1], how),
                                           [g.short] + via)
                            continue
                        s = self.summary(g)
                        b = bind_args(c, g, st)
                        for o, (n2, how, via) in s.mutates.items():
                            if o[0] == "P" and o[1] in b:
                                tgt = b[o[1]]
                                if o[1] in ("self", "cls"):
                                    record(c, tgt, "%s mutates its receiver (%s)" % (g.short, how), [g.short] + via)
                                else:
                                    record(c, tgt, "%s mutates its argument `%s` (%s)" % (g.short, o[1], how), [g.short] + via)
                            elif o[0] == "S":
                                recv = b.get("self") or b.get("cls")
                                if recv:
                                    # attr-precise when the receiver is our own self
                                    if recv == {("P", "self")}:
                                        record(c, {o}, "%s mutates self.%s (%s)" % (g.short, o[1], how), [g.short] + via)
                                    else:
                                        record(c, recv, "%s mutates its receiver's .%s (%s)" % (g.short, o[1], how), [g.short] + via)
                            elif o[0] == "G":
                                record(c, {o}, "%s mutates module state %s" % (g.short, o[1]), [g.short] + via)
                    continue
                if isinstance(fn, ast.Attribute):
                    recv_o = origins(fn.value, st)
                    if _inplace(c):
                        record(c, recv_o, "%s(..., inplace=True)" % nm)
                    elif nm in MUTATORS:
                        if nm in AMBIGUOUS and not self._container_like(fn.value, recv_o, f, array_attrs):
                            continue
                        record(c, recv_o, "in-place .%s()" % nm)

        def transfer(n, st, lab):
            a_ = n.ast
            if a_ is None:
                return st
            st2 = None

            def S():
                nonlocal st2
                if st2 is None:
                    st2 = dict(st)
                return st2
            if n.kind == "loop":
                scan_calls(a_.iter, st)
                its = part_of(origins(a_.iter, st))
                for x in ast.walk(a_.target):
                    if isinstance(x, ast.Name):
                        S()[x.id] = frozenset(its)
                return st2 if st2 is not None else st
            if n.kind == "cond":
                scan_calls(a_, st)
                # a name known to be None/falsy on this edge aliases nothing
                falsy = _falsy_name(a_, lab)
                if falsy is not None and falsy in st:
                    S()[falsy] = frozenset([F])
                    return st2
                return st
            if n.kind == "with":
                for it in a_.items:
                    scan_calls(it.context_expr, st)
                    if it.optional_vars is not None and isinstance(it.optional_vars, ast.Name):
                        S()[it.optional_vars.id] = frozenset(origins(it.context_expr, st))
                return st2 if st2 is not None else st
            if n.kind == "handler":
                if a_.name:
                    S()[a_.name] = frozenset([F])
                return st2 if st2 is not None else st
            if n.kind != "stmt":
                return st
            if isinstance(a_, (ast.FunctionDef, ast.AsyncFunctionDef, ast.ClassDef)):
                return st
            if isinstance(a_, ast.Assign):
                scan_calls(a_.value, st)
                val = origins(a_.value, st)
                for t in a_.targets:
                    if isinstance(t, ast.Attribute) and isinstance(t.value, ast.Name) and t.value.id == "self" and is_method:
                        summ.self_stores.setdefault(t.attr, []).append((a_, frozenset(val)))
                    assign_target(t, val, a_, st, S)
                return st2 if st2 is not None else st
            if isinstance(a_, ast.AnnAssign):
                if a_.value is not None:
                    scan_calls(a_.value, st)
                    assign_target(a_.target, origins(a_.value, st), a_, st, S)
                return st2 if st2 is not None else st
            if isinstance(a_, ast.AugAssign):
                scan_calls(a_.value, st)
                t = a_.target
                if isinstance(t, ast.Name) and t.id in st and isinstance(a_.op, (ast.Add, ast.BitOr)):
                    held = {("SH", o) if o[0] != "SH" else o for o in part_of(origins(a_.value, st)) if o[0] != "F"}
                    if held:
                        S()[t.id] = frozenset(set(st[t.id]) | held)
                if isinstance(t, ast.Name):
                    cur = set(st.get(t.id, ()))
                    listy = isinstance(a_.value, (ast.List, ast.ListComp)) or (
                        isinstance(a_.value, ast.Call) and call_name(a_.value) in ("list", "sorted")) or \
                        any(o[0] == "S" and o[1] in array_attrs for o in cur)
                    if isinstance(a_.op, ast.Add) and listy:
                        record(a_, cur, "augmented assignment `+=` extends the list in place")
                    if isinstance(a_.op, (ast.BitOr, ast.BitAnd, ast.Sub)) and any(o[0] in ("S", "P") for o in cur) and \
                            isinstance(a_.value, (ast.Set, ast.SetComp, ast.Dict)):
                        record(a_, cur, "augmented assignment updates the set/dict in place")
                elif isinstance(t, (ast.Attribute, ast.Subscript)):
                    store_target(t, a_, st)
                return st2 if st2 is not None else st
            if isinstance(a_, ast.Delete):
                for t in a_.targets:
                    if isinstance(t, (ast.Attribute, ast.Subscript)):
                        store_target(t, a_, st, how="del")
                return st
            if isinstance(a_, ast.Return):
                if a_.value is not None:
                    scan_calls(a_.value, st)
                    summ.returns |= origins(a_.value, st)
                else:
                    summ.returns.add(F)
                return st
            if isinstance(a_, ast.Expr):
                scan_calls(a_.value, st)
                c = a_.value
                # x.append(y) / x.extend(ys) / x.add(y) / x.insert(i, y) on a local container: x now holds y
                if isinstance(c, ast.Call) and isinstance(c.func, ast.Attribute) and isinstance(c.func.value, ast.Name) \
                        and c.func.value.id in st and c.args and c.func.attr in ("append", "extend", "add", "insert", "update",
                                                                                  "appendleft"):
                    arg = c.args[-1]
                    o_arg = origins(arg, st)
                    if c.func.attr in ("extend", "update"):
                        o_arg = part_of(o_arg)
                    held = {("SH", o) if o[0] != "SH" else o for o in o_arg if o[0] != "F"}
                    if held:
                        S()[c.func.value.id] = frozenset(set(st[c.func.value.id]) | held)
                        return st2
                return st
            # other simple statements (assert, raise, import ...)
            for x in ast.iter_child_nodes(a_):
                if isinstance(x, ast.expr):
                    scan_calls(x, st)
            return st

        def store_target(t, stmt, st, how="store"):
            if isinstance(t, ast.Attribute):
                if isinstance(t.value, ast.Name) and t.value.id == "self" and is_method:
                    record(stmt, {("S", t.attr)}, "%s to self.%s" % (how, t.attr))
                else:
                    record(stmt, origins(t.value, st), "%s to attribute .%s" % (how, t.attr))
            elif isinstance(t, ast.Subscript):
                record(stmt, origins(t.value, st), "%s into `%s[...]`" % (how, norm(t.value)[:30]))

        def assign_target(t, val, stmt, st, S):
            if isinstance(t, ast.Name):
                S()[t.id] = frozenset(val)
            elif isinstance(t, (ast.Tuple, ast.List)):
                parts = part_of(val)
                if isinstance(stmt, ast.Assign) and isinstance(stmt.value, (ast.Tuple, ast.List)) and \
                        len(stmt.value.elts) == len(t.elts):
                    for te, ve in zip(t.elts, stmt.value.elts):
                        assign_target(te, origins(ve, st), stmt, st, S)
                else:
                    for te in t.elts:
                        if isinstance(te, ast.Starred):
                            te = te.value
                        assign_target(te, parts, stmt, st, S)
            elif isinstance(t, (ast.Attribute, ast.Subscript)):
                store_target(t, stmt, st)
                if isinstance(t, ast.Subscript) and isinstance(t.value, ast.Name) and t.value.id in st:
                    held = {("SH", o) if o[0] != "SH" else o for o in val if o[0] != "F"}
                    if held:
                        S()[t.value.id] = frozenset(set(st[t.value.id]) | held)

        def join(x, y):
            if x is y or x == y:
                return x
            out = dict(x)
            for k, v in y.items():
                out[k] = frozenset(set(out.get(k, ())) | set(v))
            return out
        cfg.dataflow(init, transfer, join, normal_only=False)
        if not summ.returns:
            summ.returns = {F}
        # de-duplicate events (the dataflow visits nodes several times)
        seen = {}
        for e in events:
            k = (id(e.node), e.how)
            if k in seen:
                seen[k].origins |= e.origins
            else:
                seen[k] = e
        return summ, list(seen.values())

    # ------------------------------------------------------------------ helpers
    def _map_returns(self, rets, bound, recv_self):
        out = set()
        for o in rets:
            if o[0] == "P":
                out |= set(bound.get(o[1], {U})) if o[1] in bound else {U}
            elif o[0] == "S":
                recv = bound.get("self") or bound.get("cls")
                if recv:
                    if recv == {("P", "self")}:
                        out.add(o)
                    else:
                        out |= part_of(recv)
                else:
                    out.add(U)
            elif o[0] == "SH":
                inner = self._map_returns({o[1]}, bound, recv_self)
                out |= {("SH", i) if i[0] not in ("F", "SH") else i for i in inner}
            else:
                out.add(o)
        return out or {F}

    def _array_params(self, f):
        """Attributes of an operation object initialised from PARAMS properties of JSON type array."""
        if f.cls is None:
            return set()
        params = None
        for c in f.cls.mro():
            if "PARAMS" in c.attrs:
                params = self.prog.try_const(c.attrs["PARAMS"], c.module, c)
                break
        if not isinstance(params, dict):
            return set()
        props = params.get("properties", {})
        arrays = {k for k, v in props.items() if isinstance(v, dict) and v.get("type") in ("array", "object")}
        out = set()
        init = f.cls.find_method("__init__")
        if init is None:
            return out
        for n in walk_no_nested(init.node):
            if isinstance(n, ast.Assign):
                keys = {x.value for x in ast.walk(n.value) if isinstance(x, ast.Constant) and isinstance(x.value, str)}
                if keys & arrays:
                    for t in n.targets:
                        if isinstance(t, ast.Attribute) and isinstance(t.value, ast.Name) and t.value.id == "self":
                            out.add(t.attr)
        return out

    def _container_like(self, recv_expr, origs, f, array_attrs):
        """For ambiguous method names (pop/add/remove/update): is the receiver known to be a python
        container or a repo model object (as opposed to a DataFrame/Series/str)?"""
        txt = norm(recv_expr)
        if any(o[0] == "S" and o[1] in array_attrs for o in origs):
            return True
        types = self.cg.expr_types(recv_expr, f, {})
        if types:
            return True
        low = txt.lower()
        if any(w in low for w in ("df", "frame", "series", "column", "str", "text", "name")):
            return False
        return any(w in low for w in ("dict", "list", "set", "map", "children", "_onsets", "defs", "tags", "groups"))


def _falsy_name(test, lab):
    """Name known to be None / falsy when branch `lab` of `test` is taken, else None."""
    neg = False
    while isinstance(test, ast.UnaryOp) and isinstance(test.op, ast.Not):
        test = test.operand
        neg = not neg
    if isinstance(test, ast.Name):
        falsy_label = True if neg else False
        return test.id if lab is falsy_label else None
    if isinstance(test, ast.Compare) and len(test.ops) == 1 and isinstance(test.left, ast.Name) and \
            isinstance(test.comparators[0], ast.Constant) and test.comparators[0].value is None:
        is_none_label = isinstance(test.ops[0], (ast.Is, ast.Eq))
        if neg:
            is_none_label = not is_none_label
        return test.left.id if lab is is_none_label else None
    return None


def _inplace(c):
    return any(kw.arg == "inplace" and isinstance(kw.value, ast.Constant) and kw.value.value is True for kw in c.keywords)


def get_effects(ctx):
    if "effects" not in ctx.shared:
        ctx.shared["effects"] = Effects(ctx.prog, ctx.cg)
    return ctx.shared["effects"]


def origin_text(o):
    if o[0] == "P":
        return "parameter `%s`" % o[1]
    if o[0] == "S":
        return "self.%s" % o[1]
    if o[0] == "G":
        return "module-level %s" % o[1]
    if o[0] == "SH":
        return "elements of %s" % origin_text(o[1])
    return o[0]


def check_no_mutation(ctx, rule, funcs, forbidden, what, consequence):
    """forbidden(fi, origin) -> truthy when mutating that origin inside fi breaks the rule."""
    eff = get_effects(ctx)
    n_events = 0
    for fi in funcs:
        ctx.saw(fi)
        evs = eff.events(fi)
        bad = False
        for e in evs:
            n_events += 1
            hit = [o for o in e.origins if forbidden(fi, o)]
            if not hit:
                continue
            bad = True
            stmt = e.node
            ctx.violation(rule, fi.qualname, stmt, loc(fi, e.node),
                          "%s: %s mutates %s (%s)%s; %s" % (
                              what, fi.short, ", ".join(origin_text(o) for o in hit), e.how,
                              (" via " + " -> ".join(e.via)) if e.via else "", consequence),
                          witness=["call chain: %s" % " -> ".join([fi.short] + e.via)] if e.via else None)
        if not bad:
            ctx.ok(rule, "%s: none of its %d mutation event(s) touches %s" % (fi.short, len(evs), what), loc(fi, fi.node))
        unknown = [e for e in evs if any(o[0] == "U" for o in e.origins)]
        for e in unknown[:3]:
            ctx.xref(rule, loc(fi, e.node), "mutation of an object of unknown origin: %s" % e.how)
    return n_events
