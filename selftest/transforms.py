"""Whole-tree behaviour-preserving transforms: every check must keep its verdict.

  reformat : every module re-emitted by ast.unparse (comments gone, layout and line numbers change)
  rename   : every non-parameter local variable of every function renamed (alpha-renaming)
  pad      : a no-op statement inserted at the top of every function body (all line numbers shift)
  hoist    : every `if <test containing a call>:` becomes `_hN = <test>; if _hN:` (guards through a local)
  invert   : every plain `if c: A else: B` becomes `if not c: B else: A` (guard polarity)
  nest     : `if c: ...return/raise/continue/break` + following statements -> the rest moves into `else:`
  splitand : `if a and b: X` (no else) -> `if a: if b: X`
  extend   : `xs += ys` on a list-typed local -> `xs.extend(ys)`
  retlocal : `return <expr>` -> `_rN = <expr>; return _rN`
  swapeq   : `a == b` -> `b == a`, `a != b` -> `b != a`
  unnest   : `if c: ...return/raise/continue/break else: REST` -> else removed, REST follows
  earlycontinue : `for ...: if c: BODY` -> `for ...: if not c: continue; BODY`
  positional : keyword arguments of calls that resolve to repository functions are passed by position where the order allows
  keywords : positional arguments of such calls are passed by keyword
  notin    : `a not in b` -> `not a in b`, `a is not b` -> `not a is b`
  demorgan : `not (a or b)` -> `not a and not b`, `not (a and b)` -> `not a or not b`
  ifexp    : `x = a if c else b` -> `if c: x = a` / `else: x = b`
  recvtemp : `p.q.m(...)` as a statement / assigned / returned -> `_vN = p.q; _vN.m(...)`
  argtemp  : the first call-valued argument of a statement-level call is computed into a local first (`f(g(x))` -> `_aN = g(x); f(_aN)`)

usage: python -m selftest.transforms [reformat|rename|pad|all]   (exit 2 when a verdict changes)
"""
import ast
import importlib
import os
import sys
import time

from sa.model import AnalysisError, Program
from sa.callgraph import CallGraph
from sa.report import Context, load_known, match_known

ALL = ["C%02d" % i for i in range(1, 21)]


def read_sources(root):
    out = {}
    base = os.path.join(root, "hed")
    for dp, dn, fn in os.walk(base):
        dn[:] = [d for d in dn if d != "__pycache__"]
        for f in fn:
            if f.endswith(".py"):
                full = os.path.join(dp, f)
                rel = os.path.relpath(full, root)
                with open(full, "rb") as fh:
                    out[rel] = fh.read().decode("utf-8").replace("\r\n", "\n")
    return out


class Renamer(ast.NodeTransformer):
    """Rename non-parameter locals of each function (not globals/nonlocals, not names also used as
    keyword-argument names or attribute names, not comprehension variables shadowing)."""

    def visit_FunctionDef(self, node):
        self.generic_visit(node)       # inner functions first
        a = node.args
        params = {x.arg for x in a.posonlyargs + a.args + a.kwonlyargs}
        if a.vararg:
            params.add(a.vararg.arg)
        if a.kwarg:
            params.add(a.kwarg.arg)
        stores, banned = set(), set(params)
        inner_free = set()
        for n in ast.walk(node):
            if isinstance(n, (ast.Global, ast.Nonlocal)):
                banned |= set(n.names)
            if isinstance(n, (ast.FunctionDef, ast.AsyncFunctionDef, ast.Lambda, ast.ClassDef)) and n is not node:
                for x in ast.walk(n):
                    if isinstance(x, ast.Name):
                        inner_free.add(x.id)
                if hasattr(n, "name"):
                    banned.add(n.name)
            if isinstance(n, (ast.Import, ast.ImportFrom)):
                for al in n.names:
                    banned.add((al.asname or al.name).split(".")[0])
            if isinstance(n, ast.ExceptHandler) and n.name:
                banned.add(n.name)
        for n in self._own_nodes(node):
            if isinstance(n, ast.Name) and isinstance(n.ctx, ast.Store):
                stores.add(n.id)
        targets = {s for s in stores if s not in banned and s not in inner_free and not s.startswith("__")}
        if not targets:
            return node
        mapping = {s: s + "_rn" for s in targets}
        for n in self._own_nodes(node):
            if isinstance(n, ast.Name) and n.id in mapping:
                n.id = mapping[n.id]
        return node

    visit_AsyncFunctionDef = visit_FunctionDef

    @staticmethod
    def _own_nodes(fn):
        stack = list(fn.body)
        while stack:
            n = stack.pop()
            yield n
            if isinstance(n, (ast.FunctionDef, ast.AsyncFunctionDef, ast.Lambda, ast.ClassDef)):
                continue
            stack.extend(ast.iter_child_nodes(n))


class Padder(ast.NodeTransformer):
    def visit_FunctionDef(self, node):
        self.generic_visit(node)
        body = node.body
        i = 1 if body and isinstance(body[0], ast.Expr) and isinstance(getattr(body[0], "value", None), ast.Constant) \
            and isinstance(body[0].value.value, str) else 0
        node.body = body[:i] + [ast.Pass()] + body[i:]
        return node

    visit_AsyncFunctionDef = visit_FunctionDef


class Hoister(ast.NodeTransformer):
    """`if <test with a call>:` -> `_hN = <test>; if _hN:` (plain `if` statements only, never an `elif`)."""

    def __init__(self):
        self.n = 0

    def _block(self, stmts):
        out = []
        for st in stmts:
            st = self.visit(st)
            if isinstance(st, ast.If) and any(isinstance(x, ast.Call) for x in ast.walk(st.test)) and \
                    not any(isinstance(x, (ast.NamedExpr, ast.Yield, ast.YieldFrom, ast.Await)) for x in ast.walk(st.test)):
                self.n += 1
                nm = "_h%d" % self.n
                out.append(ast.Assign(targets=[ast.Name(id=nm, ctx=ast.Store())], value=st.test))
                st.test = ast.Name(id=nm, ctx=ast.Load())
            out.append(st)
        return out

    def generic_visit(self, node):
        for fld in ("body", "orelse", "finalbody"):
            v = getattr(node, fld, None)
            if isinstance(v, list) and v and isinstance(v[0], ast.stmt):
                if fld == "orelse" and isinstance(node, ast.If) and len(v) == 1 and isinstance(v[0], ast.If):
                    # an elif: keep its test in place, but transform inside it
                    v[0] = self.generic_visit(v[0])
                    continue
                setattr(node, fld, self._block(v))
        for h in getattr(node, "handlers", []) or []:
            h.body = self._block(h.body)
        for c in getattr(node, "cases", []) or []:
            c.body = self._block(c.body)
        return node


class Inverter(ast.NodeTransformer):
    """`if c: A else: B` -> `if not c: B else: A` for plain if/else statements (no elif)."""

    def visit_If(self, node):
        self.generic_visit(node)
        if node.orelse and not (len(node.orelse) == 1 and isinstance(node.orelse[0], ast.If)):
            node.test = ast.UnaryOp(op=ast.Not(), operand=node.test)
            node.body, node.orelse = node.orelse, node.body
        return node


class Nester(ast.NodeTransformer):
    """`if c: ...; return/raise/continue/break` followed by more statements -> the rest moves into `else:`."""

    def _block(self, stmts):
        out = []
        i = 0
        stmts = [self.visit(st) for st in stmts]
        while i < len(stmts):
            st = stmts[i]
            if isinstance(st, ast.If) and not st.orelse and st.body and \
                    isinstance(st.body[-1], (ast.Return, ast.Raise, ast.Continue, ast.Break)) and i + 1 < len(stmts):
                st.orelse = self._block(stmts[i + 1:])
                out.append(st)
                return out
            out.append(st)
            i += 1
        return out

    def generic_visit(self, node):
        for fld in ("body", "orelse", "finalbody"):
            v = getattr(node, fld, None)
            if isinstance(v, list) and v and isinstance(v[0], ast.stmt):
                if fld == "orelse" and isinstance(node, ast.If) and len(v) == 1 and isinstance(v[0], ast.If):
                    v[0] = self.generic_visit(v[0])
                    continue
                setattr(node, fld, self._block(v))
        for h in getattr(node, "handlers", []) or []:
            h.body = self._block(h.body)
        return node


class AndSplitter(ast.NodeTransformer):
    """`if a and b: X` (no else) -> `if a: if b: X`."""

    def visit_If(self, node):
        self.generic_visit(node)
        if not node.orelse and isinstance(node.test, ast.BoolOp) and isinstance(node.test.op, ast.And) and len(node.test.values) == 2:
            a, b = node.test.values
            inner = ast.If(test=b, body=node.body, orelse=[])
            node.test = a
            node.body = [inner]
        return node


class Extender(ast.NodeTransformer):
    """`xs += <call or name>` -> `xs.extend(...)` where xs is a list-typed local (initialised as `xs = []` in the function)."""

    def visit_FunctionDef(self, node):
        lists = {t.id for st in ast.walk(node) if isinstance(st, ast.Assign) and isinstance(st.value, ast.List) and not st.value.elts
                 for t in st.targets if isinstance(t, ast.Name)}
        nonlist = {t.id for st in ast.walk(node) if isinstance(st, ast.Assign) and not isinstance(st.value, (ast.List, ast.ListComp))
                   for t in st.targets if isinstance(t, ast.Name)}
        self._lists = getattr(self, "_lists", [])
        self._lists.append(lists - nonlist)
        self.generic_visit(node)
        self._lists.pop()
        return node

    visit_AsyncFunctionDef = visit_FunctionDef

    def visit_AugAssign(self, node):
        if getattr(self, "_lists", None) and isinstance(node.op, ast.Add) and isinstance(node.target, ast.Name) and \
                node.target.id in self._lists[-1] and isinstance(node.value, (ast.Call, ast.Name, ast.Attribute)):
            return ast.Expr(value=ast.Call(func=ast.Attribute(value=ast.Name(id=node.target.id, ctx=ast.Load()), attr="extend",
                                                              ctx=ast.Load()), args=[node.value], keywords=[]))
        return node


class RetLocal(ast.NodeTransformer):
    """`return <expr>` (not a bare name/constant) -> `_rN = <expr>; return _rN`."""

    def __init__(self):
        self.n = 0

    def _block(self, stmts):
        out = []
        for st in stmts:
            st = self.visit(st)
            if isinstance(st, ast.Return) and st.value is not None and not isinstance(st.value, (ast.Name, ast.Constant)) and \
                    not any(isinstance(x, (ast.Yield, ast.YieldFrom, ast.Await)) for x in ast.walk(st.value)):
                self.n += 1
                nm = "_r%d" % self.n
                out.append(ast.Assign(targets=[ast.Name(id=nm, ctx=ast.Store())], value=st.value))
                st.value = ast.Name(id=nm, ctx=ast.Load())
            out.append(st)
        return out

    def generic_visit(self, node):
        for fld in ("body", "orelse", "finalbody"):
            v = getattr(node, fld, None)
            if isinstance(v, list) and v and isinstance(v[0], ast.stmt):
                setattr(node, fld, self._block(v))
        for h in getattr(node, "handlers", []) or []:
            h.body = self._block(h.body)
        return node


class SwapEq(ast.NodeTransformer):
    """`a == b` -> `b == a`, `a != b` -> `b != a` (single comparison)."""

    def visit_Compare(self, node):
        self.generic_visit(node)
        if len(node.ops) == 1 and isinstance(node.ops[0], (ast.Eq, ast.NotEq)):
            node.left, node.comparators = node.comparators[0], [node.left]
        return node


class Unnester(ast.NodeTransformer):
    """`if c: ...return/raise/continue/break else: REST` (no elif) -> `if c: ...; REST` (else removed)."""

    def _block(self, stmts):
        out = []
        for st in stmts:
            st = self.visit(st)
            if isinstance(st, ast.If) and st.orelse and not (len(st.orelse) == 1 and isinstance(st.orelse[0], ast.If)) and \
                    st.body and isinstance(st.body[-1], (ast.Return, ast.Raise, ast.Continue, ast.Break)):
                rest, st.orelse = st.orelse, []
                out.append(st)
                out.extend(rest)
            else:
                out.append(st)
        return out

    def generic_visit(self, node):
        for fld in ("body", "orelse", "finalbody"):
            v = getattr(node, fld, None)
            if isinstance(v, list) and v and isinstance(v[0], ast.stmt):
                if fld == "orelse" and isinstance(node, ast.If) and len(v) == 1 and isinstance(v[0], ast.If):
                    v[0] = self.generic_visit(v[0])
                    continue
                setattr(node, fld, self._block(v))
        for h in getattr(node, "handlers", []) or []:
            h.body = self._block(h.body)
        return node


class EarlyContinue(ast.NodeTransformer):
    """`for ...: if c: BODY` (loop body is that single if, no else) -> `for ...: if not c: continue; BODY`."""

    def visit_For(self, node):
        self.generic_visit(node)
        if len(node.body) == 1 and isinstance(node.body[0], ast.If) and not node.body[0].orelse:
            i = node.body[0]
            node.body = [ast.If(test=ast.UnaryOp(op=ast.Not(), operand=i.test), body=[ast.Continue()], orelse=[])] + i.body
        return node


def call_tables(root):
    """(relpath, lineno, col) -> parameter names of the callee in positional order (self dropped), for calls whose candidate
    callees (precise, else by name) all agree on that order and take no *args."""
    from sa.model import FunctionInfo
    prog = Program(root=root)
    cg = CallGraph(prog)
    table = {}
    for f in prog.functions.values():
        for c in ast.walk(f.node):
            if not isinstance(c, ast.Call) or any(isinstance(a, ast.Starred) for a in c.args) or any(k.arg is None for k in c.keywords):
                continue
            try:
                res = cg.resolve_call(c, f)
            except Exception:
                continue
            prec = [t for (k, t) in res if k == "precise"]
            cands = prec or [t for (k, t) in res if k in ("name", "weak")]
            cands = [t for t in cands if isinstance(t, FunctionInfo)]
            if not cands or len(cands) > 4:
                continue
            orders = set()
            for t in cands:
                a = t.node.args
                if a.vararg is not None or a.posonlyargs:
                    orders.add(None)
                    continue
                ps = [x.arg for x in a.args]
                bound = t.cls is not None and not t.is_static and (isinstance(c.func, ast.Attribute) or t.name in ("__init__", "__new__"))
                if t.cls is not None and not t.is_static and not bound:
                    orders.add(None)
                    continue
                if bound:
                    ps = ps[1:]
                orders.add(tuple(ps))
            if len(orders) == 1 and None not in orders:
                table[(f.module.relpath, c.lineno, c.col_offset)] = list(orders.pop())
    return table


class Positional(ast.NodeTransformer):
    def __init__(self, rel, table):
        self.rel, self.table = rel, table

    def visit_Call(self, node):
        self.generic_visit(node)
        ps = self.table.get((self.rel, node.lineno, node.col_offset))
        if ps is None or not node.keywords:
            return node
        n = len(node.args)
        kws = {k.arg: k.value for k in node.keywords}
        take = []
        for pname in ps[n:]:
            if pname in kws:
                take.append(pname)
            else:
                break
        if not take:
            return node
        node.args = list(node.args) + [kws[pn] for pn in take]
        node.keywords = [k for k in node.keywords if k.arg not in take]
        return node


class Keywords(ast.NodeTransformer):
    def __init__(self, rel, table):
        self.rel, self.table = rel, table

    def visit_Call(self, node):
        self.generic_visit(node)
        ps = self.table.get((self.rel, node.lineno, node.col_offset))
        if ps is None or not node.args or len(node.args) > len(ps):
            return node
        names = ps[:len(node.args)]
        if set(names) & {k.arg for k in node.keywords}:
            return node
        node.keywords = [ast.keyword(arg=nm, value=v) for nm, v in zip(names, node.args)] + list(node.keywords)
        node.args = []
        return node


class NotIn(ast.NodeTransformer):
    def visit_Compare(self, node):
        self.generic_visit(node)
        if len(node.ops) == 1 and isinstance(node.ops[0], (ast.NotIn, ast.IsNot)):
            op = ast.In() if isinstance(node.ops[0], ast.NotIn) else ast.Is()
            return ast.copy_location(ast.UnaryOp(op=ast.Not(), operand=ast.Compare(left=node.left, ops=[op], comparators=node.comparators)), node)
        return node


class DeMorgan(ast.NodeTransformer):
    def visit_UnaryOp(self, node):
        self.generic_visit(node)
        if isinstance(node.op, ast.Not) and isinstance(node.operand, ast.BoolOp):
            b = node.operand
            op = ast.And() if isinstance(b.op, ast.Or) else ast.Or()
            return ast.copy_location(ast.BoolOp(op=op, values=[ast.UnaryOp(op=ast.Not(), operand=v) for v in b.values]), node)
        return node


class IfExpStmt(ast.NodeTransformer):
    def _block(self, stmts):
        out = []
        for st in stmts:
            if isinstance(st, ast.Assign) and isinstance(st.value, ast.IfExp) and len(st.targets) == 1 and isinstance(st.targets[0], ast.Name):
                t = st.targets[0].id
                e = st.value
                mk = lambda v: ast.copy_location(ast.Assign(targets=[ast.Name(id=t, ctx=ast.Store())], value=v), st)  # noqa: E731
                out.append(ast.copy_location(ast.If(test=e.test, body=[mk(e.body)], orelse=[mk(e.orelse)]), st))
            else:
                out.append(st)
        return out

    def generic_visit(self, node):
        super().generic_visit(node)
        for fld in ("body", "orelse", "finalbody"):
            v = getattr(node, fld, None)
            if isinstance(v, list) and v and isinstance(v[0], ast.stmt) and not isinstance(node, (ast.Module, ast.ClassDef)):
                setattr(node, fld, self._block(v))
        return node


class RecvTemp(ast.NodeTransformer):
    def __init__(self):
        self.n = 0

    def _chain(self, e):
        d = 0
        while isinstance(e, ast.Attribute):
            e = e.value
            d += 1
        return d if isinstance(e, ast.Name) else -1

    def _block(self, stmts):
        out = []
        for st in stmts:
            call = st.value if isinstance(st, (ast.Expr, ast.Return, ast.Assign)) and isinstance(getattr(st, "value", None), ast.Call) else None
            if call is not None and isinstance(call.func, ast.Attribute) and self._chain(call.func.value) >= 1:
                self.n += 1
                nm = "_v%d" % self.n
                out.append(ast.copy_location(ast.Assign(targets=[ast.Name(id=nm, ctx=ast.Store())], value=call.func.value), st))
                call.func.value = ast.copy_location(ast.Name(id=nm, ctx=ast.Load()), call.func)
            out.append(st)
        return out

    def generic_visit(self, node):
        super().generic_visit(node)
        for fld in ("body", "orelse", "finalbody"):
            v = getattr(node, fld, None)
            if isinstance(v, list) and v and isinstance(v[0], ast.stmt) and not isinstance(node, (ast.Module, ast.ClassDef)):
                setattr(node, fld, self._block(v))
        return node


class ArgTemp(ast.NodeTransformer):
    """`f(a, g(x))` as a whole statement / assigned / returned -> `_aN = g(x); f(a, _aN)` (earlier arguments must be plain)."""

    def __init__(self):
        self.n = 0

    def _plain(self, e):
        return isinstance(e, (ast.Name, ast.Constant)) or (isinstance(e, ast.Attribute) and self._plain(e.value))

    def _block(self, stmts):
        out = []
        for st in stmts:
            call = None
            if isinstance(st, (ast.Expr, ast.Return)) and isinstance(st.value, ast.Call):
                call = st.value
            elif isinstance(st, (ast.Assign, ast.AugAssign)) and isinstance(st.value, ast.Call):
                call = st.value
            if call is not None and self._plain(call.func) and not call.keywords:
                for i, a in enumerate(call.args):
                    if isinstance(a, ast.Call) and self._plain(a.func):
                        self.n += 1
                        nm = "_a%d" % self.n
                        out.append(ast.copy_location(ast.Assign(targets=[ast.Name(id=nm, ctx=ast.Store())], value=a), st))
                        call.args[i] = ast.copy_location(ast.Name(id=nm, ctx=ast.Load()), a)
                        break
                    if not self._plain(a):
                        break
            out.append(st)
        return out

    def generic_visit(self, node):
        super().generic_visit(node)
        for fld in ("body", "orelse", "finalbody"):
            v = getattr(node, fld, None)
            if isinstance(v, list) and v and isinstance(v[0], ast.stmt) and not isinstance(node, (ast.Module, ast.ClassDef)):
                setattr(node, fld, self._block(v))
        return node


def transform(src, kind, rel=None, table=None):
    import warnings
    with warnings.catch_warnings():
        warnings.simplefilter("ignore")
        tree = ast.parse(src)
    if kind == "rename":
        tree = Renamer().visit(tree)
    elif kind == "pad":
        tree = Padder().visit(tree)
    elif kind == "hoist":
        tree = Hoister().visit(tree)
    elif kind == "invert":
        tree = Inverter().visit(tree)
    elif kind == "retlocal":
        tree = RetLocal().visit(tree)
    elif kind == "swapeq":
        tree = SwapEq().visit(tree)
    elif kind == "unnest":
        tree = Unnester().visit(tree)
    elif kind == "earlycontinue":
        tree = EarlyContinue().visit(tree)
    elif kind == "nest":
        tree = Nester().visit(tree)
    elif kind == "splitand":
        tree = AndSplitter().visit(tree)
    elif kind == "extend":
        tree = Extender().visit(tree)
    elif kind == "argtemp":
        tree = ArgTemp().visit(tree)
    elif kind == "notin":
        tree = NotIn().visit(tree)
    elif kind == "demorgan":
        tree = DeMorgan().visit(tree)
    elif kind == "ifexp":
        tree = IfExpStmt().visit(tree)
    elif kind == "recvtemp":
        tree = RecvTemp().visit(tree)
    elif kind == "positional":
        tree = Positional(rel, table).visit(tree)
    elif kind == "keywords":
        tree = Keywords(rel, table).visit(tree)
    ast.fix_missing_locations(tree)
    out = ast.unparse(tree)
    import warnings
    with warnings.catch_warnings():
        warnings.simplefilter("ignore")
        compile(out, "<transformed>", "exec", dont_inherit=True)
    return out


def verdicts(root, overlay):
    prog = Program(root=root, overlay=overlay)
    cg = CallGraph(prog)
    known = load_known()
    out = {}
    shared = {}
    for p in ALL:
        mod = importlib.import_module("rules.%s" % p.lower())
        ctx = Context(p, prog, cg, "quick", shared)
        try:
            mod.run(ctx)
            new = [f for f in ctx.findings if match_known(f, known) is None]
            out[p] = ("ok", [(f.rule, f.where, f.message[:120]) for f in new], len(ctx.obligations))
        except AnalysisError as e:
            out[p] = ("analysis-error", str(e), 0)
    return out


def main(argv):
    import warnings
    warnings.simplefilter("ignore")
    root = os.environ.get("HED_REPO", "/repo")
    kinds = ["reformat", "rename", "pad", "hoist", "invert", "nest", "splitand", "extend", "retlocal", "swapeq", "unnest", "earlycontinue", "positional", "keywords", "argtemp", "notin", "demorgan", "ifexp", "recvtemp"] if not argv or argv[0] == "all" else argv
    srcs = read_sources(root)
    base = verdicts(root, {})
    bad = 0
    table = call_tables(root) if set(kinds) & {"positional", "keywords"} else None
    for kind in kinds:
        t0 = time.time()
        ov = {}
        for rel, src in srcs.items():
            try:
                ov[rel] = transform(src, kind, rel, table)
            except SyntaxError:
                ov[rel] = src
        res = verdicts(root, ov)
        for p in ALL:
            b, r = base[p], res[p]
            same = (b[0] == r[0]) and (len(b[1]) == len(r[1]) if b[0] == "ok" else True)
            flag = "" if same else "   <<<<<< verdict changed"
            if not same:
                bad += 1
            print("%-9s %s base=%s/%s now=%s/%s obligations %s -> %s%s" % (
                kind, p, b[0], len(b[1]) if b[0] == "ok" else "-", r[0], len(r[1]) if r[0] == "ok" else r[1][:150],
                b[2], r[2], flag))
            if not same and r[0] == "ok":
                for f in r[1][:5]:
                    print("      ", f)
        print("%s: %.1fs" % (kind, time.time() - t0))
    print("%d verdict changes" % bad)
    return 2 if bad else 0


if __name__ == "__main__":
    sys.exit(main(sys.argv[1:]))
