"""Whole-tree behaviour-preserving transforms: every check must keep its verdict.

  reformat : every module re-emitted by ast.unparse (comments gone, layout and line numbers change)
  rename   : every non-parameter local variable of every function renamed (alpha-renaming)
  pad      : a no-op statement inserted at the top of every function body (all line numbers shift)

usage: python -m selftest.transforms [reformat|rename|pad|all]   (exit 2 when a verdict changes)
"""
import ast
import importlib
import os
import sys
import time

from sa.model import AnalysisError, Program
from sa.callgraph import CallGraph
from sa.report import Context, load_known, match_known

ALL = ["C%02d" % i for i in range(1, 21)]


def read_sources(root):
    out = {}
    base = os.path.join(root, "hed")
    for dp, dn, fn in os.walk(base):
        dn[:] = [d for d in dn if d != "__pycache__"]
        for f in fn:
            if f.endswith(".py"):
                full = os.path.join(dp, f)
                rel = os.path.relpath(full, root)
                with open(full, "rb") as fh:
                    out[rel] = fh.read().decode("utf-8").replace("\r\n", "\n")
    return out


class Renamer(ast.NodeTransformer):
    """Rename non-parameter locals of each function (not globals/nonlocals, not names also used as
    keyword-argument names or attribute names, not comprehension variables shadowing)."""

    def visit_FunctionDef(self, node):
        self.generic_visit(node)       # inner functions first
        a = node.args
        params = {x.arg for x in a.posonlyargs + a.args + a.kwonlyargs}
        if a.vararg:
            params.add(a.vararg.arg)
        if a.kwarg:
            params.add(a.kwarg.arg)
        stores, banned = set(), set(params)
        inner_free = set()
        for n in ast.walk(node):
            if isinstance(n, (ast.Global, ast.Nonlocal)):
                banned |= set(n.names)
            if isinstance(n, (ast.FunctionDef, ast.AsyncFunctionDef, ast.Lambda, ast.ClassDef)) and n is not node:
                for x in ast.walk(n):
                    if isinstance(x, ast.Name):
                        inner_free.add(x.id)
                if hasattr(n, "name"):
                    banned.add(n.name)
            if isinstance(n, (ast.Import, ast.ImportFrom)):
                for al in n.names:
                    banned.add((al.asname or al.name).split(".")[0])
            if isinstance(n, ast.ExceptHandler) and n.name:
                banned.add(n.name)
        for n in self._own_nodes(node):
            if isinstance(n, ast.Name) and isinstance(n.ctx, ast.Store):
                stores.add(n.id)
        targets = {s for s in stores if s not in banned and s not in inner_free and not s.startswith("__")}
        if not targets:
            return node
        mapping = {s: s + "_rn" for s in targets}
        for n in self._own_nodes(node):
            if isinstance(n, ast.Name) and n.id in mapping:
                n.id = mapping[n.id]
        return node

    visit_AsyncFunctionDef = visit_FunctionDef

    @staticmethod
    def _own_nodes(fn):
        stack = list(fn.body)
        while stack:
            n = stack.pop()
            yield n
            if isinstance(n, (ast.FunctionDef, ast.AsyncFunctionDef, ast.Lambda, ast.ClassDef)):
                continue
            stack.extend(ast.iter_child_nodes(n))


class Padder(ast.NodeTransformer):
    def visit_FunctionDef(self, node):
        self.generic_visit(node)
        body = node.body
        i = 1 if body and isinstance(body[0], ast.Expr) and isinstance(getattr(body[0], "value", None), ast.Constant) \
            and isinstance(body[0].value.value, str) else 0
        node.body = body[:i] + [ast.Pass()] + body[i:]
        return node

    visit_AsyncFunctionDef = visit_FunctionDef


def transform(src, kind):
    import warnings
    with warnings.catch_warnings():
        warnings.simplefilter("ignore")
        tree = ast.parse(src)
    if kind == "rename":
        tree = Renamer().visit(tree)
    elif kind == "pad":
        tree = Padder().visit(tree)
    ast.fix_missing_locations(tree)
    out = ast.unparse(tree)
    import warnings
    with warnings.catch_warnings():
        warnings.simplefilter("ignore")
        compile(out, "<transformed>", "exec", dont_inherit=True)
    return out


def verdicts(root, overlay):
    prog = Program(root=root, overlay=overlay)
    cg = CallGraph(prog)
    known = load_known()
    out = {}
    shared = {}
    for p in ALL:
        mod = importlib.import_module("rules.%s" % p.lower())
        ctx = Context(p, prog, cg, "quick", shared)
        try:
            mod.run(ctx)
            new = [f for f in ctx.findings if match_known(f, known) is None]
            out[p] = ("ok", [(f.rule, f.where, f.message[:120]) for f in new], len(ctx.obligations))
        except AnalysisError as e:
            out[p] = ("analysis-error", str(e), 0)
    return out


def main(argv):
    import warnings
    warnings.simplefilter("ignore")
    root = os.environ.get("HED_REPO", "/repo")
    kinds = ["reformat", "rename", "pad"] if not argv or argv[0] == "all" else argv
    srcs = read_sources(root)
    base = verdicts(root, {})
    bad = 0
    for kind in kinds:
        t0 = time.time()
        ov = {}
        for rel, src in srcs.items():
            try:
                ov[rel] = transform(src, kind)
            except SyntaxError:
                ov[rel] = src
        res = verdicts(root, ov)
        for p in ALL:
            b, r = base[p], res[p]
            same = (b[0] == r[0]) and (len(b[1]) == len(r[1]) if b[0] == "ok" else True)
            flag = "" if same else "   <<<<<< verdict changed"
            if not same:
                bad += 1
            print("%-9s %s base=%s/%s now=%s/%s obligations %s -> %s%s" % (
                kind, p, b[0], len(b[1]) if b[0] == "ok" else "-", r[0], len(r[1]) if r[0] == "ok" else r[1][:150],
                b[2], r[2], flag))
            if not same and r[0] == "ok":
                for f in r[1][:5]:
                    print("      ", f)
        print("%s: %.1fs" % (kind, time.time() - t0))
    print("%d verdict changes" % bad)
    return 2 if bad else 0


if __name__ == "__main__":
    sys.exit(main(sys.argv[1:]))
