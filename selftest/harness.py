"""Checker self-validation: apply one-construct edits to an in-memory copy of /repo's source and
require the owning rule to fire (breaking mutants) or every rule of the property to stay silent
(behaviour-preserving variants).  Nothing is written under /repo; nothing is executed.

A mutant whose anchor text is no longer present in the tree is *stale* (listed, not a failure).
A wrong verdict on an applicable mutant is an ANALYSIS-ERROR (the checker is broken), never a
VIOLATION of the property."""
import importlib
import json
import os
import sys
import time
from concurrent.futures import ProcessPoolExecutor

from sa.model import AnalysisError, Program
from sa.callgraph import CallGraph
from sa.report import Context, VERIF, load_known, match_known


def load_mutants(prop=None):
    out = []
    d = os.path.join(VERIF, "selftest", "mutants")
    for fn in sorted(os.listdir(d)):
        if not fn.endswith(".json"):
            continue
        with open(os.path.join(d, fn)) as f:
            for m in json.load(f):
                if prop is None or m["property"] == prop:
                    out.append(m)
    return out


def apply_patch_file(patch_path, root):
    """Apply a unified diff to copies of the touched files (outside root) -> overlay dict, or None when it does not apply."""
    import re
    import shutil
    import subprocess
    import tempfile
    with open(patch_path, "rb") as f:
        data = f.read()
    files = re.findall(rb"^\+\+\+ b/(\S+)", data, re.M)
    tmp = tempfile.mkdtemp(prefix="mut_")
    try:
        for rel in files:
            rel = rel.decode()
            src = os.path.join(root, rel)
            if not os.path.exists(src):
                return None
            dst = os.path.join(tmp, rel)
            os.makedirs(os.path.dirname(dst), exist_ok=True)
            shutil.copy(src, dst)
        p = subprocess.run(["patch", "-p1", "-s", "--no-backup-if-mismatch", "-d", tmp, "-i", patch_path], capture_output=True)
        if p.returncode != 0:
            return None
        out = {}
        for rel in files:
            rel = rel.decode()
            with open(os.path.join(tmp, rel), "rb") as f:
                out[rel] = f.read().decode("utf-8").replace("\r\n", "\n")
        return out
    finally:
        shutil.rmtree(tmp, ignore_errors=True)


def apply_mutant(m, root):
    """-> overlay dict or None if stale."""
    overlay = {}
    if "patch" in m:
        return apply_patch_file(os.path.join(VERIF, m["patch"]), root)
    for e in m["edits"]:
        path = os.path.join(root, e["file"])
        if e["file"] in overlay:
            src = overlay[e["file"]]
        else:
            if not os.path.exists(path):
                return None
            with open(path, "rb") as f:
                src = f.read().decode("utf-8").replace("\r\n", "\n")
        if src.count(e["old"]) != 1:
            return None
        src = src.replace(e["old"], e["new"])
        try:
            compile(src, e["file"], "exec", dont_inherit=True)
        except SyntaxError:
            return "syntax"
        overlay[e["file"]] = src
    return overlay


def run_one(args):
    m, root = args
    import warnings
    warnings.simplefilter("ignore")
    t0 = time.time()
    try:
        ov = apply_mutant(m, root)
        if ov is None:
            return {"id": m["id"], "status": "stale"}
        if ov == "syntax":
            return {"id": m["id"], "status": "error", "detail": "mutant does not compile"}
        prog = Program(root=root, overlay=ov)
        cg = CallGraph(prog)
        if m.get("all_checks"):
            # a behaviour-preserving change: every property's check must stay silent on it
            known = load_known()
            shared = {}
            bad = []
            for i in range(1, 21):
                p_ = "C%02d" % i
                c_ = Context(p_, prog, cg, "quick", shared)
                try:
                    importlib.import_module("rules.%s" % p_.lower()).run(c_)
                except AnalysisError as e:
                    bad.append((p_, "ANALYSIS-ERROR", str(e)[:120]))
                    continue
                bad += [(f.rule, f.where, f.message[:100]) for f in c_.findings if match_known(f, known) is None]
            if bad:
                return {"id": m["id"], "status": "false-alarm", "detail": "%s" % bad}
            return {"id": m["id"], "status": "ok", "wall": time.time() - t0}
        mod = importlib.import_module("rules.%s" % m["property"].lower())
        ctx = Context(m["property"], prog, cg, "quick", {})
        try:
            mod.run(ctx)
        except AnalysisError as e:
            if m["expect"] == "fire" and m.get("accept_analysis_error"):
                return {"id": m["id"], "status": "ok", "detail": "analysis-error: %s" % e}
            return {"id": m["id"], "status": "error", "detail": "AnalysisError: %s" % e}
        known = load_known()
        new = [f for f in ctx.findings if match_known(f, known) is None]
        if m["expect"] == "fire":
            hits = [f for f in new if f.rule == m["rule"] and
                    (not m.get("construct") or m["construct"] in f.construct or m["construct"] in f.where
                     or m["construct"] in f.statement)]
            if hits:
                return {"id": m["id"], "status": "ok", "detail": "%s @ %s" % (hits[0].rule, hits[0].where),
                        "wall": time.time() - t0}
            return {"id": m["id"], "status": "missed",
                    "detail": "expected %s to fire; reported: %s" % (m["rule"], [(f.rule, f.where) for f in new])}
        else:
            if new:
                return {"id": m["id"], "status": "false-alarm",
                        "detail": "%s" % [(f.rule, f.where, f.message[:100]) for f in new]}
            return {"id": m["id"], "status": "ok", "wall": time.time() - t0}
    except Exception as e:  # pragma: no cover
        import traceback
        return {"id": m["id"], "status": "error", "detail": traceback.format_exc()[-600:]}


def run_mutants(mutants, root, jobs=None):
    jobs = jobs or min(16, os.cpu_count() or 4)
    if len(mutants) <= 2 or jobs == 1:
        return [run_one((m, root)) for m in mutants]
    with ProcessPoolExecutor(max_workers=jobs) as ex:
        return list(ex.map(run_one, [(m, root) for m in mutants]))


def run_for_property(ctx, out=print):
    """Thorough tier: run this property's mutants; wrong verdict -> AnalysisError."""
    muts = load_mutants(ctx.prop)
    res = run_mutants(muts, ctx.prog.root)
    by = {}
    for r in res:
        by.setdefault(r["status"], []).append(r)
    fire = [m for m in muts if m["expect"] == "fire"]
    benign = [m for m in muts if m["expect"] != "fire"]
    out("selftest %s: %d mutants (%d breaking, %d benign): %s" % (
        ctx.prop, len(muts), len(fire), len(benign), {k: len(v) for k, v in by.items()}))
    ctx.shared["evidence_extra"] = {
        "selftest": {"mutants": len(muts), "breaking": len(fire), "benign": len(benign),
                     "results": {k: [r["id"] for r in v] for k, v in by.items()},
                     "detected": [{"id": r["id"], "by": r.get("detail")} for r in by.get("ok", [])][:80]}}
    bad = by.get("missed", []) + by.get("false-alarm", []) + by.get("error", [])
    for r in bad:
        out("  selftest %s %s: %s" % (r["status"], r["id"], r.get("detail")))
    if bad:
        raise AnalysisError("checker self-validation failed for %s: %s" % (
            ctx.prop, ", ".join("%s(%s)" % (r["id"], r["status"]) for r in bad)))
    for r in by.get("ok", []):
        ctx.ok("selftest", "mutant %s: verdict as expected (%s)" % (r["id"], r.get("detail", "silent")), "")


def main(argv):
    """python -m selftest.harness [Cnn|all] [--repo DIR] : report table, exit 2 on wrong verdicts."""
    prop = None
    root = os.environ.get("HED_REPO", "/repo")
    args = list(argv)
    if "--repo" in args:
        i = args.index("--repo")
        root = args[i + 1]
        del args[i:i + 2]
    if args and args[0].lower() != "all":
        prop = args[0].upper()
    muts = load_mutants(prop)
    t0 = time.time()
    res = run_mutants(muts, root)
    bad = 0
    for m, r in zip(muts, res):
        flag = "" if r["status"] in ("ok", "stale") else "   <<<<<<"
        if flag:
            bad += 1
        print("%-28s %-4s %-6s %-11s %s%s" % (m["id"], m["property"], m["expect"], r["status"],
                                             (r.get("detail") or "")[:150], flag))
    print("%d mutants, %d wrong verdicts, %.1fs" % (len(muts), bad, time.time() - t0))
    return 2 if bad else 0


if __name__ == "__main__":
    sys.exit(main(sys.argv[1:]))
