#!/venv/bin/python -B
"""usage: tools/try_overlay.py <patch.diff> Cnn [Cnn ...] : run the rules on an in-memory overlay of /repo + patch (nothing written)."""
import importlib, os, sys, warnings
sys.path.insert(0, os.path.dirname(os.path.dirname(os.path.abspath(__file__))))
warnings.simplefilter("ignore")
from sa.model import AnalysisError, Program
from sa.callgraph import CallGraph
from sa.report import Context, load_known, match_known
from selftest.harness import apply_patch_file
root = os.environ.get("HED_REPO", "/repo")
ov = apply_patch_file(os.path.abspath(sys.argv[1]), root) if sys.argv[1] != "-" else {}
if ov is None:
    sys.exit("patch does not apply")
prog = Program(root=root, overlay=ov); cg = CallGraph(prog); known = load_known(); shared = {}
for p in sys.argv[2:] or ["C%02d" % i for i in range(1, 21)]:
    ctx = Context(p, prog, cg, "quick", shared)
    try:
        importlib.import_module("rules.%s" % p.lower()).run(ctx)
    except AnalysisError as e:
        print(p, "ANALYSIS-ERROR", e); continue
    new = [f for f in ctx.findings if match_known(f, known) is None]
    print(p, "%d obligations, %d new finding(s)" % (len(ctx.obligations), len(new)))
    for f in new:
        print("   ", f.rule, f.where, "|", f.message[:200])
