#!/venv/bin/python
"""Evaluate every seeded variant found under /tmp/wt/C*/ : phase 1 (demo clean/patched + pinned tests on scratch exports)
in parallel, phase 2 (apply to /repo, ./check all, undo) serially.  Confirmed seeds are stored under /verif/seeded/."""
import glob, json, os, subprocess, sys
from concurrent.futures import ThreadPoolExecutor
V = os.path.dirname(os.path.dirname(os.path.abspath(__file__)))
OUT = "/tmp/seed_eval"
os.makedirs(OUT, exist_ok=True)
args = sys.argv[1:]
SRC, IDMAP = "/tmp/wt", "AB"
if "--src" in args:
    i = args.index("--src"); SRC = args[i + 1]; del args[i:i + 2]
if "--idmap" in args:
    i = args.index("--idmap"); IDMAP = args[i + 1]; del args[i:i + 2]
only = set(args)
seeds = []
for d in sorted(glob.glob(SRC + "/C*")):
    prop = os.path.basename(d)
    for v, vid in zip("AB", IDMAP):
        patch, demo = os.path.join(d, "variant%s.diff" % v), os.path.join(d, "demo%s.py" % v)
        if os.path.exists(patch) and os.path.exists(demo):
            sid = "%s-%s" % (prop, vid)
            if only and sid not in only and prop not in only:
                continue
            seeds.append((sid, prop, patch, demo))

def phase1(s):
    sid, prop, patch, demo = s
    out = os.path.join(OUT, sid + ".p1.json")
    if os.path.exists(out):
        return json.load(open(out))
    p = subprocess.run([os.path.join(V, "tools/eval_seed.py"), sid, prop, patch, demo, "--no-checks"], capture_output=True, text=True)
    txt = "\n".join(l for l in p.stdout.splitlines() if "WARNING conda" not in l)
    try:
        r = json.loads(txt[txt.index("{"):])
    except Exception:
        r = {"id": sid, "error": (p.stdout + p.stderr)[-600:]}
    json.dump(r, open(out, "w"), indent=1)
    return r

with ThreadPoolExecutor(max_workers=5) as ex:
    p1 = list(ex.map(phase1, seeds))
for s, r in zip(seeds, p1):
    sid, prop, patch, demo = s
    if not r.get("confirmed"):
        print("%-7s NOT CONFIRMED demo=%s/%s stable_failing=%s %s" % (sid, r.get("demo_clean_rc"), r.get("demo_patched_rc"),
              len(r.get("stable_failing", []) or []), r.get("error", "")[:200]))
        continue
    p = subprocess.run([os.path.join(V, "tools/eval_seed.py"), sid, prop, patch, demo, "--skip-tests", "--keep"], capture_output=True, text=True)
    txt = "\n".join(l for l in p.stdout.splitlines() if "WARNING conda" not in l)
    try:
        r2 = json.loads(txt[txt.index("{"):])
    except Exception:
        print(sid, "phase2 error", (p.stdout + p.stderr)[-400:]); continue
    # fold the test result into the kept meta
    mp = os.path.join(V, "seeded", sid, "meta.json")
    if os.path.exists(mp):
        m = json.load(open(mp))
        m["ran"][2] = "pinned test suite with patch applied (scratch export): stable tests failing = %d of 690" % len(r.get("stable_failing", []))
        json.dump(m, open(mp, "w"), indent=1)
    print("%-7s confirmed detected=%-5s by=%s%s" % (sid, r2.get("detected"), sorted({x["rule"] for x in r2.get("reports", [])}),
          (" ANALYSIS-ERROR " + str(r2.get("analysis_errors"))) if r2.get("analysis_errors") else ""))
