#!/bin/sh
# Run the pinned baseline test command on an export of a /repo commit (default HEAD) outside /repo, compare with stable_pass.
# usage: baseline_at.sh [commit]   -> prints missing stable tests; exit 0 when all 690 stable tests pass
C=${1:-HEAD}
SHA=$(git -C /repo rev-parse --short "$C")
D=/tmp/bl_$SHA
rm -rf "$D"; mkdir -p "$D"
git -C /repo archive "$C" | tar -x -C "$D"
cd "$D" || exit 2
PYTHONPATH="$D" /venv/bin/python -m pytest -ra -q -p no:cacheprovider --timeout=900 --continue-on-collection-errors --junitxml="$D/junit.xml" >"$D/pytest.log" 2>&1
/venv/bin/python - "$D/junit.xml" <<'PY'
import json, sys, xml.etree.ElementTree as ET
stable = set(json.load(open('/root/.vp/BASELINE.json'))['stable_pass'])
passed = set()
for tc in ET.parse(sys.argv[1]).getroot().iter('testcase'):
    if not any(c.tag in ('failure', 'error', 'skipped') for c in tc):
        passed.add(tc.get('classname') + '::' + tc.get('name'))
missing = sorted(stable - passed)
print("stable %d, passed-now %d, stable-not-passing %d" % (len(stable), len(passed), len(missing)))
for m in missing[:40]:
    print("  MISSING", m)
sys.exit(1 if missing else 0)
PY
RC=$?
tail -3 "$D/pytest.log"
cd /; rm -rf "$D"
echo "baseline@$SHA rc=$RC"
exit $RC
