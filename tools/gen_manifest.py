#!/venv/bin/python
"""Regenerate MANIFEST.json from the rule modules that exist (rules/cNN.py) — one check per property."""
import importlib
import json
import os
import sys

ROOT = os.path.dirname(os.path.dirname(os.path.abspath(__file__)))
sys.path.insert(0, ROOT)

TECH = {
    "C01": "call-graph reachability + registry/signature table comparison (AST)",
    "C02": "explicit-raise escape analysis over the call graph + handler typestate (AST/CFG)",
    "C03": "key-normalisation agreement on the tag lookup table + taint-lite on the remainder slice",
    "C04": "data-dependence of the duplicate-detection sort key; spelling-accessor taint in validator branches; loop-carried-state and silent-break lints on the CFG (reaching definitions)",
    "C05": "guard dominance, abstract-hook conformance, writer/reader constant-table agreement, loop-carried-state lint, reader keyword agreement",
    "C06": "alias/effect analysis (forbidden-origin mutation) + sentinel-set agreement",
    "C07": "path-sensitive push/pop balance on the CFG, label data-dependence, nullable-use dominance",
    "C08": "isinstance-guard dominance on JSON-typed values, accessor-chain agreement, regex-AST agreement, last-iteration-only lint, wiring, push/pop balance",
    "C09": "typestate (form store paired with flag store), guard dominance, copy-provenance effect analysis, key-normalisation agreement, wiring",
    "C10": "key-normalisation agreement on the open-scope table, construction dominance, wiring",
    "C11": "normalisation-set agreement between validation and conversion lookups, nullable-use dominance",
    "C12": "registry signature binding, decorate-once abstract state over the CFG, warning-filter taint, table order",
    "C13": "interface conformance of both schema classes, refusal-guard dominance, strip-family lint, memo-key completeness (parameter dependence of cached value vs key)",
    "C14": "validator-table wiring and signature conformance, section-enum iteration, push/pop balance",
    "C15": "alias/effect analysis over the search closure, close-or-raise dominance in the parser",
    "C16": "argument-propagation agreement, in-place prune recognition, issue-drop lint, status taint, merge order",
    "C17": "alias/effect analysis of do_op, PARAMS/constructor/use agreement, dominance and bracketing in the dispatcher",
    "C18": "dominance/ordering of I/O sinks on the CFG, reaching-definition provenance of the path read, tested-value = used-value (equal reaching definitions)",
    "C19": "lock typestate on the CFG, temp-then-rename pairing, lock-held call-graph fixpoint, fetch-under-lock reachability, handler lint",
    "C20": "guard dominance and open/close pairing on the CFG, key-normalisation agreement on the open-process table",
}

NOTE = ("Decides only the structural clauses named in DESIGN.md section 5 (necessary conditions), not the behavioural "
        "property as a whole. Assumes: no getattr/exec-based dispatch in the analysed closures; external libraries "
        "follow their documented copy/in-place conventions; normal-path reasoning (an exception aborts the operation). "
        "Trusted base: CPython's ast module and the analyser in /verif/sa.")


def _fix_note():
    """The repairs recorded in known_findings.json (the file is the source of truth; /repo's log has the same commits)."""
    try:
        k = json.load(open(os.path.join(ROOT, "known_findings.json")))
        fixed = [e for e in k if e.get("status") == "fixed"]
        commits = []
        for e in fixed:
            if e.get("commit") not in commits:
                commits.append(e.get("commit"))
        return " Repairs so far: %d findings in %d fix: commits (%s)." % (len(fixed), len(commits), " ".join(commits))
    except Exception:
        return ""


def main():
    props = {}
    with open(os.path.join(ROOT, "properties.jsonl")) as f:
        for line in f:
            p = json.loads(line)
            props[p["id"]] = p
    na_reasons = {}
    p_na = os.path.join(ROOT, "tables", "not_applicable.json")
    if os.path.exists(p_na):
        na_reasons = json.load(open(p_na))
    checks, na, served = [], [], []
    for pid in sorted(props):
        path = os.path.join(ROOT, "rules", pid.lower() + ".py")
        if pid in na_reasons or not os.path.exists(path):
            na.append({"property_id": pid, "reason": na_reasons.get(
                pid, "check not built yet; planned structural clauses are in DESIGN.md section 5")})
            continue
        mod = importlib.import_module("rules." + pid.lower())
        served.append(pid)
        checks.append({
            "property_id": pid,
            "quick_cmd": "./check %s --tier quick" % pid,
            "thorough_cmd": "./check %s --tier thorough" % pid,
            "evidence_file": "/verif/evidence/%s.json" % pid,
            "replay_cmd_template": "./check %s --replay {path}" % pid,
            "engine": "sa",
            "level_claimed": {"category": "other", "text": (getattr(mod, "LEVEL_TEXT", "") + " " + getattr(mod, "LEVEL_EXTRA", "")).strip(),
                              "design_ref": "DESIGN.md section 5, %s" % pid},
            "level_note": NOTE,
            "technique": "static analysis: " + TECH[pid],
        })
    m = {
        "version": 1,
        "setup_cmd": "/venv/bin/python -m compileall -q sa rules selftest >/dev/null 2>&1; true",
        "hooks": {
            "guard": "HED_PYTHON_VERIF",
            "enable": "no hooks: the analysis reads /repo's source text and never imports or runs it",
            "baseline_off_cmd": "cd /repo && /venv/bin/python -m pytest -ra -q -p no:cacheprovider --timeout=900 "
                                "--continue-on-collection-errors",
            "source_commits": [],
            "add_only": True,
        },
        "engines": [{"name": "sa", "path": "sa/", "serves_properties": served,
                     "kind_free_text": "repository-specific static analysis over the Python AST: symbol/class model, "
                                       "call graph, per-function CFG with dominators, reaching definitions, "
                                       "effect/alias, nullable, key-normalisation and table-agreement analyses; "
                                       "self-validated by in-memory mutants (selftest/)"}],
        "checks": checks,
        "not_applicable": na,
        "notes": "Every check parses /repo's current working tree on each run (stdlib ast only; nothing under /repo "
                 "is imported or executed). Exit 2 + ANALYSIS-ERROR means the analysis could not run (vanished "
                 "anchor, instance count under the confirmed floor) and is never a verdict. Genuine defects found "
                 "are repaired by 'fix:' commits in /repo and recorded in known_findings.json." + _fix_note(),
    }
    with open(os.path.join(ROOT, "MANIFEST.json"), "w") as f:
        json.dump(m, f, indent=1)
    print("claimed:", served, "n/a:", [x["property_id"] for x in na])


if __name__ == "__main__":
    main()
