#!/venv/bin/python
"""Binary-safe exact text replacement preserving CRLF files: bpatch.py FILE <<< JSON [{"old":..,"new":..}]"""
import json, sys
path = sys.argv[1]
edits = json.load(sys.stdin)
data = open(path, 'rb').read()
crlf = b'\r\n' in data
for e in edits:
    old = e['old'].encode(); new = e['new'].encode()
    if crlf:
        old = old.replace(b'\n', b'\r\n'); new = new.replace(b'\n', b'\r\n')
    if data.count(old) != 1:
        sys.exit("anchor count %d for %r" % (data.count(old), e['old'][:60]))
    data = data.replace(old, new)
open(path, 'wb').write(data)
print("patched", path, "crlf" if crlf else "lf")
