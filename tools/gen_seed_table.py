#!/venv/bin/python
"""Rebuild (a) selftest/mutants/seeded.json — one must-fire mutant per (stored seed, rule that reports it) — and (b) the seed
table + counts of DESIGN.md section 12.4, from seeded/*/meta.json and seeded/descriptions.json."""
import glob, json, os, re
V = os.path.dirname(os.path.dirname(os.path.abspath(__file__)))
desc = json.load(open(os.path.join(V, "seeded", "descriptions.json")))
metas = {}
for d in sorted(glob.glob(os.path.join(V, "seeded", "C*"))):
    m = json.load(open(os.path.join(d, "meta.json")))
    if m.get("retired"):
        continue          # a later repair made this change harmless (see its meta.json)
    metas[m["id"]] = m
# (a)
out = []
for sid, m in metas.items():
    for r in m.get("detected_by") or []:
        n = int(re.match(r"R(\d+)\.", r).group(1))
        out.append({"id": "seed-%s-%s" % (sid.lower(), r.lower()), "property": "C%02d" % n, "rule": r, "expect": "fire",
                    "patch": "seeded/%s/patch.diff" % sid,
                    "note": "independently seeded change (sub-agent), see seeded/%s/meta.json" % sid})
json.dump(out, open(os.path.join(V, "selftest", "mutants", "seeded.json"), "w"), indent=1)
# (b)
rows = []
for sid, m in metas.items():
    det = m.get("detected_by") or []
    rows.append("| %s | %s | %s |" % (sid, desc[sid]["what"], ("**%s**" % ", ".join(det)) if det else "not detected — " + (desc[sid]["why_not"] or "behavioural")))
cnt = {}
for sid, m in metas.items():
    rnd = {"A": 1, "B": 1, "C": 2, "D": 2, "E": 3, "F": 3, "G": 4, "H": 4, "I": 5, "J": 5, "K": 6, "L": 6}[sid[-1]]
    c = cnt.setdefault(rnd, [0, 0]); c[1] += 1; c[0] += bool(m.get("detected_by"))
p = os.path.join(V, "DESIGN.md")
s = open(p).read()
a = s.index("| Change | What it does | Detected by (rule) / why not |")
b = s.index("\n\n", a)
s = s[:a] + "| Change | What it does | Detected by (rule) / why not |\n|--------|--------------|------------------------------|\n" + "\n".join(rows) + s[b:]
tot = sum(c[0] for c in cnt.values()); n = sum(c[1] for c in cnt.values())
line = "* **Today** (all rules of section 12.5): " + "; ".join("round %d: %d of %d" % (r, cnt[r][0], cnt[r][1]) for r in sorted(cnt)) + \
       "; together %d of %d. Must-fire (change, rule) pairs in the self-test: %d." % (tot, n, len(out))
if "* **Today** (all rules" in s:
    s = re.sub(r"\* \*\*Today\*\* \(all rules[^\n]*", line, s)
else:
    s = s.replace("* The remaining ", line + "\n* The remaining ", 1)
open(p, "w").write(s)
print(line)
