#!/venv/bin/python
"""Re-run the checks against every stored seed (already confirmed: demo + pinned tests recorded in meta.json):
   git -C /repo apply seeded/<id>/patch.diff ; ./check all --no-write ; git -C /repo checkout -- .
and refresh detected_by / reports in seeded/<id>/meta.json.   usage: recheck_seeds.py [ids or property prefixes...]"""
import glob, json, os, subprocess, sys
V = os.path.dirname(os.path.dirname(os.path.abspath(__file__)))
NOISE = "WARNING conda"


def sh(cmd, cwd=None):
    p = subprocess.run(cmd, shell=True, cwd=cwd, capture_output=True, text=True)
    return p.returncode, "\n".join(l for l in (p.stdout + p.stderr).splitlines() if NOISE not in l)


only = sys.argv[1:]
rows = []
for d in sorted(glob.glob(os.path.join(V, "seeded", "C*"))):
    sid = os.path.basename(d)
    if only and not any(sid == o or sid.startswith(o + "-") for o in only):
        continue
    if json.load(open(os.path.join(d, "meta.json"))).get("retired"):
        continue
    rc, out = sh("git -C /repo status --porcelain")
    assert not out.strip(), "/repo not clean: %s" % out
    rc, out = sh("git -C /repo apply --whitespace=nowarn %s/patch.diff" % d)
    if rc != 0:
        print(sid, "patch does not apply:", out[-200:]); continue
    try:
        rc, out = sh("./check all --no-write", cwd=V)
    finally:
        sh("git -C /repo checkout -- .")
    lines = out.splitlines()
    det, cur = [], {}
    for l in lines:
        ls = l.strip()
        if ls.startswith("rule      :"):
            cur = {"rule": ls.split(":", 1)[1].strip().split(" ")[0]}
        elif ls.startswith("where     :"):
            cur["where"] = ls.split(":", 1)[1].strip()
        elif ls.startswith("problem   :"):
            cur["problem"] = ls.split(":", 1)[1].strip()[:300]
            det.append(cur)
    viol = [l for l in lines if l.startswith("VIOLATION")]
    aerr = [l for l in lines if l.startswith("ANALYSIS-ERROR")]
    mp = os.path.join(d, "meta.json")
    m = json.load(open(mp))
    m["detected_by"] = sorted({r["rule"] for r in det}) if viol else []
    m["violating_properties"] = sorted({l.split("property=")[1].split()[0] for l in viol})
    m["reports"] = det if viol else []
    m["analysis_errors"] = aerr
    json.dump(m, open(mp, "w"), indent=1)
    print("%-7s rc=%d detected=%-5s by=%s props=%s%s" % (sid, rc, bool(viol), m["detected_by"], m["violating_properties"],
                                                       (" " + str(aerr)) if aerr else ""), flush=True)
