#!/venv/bin/python
"""Insert a block of rule code at the end of run(ctx) in rules/<mod>.py: add_rule_block.py c07 < block.py"""
import ast, sys
mod = sys.argv[1]
p = "/verif/rules/%s.py" % mod
src = open(p).read()
tree = ast.parse(src)
run = [n for n in tree.body if isinstance(n, ast.FunctionDef) and n.name == "run"][0]
lines = src.split("\n")
end = run.end_lineno
block = sys.stdin.read().rstrip("\n").split("\n")
lines[end:end] = [""] + block
open(p, "w").write("\n".join(lines))
ast.parse(open(p).read())
print("inserted %d lines after line %d of %s" % (len(block), end, p))
