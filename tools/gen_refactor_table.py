#!/venv/bin/python
"""Rebuild selftest/mutants/refactors.json (one must-stay-silent whole-patch mutant per stored behaviour-preserving
refactoring under /verif/refactors) and print a summary."""
import glob, json, os
V = os.path.dirname(os.path.dirname(os.path.abspath(__file__)))
out = []
fa = 0
for d in sorted(glob.glob(os.path.join(V, "refactors", "C*"))):
    m = json.load(open(os.path.join(d, "meta.json")))
    fa += bool(m.get("false_alarm"))
    out.append({"id": "refactor-" + m["id"].lower(), "property": m["property"], "rule": "-", "expect": "silent", "all_checks": True,
                "patch": "refactors/%s/patch.diff" % m["id"],
                "note": "behaviour-preserving refactoring by a sub-agent (digest equal, stable tests pass); first contact: %s"
                        % ("FALSE ALARM " + "; ".join(m.get("reports", []) + m.get("analysis_errors", []))[:200] if m.get("false_alarm") else "silent")})
json.dump(out, open(os.path.join(V, "selftest", "mutants", "refactors.json"), "w"), indent=1)
print("%d refactorings, %d raised a false alarm at first contact" % (len(out), fa))
