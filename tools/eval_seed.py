#!/venv/bin/python
"""Confirm and evaluate one seeded change.

usage: eval_seed.py <seed-id> <property> <patch.diff> <demo.py> [--keep] [--skip-tests]

Steps (all on scratch exports of /repo's HEAD outside /repo and /verif, removed afterwards):
  1. demo on the clean export        -> must exit 0
  2. demo with the patch applied     -> must exit non-zero
  3. pinned test suite with the patch -> every stable_pass test of /root/.vp/BASELINE.json must pass
  4. the checks: patch applied to /repo itself (git apply), `./check all --no-write`, then `git checkout -- .`
With --keep the seed is stored as /verif/seeded/<seed-id>/ (patch.diff, demo, meta.json).
"""
import json
import os
import shutil
import subprocess
import sys
import xml.etree.ElementTree as ET

VERIF = os.path.dirname(os.path.dirname(os.path.abspath(__file__)))
PY = "/venv/bin/python"


def sh(cmd, cwd=None, env=None, timeout=1800):
    e = dict(os.environ)
    if env:
        e.update(env)
    p = subprocess.run(cmd, shell=True, cwd=cwd, env=e, capture_output=True, text=True, timeout=timeout)
    return p.returncode, p.stdout + p.stderr


def export(dst):
    shutil.rmtree(dst, ignore_errors=True)
    os.makedirs(dst)
    rc, out = sh("git -C /repo archive HEAD | tar -x -C %s" % dst)
    assert rc == 0, out


def main():
    args = [a for a in sys.argv[1:] if not a.startswith("--")]
    flags = [a for a in sys.argv[1:] if a.startswith("--")]
    sid, prop, patch, demo = args[:4]
    patch, demo = os.path.abspath(patch), os.path.abspath(demo)
    res = {"id": sid, "property": prop}
    clean, dirty = "/tmp/seed_clean_%s" % sid, "/tmp/seed_dirty_%s" % sid
    try:
        export(clean)
        export(dirty)
        rc, out = sh("git apply --whitespace=nowarn %s" % patch, cwd=dirty)
        if rc != 0:
            rc, out = sh("patch -p1 < %s" % patch, cwd=dirty)
        res["patch_applies"] = rc == 0
        if rc != 0:
            res["error"] = out[-400:]
            print(json.dumps(res, indent=1))
            return 1
        shutil.copy(demo, os.path.join(clean, "_demo.py"))
        shutil.copy(demo, os.path.join(dirty, "_demo.py"))
        rc0, out0 = sh("%s _demo.py" % PY, cwd=clean, env={"PYTHONPATH": clean}, timeout=600)
        rc1, out1 = sh("%s _demo.py" % PY, cwd=dirty, env={"PYTHONPATH": dirty}, timeout=600)
        res["demo_clean_rc"], res["demo_patched_rc"] = rc0, rc1
        res["demo_patched_tail"] = "\n".join(l for l in out1.splitlines() if "WARNING conda" not in l)[-500:]
        if rc0 != 0:
            res["demo_clean_tail"] = out0[-500:]
        if "--skip-tests" not in flags:
            os.remove(os.path.join(dirty, "_demo.py"))
            rc, out = sh("%s -m pytest -q -p no:cacheprovider --timeout=900 --continue-on-collection-errors "
                         "--junitxml=%s/junit.xml" % (PY, dirty), cwd=dirty, env={"PYTHONPATH": dirty})
            stable = set(json.load(open("/root/.vp/BASELINE.json"))["stable_pass"])
            passed = set()
            for tc in ET.parse(dirty + "/junit.xml").getroot().iter("testcase"):
                if not any(c.tag in ("failure", "error", "skipped") for c in tc):
                    passed.add(tc.get("classname") + "::" + tc.get("name"))
            res["stable_failing"] = sorted(stable - passed)
        if "--no-checks" in flags:
            res["confirmed"] = res["demo_clean_rc"] == 0 and res["demo_patched_rc"] != 0 and not res.get("stable_failing")
            print(json.dumps(res, indent=1))
            return 0
        # the checks, on /repo itself
        rc, out = sh("git -C /repo status --porcelain")
        assert not out.strip().replace("WARNING conda.cli.condarc:set_key(484): Key auto_activate_base is an alias of auto_activate; setting value with latter", "").strip(), "/repo not clean: %s" % out
        rc, out = sh("git -C /repo apply --whitespace=nowarn %s" % patch)
        try:
            rc, out = sh("./check all --no-write", cwd=VERIF)
            res["check_rc"] = rc
            lines = [l for l in out.splitlines() if "WARNING conda" not in l]
            res["violations"] = [l for l in lines if l.startswith("VIOLATION")]
            res["analysis_errors"] = [l for l in lines if l.startswith("ANALYSIS-ERROR")]
            det = []
            cur = {}
            for l in lines:
                ls = l.strip()
                if ls.startswith("rule      :"):
                    cur = {"rule": ls.split(":", 1)[1].strip().split(" ")[0]}
                elif ls.startswith("where     :"):
                    cur["where"] = ls.split(":", 1)[1].strip()
                elif ls.startswith("problem   :"):
                    cur["problem"] = ls.split(":", 1)[1].strip()[:300]
                    det.append(cur)
            res["reports"] = det
        finally:
            sh("git -C /repo checkout -- .")
        res["detected"] = bool(res.get("violations"))
        ok = res["demo_clean_rc"] == 0 and res["demo_patched_rc"] != 0 and not res.get("stable_failing")
        res["confirmed"] = ok
        print(json.dumps(res, indent=1))
        if "--keep" in flags and ok:
            d = os.path.join(VERIF, "seeded", sid)
            os.makedirs(d, exist_ok=True)
            shutil.copy(patch, os.path.join(d, "patch.diff"))
            shutil.copy(demo, os.path.join(d, "demo.py"))
            meta = {"id": sid, "property": prop, "confirmed": ok,
                    "ran": ["demo on clean export of /repo HEAD: exit %d" % rc0,
                            "demo with patch.diff applied: exit %d" % rc1,
                            "pinned test suite with patch applied: stable tests failing = %d" % len(res.get("stable_failing", [])),
                            "git -C /repo apply patch.diff; ./check all; git -C /repo checkout -- ."],
                    "detected_by": sorted({r["rule"] for r in det}), "reports": det,
                    "demo_failure": res["demo_patched_tail"]}
            notes = os.path.join(os.path.dirname(patch), "NOTES.md")
            if os.path.exists(notes):
                meta["author_notes_file"] = "NOTES.md"
                shutil.copy(notes, os.path.join(d, "NOTES.md"))
            with open(os.path.join(d, "meta.json"), "w") as f:
                json.dump(meta, f, indent=1)
        return 0
    finally:
        shutil.rmtree(clean, ignore_errors=True)
        shutil.rmtree(dirty, ignore_errors=True)


if __name__ == "__main__":
    sys.exit(main())
