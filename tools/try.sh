#!/bin/sh
# usage: tools/try.sh <patch.diff> [Cnn ...]   apply to /repo, run checks (no evidence written), undo
P=$(realpath "$1"); shift
git -C /repo apply --whitespace=nowarn "$P" || exit 2
cd "$(dirname "$0")/.." || exit 2
for c in ${@:-all}; do ./check $c --no-write 2>&1 | grep -v "WARNING conda" | grep "rule      :\|where     :\|^C[0-9][0-9]:\|ANALYSIS" ; done
git -C /repo checkout -- .
