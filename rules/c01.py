"""C01 — every enumerated HED rule is wired: registered under the specification's code and severity,
emitted at a site reachable from HedValidator.validate in the phase the two-phase design needs,
with call-site arguments that bind to the registered message function, and with no issue list
dropped on the way back."""
import ast

from sa import wiring
from sa.callgraph import STRONG_KINDS, PRECISE
from sa.dataflow import UNKNOWN
from sa.issues import check_no_dropped_issues
from sa.model import call_name, loc, walk_no_nested, norm
from sa.registry import get_registry

LEVEL_TEXT = ("Static structural proof of necessary conditions, not of the property: for each of the 45 internal "
              "rule keys of the specification table, registration/code/severity/reachability-in-phase; every "
              "format_error* site in the closure binds to its message function through the decorator wrapper; no "
              "issue list returned inside the validator closure is discarded. Correctness of the rule predicates "
              "themselves (valid => no error; one fault => that code) is NOT decided.")
LEVEL_EXTRA = 'Added after the seeded evaluation: (R1.4) the delimiter scan decides on the blank-stripped token text; (R1.5) no early exit skips a string-level check. (R1.6) no first/last-element access on a possibly empty list in the validators (validation reports, it does not raise IndexError). (R1.7) every setting a validator constructor stores on the object is read somewhere (one frozen exception). (R1.8) a def-tag search over a whole annotation in the validators is recursive; R1.3 also reports an issue accumulator that is plainly re-assigned before it was read. (R1.9) tag objects are not compared with DefTagNames keys directly. (R1.10) a parameter is handed on to every repository callee that takes a parameter of the same name (11 frozen exceptions package-wide). (R1.11) a setting handed to one sub-validator constructor in HedValidator.__init__ is handed to every sibling constructor that takes a parameter of that name; R1.3 also reports an issue list that a loop plainly re-assigns without it having been read.'


def signature_rule(ctx, rule, funcs, floor_sites):
    """R1.2/R12.1: every key at a site is registered and the arguments bind."""
    reg = get_registry(ctx)
    n = 0
    keys = set()
    for s in reg.sites:
        if funcs is not None and s.fi not in funcs:
            continue
        n += 1
        ctx.count_sites()
        ctx.saw(s.fi)
        if not s.keys or s.keys == {UNKNOWN}:
            ctx.xref(rule, s.where, "key of this emission could not be resolved statically")
            continue
        for k in s.keys:
            if k is UNKNOWN:
                continue
            keys.add(k)
            e = reg.entries.get(k)
            if e is None:
                ctx.violation(rule, s.fi.qualname, s.call, s.where,
                              "key %r is not registered with @hed_error/@hed_tag_error: the issue gets the "
                              "'Unknown error' message" % (k,))
                continue
            msg = reg.bind_error(s, e)
            ctx.check(msg is None, rule, s.fi.qualname, s.call, s.where,
                      "arguments do not bind to %s registered under %r: %s — a TypeError exactly when this rule "
                      "fires" % (e.func.name, k, msg),
                      desc="site binds to %s(%s)" % (e.func.name, k))
    ctx.floor(rule, "format_error* sites", n, floor_sites)
    return n, keys


def run(ctx):
    prog, cg = ctx.prog, ctx.cg
    ctx.rule("R1.1", "each specification rule key is registered with the published code and severity, and an "
                     "emission site is reachable from HedValidator.validate in its phase")
    ctx.rule("R1.2", "every format_error* call in the validator closure binds to the registered message function")
    ctx.rule("R1.3", "no issue list returned inside the validator closure is discarded")
    ctx.assume("call-graph reach is over-approximated (name-based edges for untyped receivers): a reported "
               "unreachable rule is definite, a reachable verdict may be optimistic")
    ctx.assume("no getattr/exec-based dispatch in the validator closure")
    entry = prog.find_method("HedValidator", "validate")
    phases = {"basic": prog.find_method("HedValidator", "run_basic_checks"),
              "full": prog.find_method("HedValidator", "run_full_string_checks")}
    table = wiring.load_table("c01_rules.json")
    n = wiring.check_wiring(ctx, "R1.1", table["rows"], entry, phases)
    ctx.floor("R1.1", "rule keys", n, 45)
    wiring.check_override_codes(ctx, "R1.1", entry, table["required_overrides"], phases=phases)
    # both phases must be reached on the *precise* graph from validate (typed receivers)
    for name, f in phases.items():
        ctx.check(f in cg.reachable([entry], PRECISE), "R1.1", entry.qualname, "phase " + name, loc(entry, entry.node),
                  "HedValidator.validate no longer calls %s" % f.short, desc="validate reaches %s" % f.short)
    closure = cg.reachable([entry], STRONG_KINDS)
    signature_rule(ctx, "R1.2", closure, 40)
    scope = [f for f in closure if f.module.name.startswith("hed.validator")]
    ctx.floor("R1.3", "validator functions in closure", len(scope), 45)
    check_no_dropped_issues(ctx, "R1.3", scope)
    ctx.rule("R1.7", "every setting a validator's constructor stores on the object is read somewhere (no rule variant silently switched off)")
    ext_loads = set()          # attribute reads on a receiver other than `self` (any module), and getattr/hasattr names
    for m_ in prog.modules.values():
        for x in ast.walk(m_.tree):
            if isinstance(x, ast.Attribute) and isinstance(x.ctx, ast.Load) and not (isinstance(x.value, ast.Name) and x.value.id == "self"):
                ext_loads.add(x.attr)
            elif isinstance(x, ast.Call) and call_name(x) in ("getattr", "hasattr") and len(x.args) >= 2 and isinstance(x.args[1], ast.Constant):
                ext_loads.add(x.args[1].value)

    def self_loads(cls):
        out = set()
        for k in set(cls.mro()) | set(cls.all_subclasses()):
            for m2 in k.all_methods:
                for x in ast.walk(m2.node):
                    if isinstance(x, ast.Attribute) and isinstance(x.ctx, ast.Load) and isinstance(x.value, ast.Name) and x.value.id == "self":
                        out.add(x.attr)
        return out
    # frozen exception, confirmed by reading: the flag was consumed by a code path that is commented out; value classes are
    # validated through CharRexValidator for every schema generation (the character validator proper keeps its own flag)
    DEAD_OK = {("UnitValueValidator", "_validate_characters"): "retired code path; value-class checks do not depend on the schema generation"}
    n_fields = 0
    for c_ in prog.classes.values():
        if not c_.module.name.startswith("hed.validator"):
            continue
        init = c_.methods.get("__init__")
        if init is None:
            continue
        loads = self_loads(c_) | ext_loads
        for st in walk_no_nested(init.node):
            if isinstance(st, ast.Assign):
                for t in st.targets:
                    if isinstance(t, ast.Attribute) and isinstance(t.value, ast.Name) and t.value.id == "self":
                        n_fields += 1
                        ctx.saw(init)
                        if (c_.name, t.attr) in DEAD_OK:
                            ctx.ok("R1.7", "%s.%s unread on purpose — %s" % (c_.name, t.attr, DEAD_OK[(c_.name, t.attr)]), loc(init, st))
                            continue
                        ctx.check(t.attr in loads, "R1.7", init.qualname, st, loc(init, st),
                                  "`self.%s` is stored by the constructor and never read anywhere in the package: the behaviour it "
                                  "selects (e.g. the pre-8.3 vs 8.3 character rules) is the same for every configuration, so one "
                                  "schema generation is validated by the other's rules" % t.attr,
                                  desc="%s.%s is read somewhere" % (c_.name, t.attr))
    ctx.floor("R1.7", "fields stored by validator constructors", n_fields, 12)
    ctx.rule("R1.6", "no first/last-element access on a possibly empty list in the validators (validation reports, it does not raise)")
    from sa.firstelem import check_first_elem
    nfe = check_first_elem(ctx, "R1.6", [f for f in prog.functions.values() if f.module.name.startswith("hed.validator")],
                           "An annotation with empty groups (`(),()`) is a one-fault input that must draw TAG_EMPTY.")
    ctx.floor("R1.6", "first/last-element accesses in the validators", nfe, 8)
    ctx.rule("R1.5", "every string-level check runs on every string (no early exit skips the delimiter / parenthesis checks)")
    from rules.c02 import string_checks_always_run
    string_checks_always_run(ctx, "R1.5")
    ctx.rule("R1.4", "the delimiter scan decides on the blank-stripped form of the accumulated text (empty-delimiter rule)")
    from rules.c04 import delimiter_scan_rule
    delimiter_scan_rule(ctx, "R1.4")

    # ---------------- R1.8: definitions used anywhere in the annotation are checked, not only at its top level
    ctx.rule("R1.8", "a def-tag search over a whole annotation (a parameter) in the validators is recursive")
    from sa.dataflow import ReachingDefs as _RD1
    n_rec = 0
    for f in prog.functions.values():
        if not f.module.name.startswith("hed.validator"):
            continue
        params = set(f.params())
        rd1 = None
        for c in walk_no_nested(f.node):
            if not (isinstance(c, ast.Call) and isinstance(c.func, ast.Attribute) and c.func.attr in ("find_def_tags", "find_tags")):
                continue
            recv = c.func.value
            whole = isinstance(recv, ast.Name) and recv.id in params
            if not whole and isinstance(recv, ast.Name):
                rd1 = rd1 or _RD1(f)
                ds = rd1.at(c, recv.id) or []
                whole = bool(ds) and all(d.kind == "assign" and isinstance(d.value, ast.Call) and call_name(d.value) == "HedString" for d in ds)
            if not whole:
                continue
            n_rec += 1
            ctx.saw(f)
            rec = cg.arg(c, "recursive")
            if rec is None and id(c) not in cg.param_order:
                pos = {"find_tags": 1, "find_def_tags": 0}[c.func.attr]
                rec = c.args[pos] if len(c.args) > pos else None
            ok = isinstance(rec, ast.Constant) and rec.value is True
            ctx.check(ok, "R1.8", f.qualname, c, loc(f, c),
                      "the search for Def/Def-expand (or Definition) tags over the whole annotation is not recursive: a faulty Def inside a "
                      "group — `(Def/Undeclared, Blue)` — is never looked at, so the violation is reported only at the top level",
                      desc="%s: whole-annotation search is recursive" % f.short)
    ctx.floor("R1.8", "whole-annotation def searches in the validators", n_rec, 2)

    # ---------------- R1.9: which kind a tag is, is decided on its short base tag, never by comparing the tag object with a name
    ctx.rule("R1.9", "tag objects drawn from children/tag lists are not compared (==, !=, in) with DefTagNames keys directly")
    n_kind = 0
    for f in prog.functions.values():
        if not (f.module.name.startswith("hed.validator") or f.module.name in ("hed.models.definition_dict", "hed.models.df_util")):
            continue
        pm9 = {id(ch): p_ for p_ in ast.walk(f.node) for ch in ast.iter_child_nodes(p_)}

        def binding_iter(name_node):
            """The iterable of the nearest enclosing comprehension / for loop that binds this name."""
            cur = name_node
            while id(cur) in pm9:
                par = pm9[id(cur)]
                if isinstance(par, (ast.ListComp, ast.SetComp, ast.GeneratorExp, ast.DictComp)):
                    for g in par.generators:
                        if isinstance(g.target, ast.Name) and g.target.id == name_node.id:
                            return g.iter
                if isinstance(par, ast.For) and isinstance(par.target, ast.Name) and par.target.id == name_node.id \
                        and any(cur is b or any(cur is y for y in ast.walk(b)) for b in par.body):
                    return par.iter
                cur = par
            return None

        def is_obj(name_node):
            it = binding_iter(name_node)
            if it is None:
                return False
            txt = norm(it)
            return any(k in txt for k in ("children", "get_all_tags", ".tags()", "get_all_groups", ".groups()")) or \
                (isinstance(it, ast.Name) and it.id in ("children", "tags", "groups"))
        for c in ast.walk(f.node):
            if not (isinstance(c, ast.Compare) and len(c.ops) == 1 and isinstance(c.ops[0], (ast.Eq, ast.NotEq, ast.In, ast.NotIn))):
                continue
            sides = [c.left, c.comparators[0]]
            if not any("DefTagNames." in norm(s_) for s_ in sides):
                continue
            n_kind += 1
            other = [s_ for s_ in sides if "DefTagNames." not in norm(s_)]
            bad = [s_ for s_ in other if isinstance(s_, ast.Name) and is_obj(s_)]
            ctx.saw(f)
            ctx.check(not bad, "R1.9", f.qualname, c, loc(f, c),
                      "a tag object is compared with a tag name: HedTag equality with a string compares the whole tag text, so "
                      "`Delay/3 s` is not recognised as a Delay tag and the group is reported for its extra child",
                      desc="%s: tag kind tested on a name attribute" % f.short)
    ctx.floor("R1.9", "comparisons with DefTagNames keys in the validators", n_kind, 10)

    # ---------------- R1.10: parameters are handed on to same-named parameters of repository callees
    from sa.forward import check_forwarding
    nfw = check_forwarding(ctx, "R1.10", [f for f in prog.functions.values() if f.module.name.startswith(('hed.validator',))], 'e.g. placeholders allowed, error code, offsets')
    ctx.floor("R1.10", "same-named parameter sites", nfw, 1)

    # ---------------- R1.11: the sub-validators are built for the same rule generation
    ctx.rule("R1.11", "a setting handed to one sub-validator constructor in HedValidator.__init__ is handed to every sibling constructor "
                      "that takes a parameter of that name")
    hv11 = prog.find_class("HedValidator").methods.get("__init__")
    if hv11 is None:
        raise AnalysisError("anchor HedValidator.__init__ vanished")
    ctx.saw(hv11)
    cons11 = []
    for c in walk_no_nested(hv11.node):
        if isinstance(c, ast.Call):
            r = prog.resolve_expr(c.func, hv11.module, hv11.cls, hv11)
            init_ = r.find_method("__init__") if hasattr(r, "find_method") else None
            if init_ is not None and r.module.name.startswith("hed.validator"):
                params_ = [p for p in init_.params() if p != "self"]
                given = set(k.arg for k in c.keywords if k.arg) | set(params_[:len(c.args)])
                cons11.append((c, r, params_, given))
    ctx.floor("R1.11", "sub-validator constructions in HedValidator.__init__", len(cons11), 3)
    shared11 = {}
    for c, r, params_, given in cons11:
        for p in given:
            shared11.setdefault(p, []).append(r.name)
    for c, r, params_, given in cons11:
        for p in params_:
            if p in shared11 and p not in given:
                ctx.violation("R1.11", hv11.qualname, c, loc(hv11, c),
                              "%s is built without `%s`, which its sibling %s receives: the sub-validators then apply different rule "
                              "generations (e.g. the whole-string character check falls back to the pre-8.3 ASCII rule and rejects the "
                              "non-ASCII text that an 8.3 schema's value classes allow)" % (r.name, p, ", ".join(sorted(set(shared11[p])))))
            elif p in shared11:
                ctx.ok("R1.11", "%s receives %s" % (r.name, p), loc(hv11, c))
