"""C07 — table validation: context push/pop balance, one row-label adjustment, nothing
None-intolerant consumes a possibly absent conversion before the cells are validated."""
import ast

from sa.callgraph import STRONG_KINDS
from sa.dataflow import ReachingDefs, depends_on
from sa.dom import view, mentions
from sa.model import AnalysisError, call_name, loc, norm, walk_no_nested
from sa.null import check_nullable, named_sources
from sa.stack import check_balance, PUSH

LEVEL_TEXT = ("Static structural proof of necessary conditions: (R7.1) every normal path of the four table-validator "
              "functions leaves the error-context stack as it found it; (R7.2) every row label pushed there is "
              "computed from the single adjustment (1 + header) computed in validate; (R7.3) in the closure of "
              "SpreadsheetValidator.validate no possibly-None conversion result is used arithmetically or "
              "dereferenced unguarded. Equality with string-level validation and shuffle invariance are NOT decided.")
LEVEL_EXTRA = "Added after the seeded evaluation: (R7.4) the column-structure checks see the caller's table, not the onset-sorted copy; (R7.5) the onset pass maps back to file rows through original_index; (R7.6) a row is excluded from the row-level and temporal checks only under an error-severity test. (R7.7) no issue list is discarded inside the table-validation modules; (R7.8) a column assigned during assembly carries the frame's own index; (R7.9) index labels are never used as positions (or vice versa) in the validators and df_util, and the per-row mask is computed over the file's own rows. (R7.10) float()/int() of table cell text only inside a ValueError handler. (R7.11) push_error_context replaces a context value only when it is None, never on a truth test. R7.11 also covers every loop over (context type, value) pairs of the reporter. (R7.12) a parameter is handed on to every repository callee that takes a parameter of the same name (11 frozen exceptions package-wide). R7.8 also covers a default-index Series handed back by the assembly functions."

FUNCS = ["validate", "_run_checks", "_run_onset_checks", "_validate_column_structure"]


def row_context_pushes(prog, f):
    out = []
    for n in walk_no_nested(f.node):
        if isinstance(n, ast.Call) and isinstance(n.func, ast.Attribute) and n.func.attr == PUSH and len(n.args) >= 2:
            v = prog.try_const(n.args[0], f.module, f.cls, f)
            if v == "ec_row":
                out.append(n)
    return out


def _is_original_index(y):
    """`row.original_index`, or the column itself: `df["original_index"]` / `df.original_index`"""
    return (isinstance(y, ast.Attribute) and y.attr == "original_index") or (
        isinstance(y, ast.Subscript) and isinstance(y.slice, ast.Constant) and y.slice.value == "original_index")


def run(ctx):
    prog, cg = ctx.prog, ctx.cg
    ctx.rule("R7.1", "push_error_context/pop_error_context balanced on every normal path (correlated guards enumerated)")
    ctx.rule("R7.2", "every ROW context pushed by the table validator is index + the one adjustment computed in validate")
    ctx.rule("R7.3", "no possibly-None result reaches arithmetic/dereference unguarded in the closure of table validation")
    ctx.assume("normal-path reasoning: exceptions abort validation and are outside these rules")
    cls = prog.find_class("SpreadsheetValidator")
    funcs = []
    for nm in FUNCS:
        m = cls.methods.get(nm)
        if m is None:
            raise AnalysisError("anchor SpreadsheetValidator.%s vanished" % nm)
        funcs.append(m)
    # any other method of the class that pushes/pops is analysed too
    for m in cls.methods.values():
        if m not in funcs and any(isinstance(n, ast.Call) and isinstance(n.func, ast.Attribute)
                                  and n.func.attr in (PUSH, "pop_error_context") for n in walk_no_nested(m.node)):
            funcs.append(m)
    pushes, pops = check_balance(ctx, "R7.1", funcs)
    ctx.floor("R7.1", "push sites", pushes, 7)

    # ---- R7.2
    validate = cls.methods["validate"]
    rd = ReachingDefs(validate)
    # the adjustment variable: the local passed as the same keyword/position to the helpers
    adj_names = set()
    sites = []
    for m in cls.methods.values():
        for call in row_context_pushes(prog, m):
            sites.append((m, call))
    ctx.floor("R7.2", "ROW context pushes", len(sites), 2)
    for m, call in sites:
        expr = call.args[1]
        rdm = ReachingDefs(m) if m is not validate else rd
        params = set(m.params()) - {"self"}
        # which parameters does the label depend on?
        dep_params = {p for p in params if depends_on(rdm, expr, call, lambda x, p=p: isinstance(x, ast.Name) and x.id == p)}
        ok = False
        detail = "the pushed row label %s does not depend on the header/1-based adjustment" % norm(expr)
        if m is validate:
            ok = depends_on(rd, expr, call, lambda x: isinstance(x, ast.Name) and x.id in _adj_locals(validate))
        else:
            # a parameter that, at every call from validate, receives the adjustment local
            for p in dep_params:
                bound = _bound_args(cg, validate, m, p)
                if bound and all(isinstance(b, ast.Name) and b.id in _adj_locals(validate) for b in bound):
                    ok = True
            if not dep_params:
                detail += " (it uses none of the parameters %s)" % sorted(params)
        ctx.check(ok, "R7.2", m.qualname, call, loc(m, call),
                  detail + "; rows would be labelled inconsistently with the other row labels",
                  desc="%s: row label %s derives from validate's adjustment" % (m.short, norm(expr)))
    # the adjustment itself: values {1, 2}, the larger one control-dependent on has_column_names
    adj = _adj_locals(validate)
    ctx.check(bool(adj), "R7.2", validate.qualname, "row adjustment", loc(validate, validate.node),
              "validate no longer computes a row adjustment that depends on has_column_names",
              desc="validate computes the 1-based + header adjustment")

    # ---- R7.4: issues labelled by position in the table are computed on the caller's table, not on the sorted copy
    ctx.rule("R7.4", "column-structure validation runs on the table as given (before any re-ordering of rows)")
    vv = view(ctx, validate)
    pdata = validate.params()[1] if len(validate.params()) > 1 else None
    cs_calls = [(n, c) for (n, c) in vv.calls(lambda c: call_name(c) == "_validate_column_structure")]
    ctx.check(bool(cs_calls), "R7.4", validate.qualname, "call of _validate_column_structure", loc(validate, validate.node),
              "validate no longer runs the column-structure checks", desc="validate runs _validate_column_structure")
    for n, c in cs_calls:
        arg = c.args[0] if c.args else None
        ok = isinstance(arg, ast.Name) and arg.id == pdata
        if ok:
            defs = rd.at(c, arg.id) or []
            ok = all(d.kind == "param" for d in defs)
        ctx.check(ok, "R7.4", validate.qualname, c, loc(validate, c),
                  "the column-structure checks receive a table that may already be the onset-sorted copy: their row labels are "
                  "positions in the sorted copy, not file rows", desc="_validate_column_structure sees the caller's table")
    # ---- R7.5: rows are mapped back to file rows through original_index everywhere in the onset pass
    ctx.rule("R7.5", "the onset pass identifies file rows by original_index (skip set membership and row labels)")
    roc = cls.methods.get("_run_onset_checks")
    if roc is None:
        raise AnalysisError("anchor SpreadsheetValidator._run_onset_checks vanished")
    n_map = 0
    for x in walk_no_nested(roc.node):
        if isinstance(x, ast.Compare) and any(isinstance(o, (ast.In, ast.NotIn)) for o in x.ops) and \
                "invalid_original_rows" in norm(x.comparators[0]):
            n_map += 1
            by_index = (isinstance(x.left, ast.Attribute) and x.left.attr == "original_index") or depends_on(
                ReachingDefs(roc), x.left, x, _is_original_index)
            ctx.check(by_index, "R7.5", roc.qualname, x, loc(roc, x),
                      "membership in the set of file rows that already failed is tested with `%s`, which is not the row's "
                      "original_index: after sorting / Delay splitting the wrong time point is skipped" % norm(x.left),
                      desc="failed-row skip uses original_index")
    for call in row_context_pushes(prog, roc):
        n_map += 1
        ctx.check(depends_on(ReachingDefs(roc), call.args[1], call, _is_original_index), "R7.5",
                  roc.qualname, call, loc(roc, call), "the row label pushed in the onset pass does not derive from original_index",
                  desc="onset-pass row label derives from original_index")
    ctx.floor("R7.5", "file-row mappings in the onset pass", n_map, 2)

    # ---- R7.6: only an error disqualifies a row from the full-string and temporal checks
    ctx.rule("R7.6", "a row is excluded from the full-row and temporal checks only when its cells produced an error (not a warning)")
    rc = cls.methods.get("_run_checks")
    if rc is None:
        raise AnalysisError("anchor SpreadsheetValidator._run_checks vanished")
    vrc = view(ctx, rc)
    marks = [(n_, c) for (n_, c) in vrc.calls(lambda c: isinstance(c.func, ast.Attribute) and c.func.attr == "add"
                                              and "invalid_original_rows" in norm(c.func.value))]
    for n_, c in marks:
        rdc = ReachingDefs(rc)
        is_err_test = lambda y: isinstance(y, ast.Call) and call_name(y) == "check_for_any_errors"
        g = vrc.guard_for(n_, lambda t: depends_on(rdc, t, t, is_err_test))
        ctx.check(g is not None and g[1] is True, "R7.6", rc.qualname, c, loc(rc, c),
                  "the row is marked as failed (and skipped by the full-row and temporal checks) without an error-severity test "
                  "of its cell issues: a row whose cells only draw warnings loses its row-level errors and its Onset/Offset markers",
                  desc="row marked failed only under check_for_any_errors(...)")
    ctx.floor("R7.6", "sites marking a row as failed", len(marks), 1)

    # ---- R7.8: values computed row by row are put back by position, not by index label
    ctx.rule("R7.8", "a column assigned during assembly carries the frame's own index (no default-index Series aligned by label)")
    n_cols = 0
    for f in prog.functions.values():
        if f.module.name not in ("hed.models.df_util", "hed.models.base_input", "hed.models.column_mapper"):
            continue
        rdf = None
        for st in walk_no_nested(f.node):
            if not (isinstance(st, ast.Assign) and len(st.targets) == 1 and isinstance(st.targets[0], ast.Subscript)
                    and isinstance(st.targets[0].value, ast.Name)):
                continue
            vals = [st.value]
            if isinstance(st.value, ast.Name):
                rdf = rdf or ReachingDefs(f)
                vals = [d.value for d in (rdf.at(st, st.value.id) or []) if d.kind == "assign" and d.value is not None]
            for v_ in vals:
                if isinstance(v_, ast.Call) and call_name(v_) == "Series" and not any(k.arg == "index" for k in v_.keywords) \
                        and v_.args and not isinstance(v_.args[0], (ast.Dict, ast.Name, ast.Attribute)):
                    n_cols += 1
                    ctx.saw(f)
                    ok = False
                    why = ""
                    if f.name == "_filter_by_index_list":
                        # frozen exception: its only DataFrame caller resets the index to 0..n-1 immediately before
                        sdt = prog.find_function("df_util.split_delay_tags")
                        vs = view(ctx, sdt)
                        resets = [n_ for (n_, c) in vs.calls(lambda c: call_name(c) == "reset_index")]
                        filt = [n_ for (n_, c) in vs.calls(lambda c: call_name(c) == "filter_series_by_onset")]
                        others = [c_ for (k, c_, n_) in cg.callers.get(f, []) if k in ("precise", "name") and c_.name not in ("filter_series_by_onset",)]
                        ok = bool(resets) and bool(filt) and all(any(vs.dominates(r, x) for r in resets) for x in filt) and not others
                        why = " (exception for _filter_by_index_list no longer holds: split_delay_tags must reset the index before filtering)"
                    ctx.check(ok, "R7.8", f.qualname, st, loc(f, st),
                              "`%s` assigns a Series built with the default index 0..n-1 into `%s`: pandas aligns it by index label, so "
                              "when the frame's index is not 0..n-1 in order (the validator sorts unordered files and keeps the labels) "
                              "each value lands in the row whose *label* equals its *position* — annotations and row labels no longer "
                              "follow the rows%s" % (norm(st)[:60], norm(st.targets[0].value), why),
                              desc="%s: column assigned with the frame's index" % f.short)
    # the same for a Series handed back: the callers (series_a, the validators) pair it with the frame's rows by label
    for f in prog.functions.values():
        if f.module.name not in ("hed.models.df_util", "hed.models.base_input", "hed.models.column_mapper"):
            continue
        for st in walk_no_nested(f.node):
            if isinstance(st, ast.Return) and isinstance(st.value, ast.Call) and call_name(st.value) == "Series" \
                    and not any(k.arg == "index" for k in st.value.keywords) and st.value.args \
                    and not isinstance(st.value.args[0], (ast.Dict, ast.Name, ast.Attribute)) and len(st.value.args) < 2:
                n_cols += 1
                ctx.saw(f)
                ctx.violation("R7.8", f.qualname, st, loc(f, st),
                              "`%s` hands back a Series built with the default index 0..n-1 from the rows of a frame: for a frame whose "
                              "index is not 0..n-1 in order (the validator sorts unordered files and keeps the labels) the values no longer "
                              "carry the labels of their rows, so annotations attach to the wrong onsets and issues move to other rows"
                              % norm(st)[:70])
    ctx.ok("R7.8", "%d default-index Series assigned into a frame column in the assembly modules (only the frozen exception)" % n_cols, "")

    # ---- R7.9: index labels and positions are not interchanged
    ctx.rule("R7.9", "an index label (iterrows/items/.index) is never used as a position (.iloc/.iat) nor a position as a label; "
                     "the per-row mask consulted with file-row labels is computed over the file's rows")
    from sa.labels import confusions
    n_idx = 0
    for f in prog.functions.values():
        if not (f.module.name.startswith("hed.validator.") or f.module.name == "hed.models.df_util"):
            continue
        k, conf = confusions(f)
        n_idx += k
        if k:
            ctx.saw(f)
        for sub, var, what in conf:
            ctx.violation("R7.9", f.qualname, sub, loc(f, sub),
                          "`%s`: %s (`%s`). The two agree only while the index is 0..n-1 in order; the table validator sorts "
                          "unordered files (and n/a onsets sort last) keeping the labels, so another row's value is read and the "
                          "row is skipped or checked twice" % (norm(sub)[:50], what, var))
    ctx.ok("R7.9", "%d .iloc/.iat/.loc/.at uses in the validators and df_util: no label/position confusion" % n_idx, "")
    ctx.floor("R7.9", "indexer uses in the validators and df_util", n_idx, 3)
    # the mask handed to the per-row pass is indexed there by file-row label: it must not be computed from the split table
    rdv = ReachingDefs(validate)
    n_mask = 0
    for c in walk_no_nested(validate.node):
        if isinstance(c, ast.Call) and call_name(c) == "_run_checks":
            class _KW:      # (keyword or positional: both forms of passing the mask)
                def __init__(self, arg, value):
                    self.arg, self.value = arg, value
            masks = [_KW(kw.arg, kw.value) for kw in c.keywords if kw.arg and "mask" in kw.arg]
            masks += [_KW(pn, cg.arg(c, pn)) for pn in cg.param_order.get(id(c), []) if "mask" in pn and cg.arg(c, pn) is not None
                      and pn not in {m.arg for m in masks}]
            for kw in masks:
                if kw.arg and "mask" in kw.arg:
                    n_mask += 1
                    bad = depends_on(rdv, kw.value, c, lambda y: isinstance(y, ast.Call) and call_name(y) == "split_delay_tags")
                    ctx.check(not bad, "R7.9", validate.qualname, c, loc(validate, c),
                              "the per-row mask `%s` is computed from the result of split_delay_tags (rows sorted, Delay groups added, "
                              "index renumbered) but `_run_checks` looks it up with the file row's label" % norm(kw.value),
                              desc="per-row mask computed over the file's own rows")
    ctx.floor("R7.9", "masks passed to the per-row pass", n_mask, 1)

    # ---- R7.10: cell text is converted to a number only where a failure is caught
    ctx.rule("R7.10", "float()/int() of table cell text in the table-validation path is inside a handler for ValueError (cells may hold n/a or any text)")
    n_conv = 0
    for f in prog.functions.values():
        if f.module.name not in ("hed.models.df_util", "hed.validator.spreadsheet_validator", "hed.models.base_input"):
            continue
        pm = None
        for c in walk_no_nested(f.node):
            if isinstance(c, ast.Call) and isinstance(c.func, ast.Name) and c.func.id in ("float", "int") and c.args and \
                    any(isinstance(x, ast.Subscript) for x in ast.walk(c.args[0])):
                n_conv += 1
                ctx.saw(f)
                if pm is None:
                    pm = {}
                    for p_ in ast.walk(f.node):
                        for ch in ast.iter_child_nodes(p_):
                            pm[id(ch)] = p_
                cur, caught = c, False
                while id(cur) in pm:
                    par = pm[id(cur)]
                    if isinstance(par, ast.Try) and any(cur is b or any(cur is y for y in ast.walk(b)) for b in par.body):
                        for h in par.handlers:
                            names = [norm(h.type)] if h.type is not None and not isinstance(h.type, ast.Tuple) else \
                                ([norm(e) for e in h.type.elts] if h.type is not None else ["BaseException"])
                            if any(nm.split(".")[-1] in ("ValueError", "Exception", "BaseException") for nm in names):
                                caught = True
                    cur = par
                ctx.check(caught, "R7.10", f.qualname, c, loc(f, c),
                          "`%s` converts the text of a table cell outside any handler for ValueError: a cell holding `n/a` (or any "
                          "non-numeric text) makes file validation raise instead of returning issues" % norm(c)[:50],
                          desc="%s: `%s` guarded by a ValueError handler" % (f.short, norm(c)[:30]))
    ctx.floor("R7.10", "numeric conversions of cell text in the table path", n_conv, 1)

    # ---- R7.7: nothing a callee reports is thrown away on the way to the table's result
    ctx.rule("R7.7", "no issue list returned inside the table-validation modules is discarded")
    from sa.issues import check_no_dropped_issues
    mods7 = ("hed.validator.spreadsheet_validator", "hed.models.base_input", "hed.models.column_mapper", "hed.models.tabular_input",
             "hed.models.spreadsheet_input", "hed.validator.onset_validator")
    sc7 = [f for f in prog.functions.values() if f.module.name in mods7]
    ns7 = check_no_dropped_issues(ctx, "R7.7", sc7)
    ctx.floor("R7.7", "issue-producing calls in the table-validation modules", ns7, 10)

    # ---- R7.3
    closure = cg.reachable([validate], STRONG_KINDS)
    scope = [f for f in closure if f.module.name.startswith(("hed.validator", "hed.models"))]
    ctx.floor("R7.3", "functions in closure", len(scope), 60)
    n = check_nullable(ctx, "R7.3", scope, named_sources(ctx), "frozen nullable table")
    ctx.floor("R7.3", "nullable sources met", n, 5)

    # ---------------- R7.11: a context value that is given is recorded as given (row 0, column 0, key '')
    ctx.rule("R7.11", "push_error_context replaces the context value only when it is None, never on a truth test")
    pec = prog.find_class("ErrorHandler").methods.get("push_error_context")
    if pec is None or len(pec.params()) < 3:
        raise AnalysisError("anchor ErrorHandler.push_error_context(context_type, context) vanished")
    ctx.saw(pec)
    cpar = pec.params()[2]
    v11 = view(ctx, pec)
    n_none = 0
    for c in v11.conds(lambda t: mentions(t, cpar)):
        t = c.ast
        strict = [x for x in ast.walk(t) if isinstance(x, ast.Compare) and isinstance(x.left, ast.Name) and x.left.id == cpar
                  and len(x.ops) == 1 and isinstance(x.ops[0], (ast.Is, ast.IsNot, ast.Eq, ast.NotEq))
                  and isinstance(x.comparators[0], ast.Constant) and x.comparators[0].value is None]
        truthy = []
        stack = [t]
        while stack:
            x = stack.pop()
            if isinstance(x, ast.BoolOp):
                stack.extend(x.values)
            elif isinstance(x, ast.UnaryOp) and isinstance(x.op, ast.Not):
                stack.append(x.operand)
            elif isinstance(x, ast.Name) and x.id == cpar:
                truthy.append(x)
        n_none += len(strict) + len(truthy)
        ctx.check(not truthy, "R7.11", pec.qualname, t, loc(pec, t),
                  "the context value is truth-tested: row 0, column 0 of a sheet without a header and the key '' are given values "
                  "but count as missing, so they are replaced by the default and the issue is labelled with the wrong row/column",
                  desc="context tested against None only")
    ctx.floor("R7.11", "tests of the context value in push_error_context", n_none, 1)
    # the same for every loop over (context type, context value) pairs of the reporter
    n_pairs = 0
    for f in prog.functions.values():
        if f.module.name != "hed.errors.error_reporter":
            continue
        for lp in walk_no_nested(f.node):
            if isinstance(lp, ast.For) and isinstance(lp.target, ast.Tuple) and len(lp.target.elts) == 2 \
                    and all(isinstance(e, ast.Name) for e in lp.target.elts) and "type" in lp.target.elts[0].id \
                    and "context" in norm(lp.iter):
                n_pairs += 1
                ctx.saw(f)
                cv = lp.target.elts[1].id
                for t in [x.test for x in ast.walk(lp) if isinstance(x, (ast.If, ast.IfExp, ast.While))]:
                    stack, truthy = [t], False
                    while stack:
                        x = stack.pop()
                        if isinstance(x, ast.BoolOp):
                            stack.extend(x.values)
                        elif isinstance(x, ast.UnaryOp) and isinstance(x.op, ast.Not):
                            stack.append(x.operand)
                        elif isinstance(x, ast.Name) and x.id == cv:
                            truthy = True
                    ctx.check(not truthy, "R7.11", f.qualname, t, loc(f, t),
                              "a context value is truth-tested while contexts are copied into the issue: column 0 of a sheet without "
                              "a header (and row 0, key '') is falsy, so issues of the first column lose their column label",
                              desc="context values not truth-tested")
    ctx.floor("R7.11", "loops over (context type, value) pairs in the reporter", n_pairs, 1)

    # ---------------- R7.12: parameters are handed on to same-named parameters of repository callees
    from sa.forward import check_forwarding
    nfw = check_forwarding(ctx, "R7.12", [f for f in prog.functions.values() if f.module.name.startswith(('hed.validator.spreadsheet_validator', 'hed.models.base_input', 'hed.models.tabular_input', 'hed.models.spreadsheet_input'))], 'e.g. the error handler, the row adjustment, extra definitions')
    ctx.floor("R7.12", "same-named parameter sites", nfw, 1)


def _adj_locals(validate):
    """Locals of validate whose definitions include a constant 1 and an increment / alternative
    under a condition mentioning has_column_names."""
    out = set()
    cands = {}
    for n in walk_no_nested(validate.node):
        if isinstance(n, ast.Assign) and len(n.targets) == 1 and isinstance(n.targets[0], ast.Name):
            cands.setdefault(n.targets[0].id, []).append(n)
        elif isinstance(n, ast.AugAssign) and isinstance(n.target, ast.Name):
            cands.setdefault(n.target.id, []).append(n)
    for name, defs in cands.items():
        has_one = False
        has_hdr = False
        for d in defs:
            if isinstance(d, ast.Assign):
                v = d.value
                if isinstance(v, ast.Constant) and v.value == 1:
                    has_one = True
                if isinstance(v, ast.IfExp) and "has_column_names" in norm(v.test):
                    consts = sorted(x.value for x in (v.body, v.orelse) if isinstance(x, ast.Constant))
                    if consts == [1, 2]:
                        has_one = has_hdr = True
                if isinstance(v, ast.BinOp) and "has_column_names" in norm(v) and \
                        any(isinstance(x, ast.Constant) and x.value == 1 for x in ast.walk(v)):
                    has_one = has_hdr = True
            elif isinstance(d, ast.AugAssign) and isinstance(d.op, ast.Add) and \
                    isinstance(d.value, ast.Constant) and d.value.value == 1:
                # control dependent on has_column_names
                for parent in ast.walk(validate.node):
                    if isinstance(parent, ast.If) and "has_column_names" in norm(parent.test) and \
                            any(x is d for x in ast.walk(parent)):
                        has_hdr = True
        if has_one and has_hdr:
            out.add(name)
    # a local that is only ever a plain copy of an adjustment local is the adjustment too (`row_adj = _computed`)
    grew = True
    while grew:
        grew = False
        for name, defs in cands.items():
            if name not in out and defs and all(isinstance(d, ast.Assign) and isinstance(d.value, ast.Name) and d.value.id in out
                                                for d in defs):
                out.add(name)
                grew = True
    return out


def _bound_args(cg, caller, callee, pname):
    out = []
    for k, c, call in cg.edges.get(caller, []):
        if c is callee and isinstance(call, ast.Call):
            pos = callee.params()
            idx = pos.index(pname) - (1 if pos and pos[0] == "self" else 0)
            b = None
            if 0 <= idx < len(call.args):
                b = call.args[idx]
            for kw in call.keywords:
                if kw.arg == pname:
                    b = kw.value
            if b is not None and b not in out:
                out.append(b)
    return out
