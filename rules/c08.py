"""C08 — sidecar validation: JSON-typed values are type-guarded before use, the reference
screening pass sees the same strings the expansion pass expands, every structural rule is wired,
push/pop balanced."""
import ast

from sa import wiring
from sa.callgraph import STRONG_KINDS
from sa.dataflow import ReachingDefs
from sa.dom import view, mentions
from sa.model import AnalysisError, call_name, loc, norm, walk_no_nested
from sa.null import check_type_guards
from sa.stack import check_balance

LEVEL_TEXT = ("Static structural proof of necessary conditions: (R8.1) in the contract table of functions that touch "
              "values of a decoded JSON sidecar, every type-specific use (method call, subscript, membership, iteration, "
              "dict.update) is dominated by an isinstance test of that value, or the function is called only on the edge "
              "that established the type; (R8.2) the reference-screening pass and the reference-expanding pass obtain each "
              "column's strings through the same accessor chain; (R8.3) the 13 structural sidecar rules are registered "
              "with their published codes and reachable from Sidecar.validate; (R8.4) error contexts balanced. Totality "
              "beyond explicit type guards, 'valid sidecar => no error' and reference expansion over all combinations "
              "are NOT decided.")
LEVEL_EXTRA = "Added after the seeded evaluation: (R8.2) the table indexed by screened reference names is built from the whole sidecar, unfiltered; (R8.5) one reference pattern in all passes; (R8.6) '#' counted on a copy with definitions removed and Def-expand shrunk; (R8.7) results of per-entry loops are accumulated, never last-wins (one frozen exception). (R8.8) no issue list is discarded inside the sidecar validator. (R8.9) every entry passes the placeholder count (known finding F-C08-5 today). (R8.12) every loaded entry reaches the column checks and the reserved-name test is met on every path. (R8.13) a parameter is handed on to every repository callee that takes a parameter of the same name (11 frozen exceptions package-wide)."

ROWS = [
    {"key": "SidecarErrors.BLANK_HED_STRING", "code": None},
    {"key": "SidecarErrors.WRONG_HED_DATA_TYPE", "code": None},
    {"key": "SidecarErrors.UNKNOWN_COLUMN_TYPE", "code": None},
    {"key": "SidecarErrors.SIDECAR_HED_USED", "code": "SIDECAR_INVALID"},
    {"key": "SidecarErrors.SIDECAR_HED_USED_COLUMN", "code": "SIDECAR_INVALID"},
    {"key": "SidecarErrors.SIDECAR_NA_USED", "code": "SIDECAR_INVALID"},
    {"key": "SidecarErrors.INVALID_POUND_SIGNS_VALUE", "code": "PLACEHOLDER_INVALID"},
    {"key": "SidecarErrors.INVALID_POUND_SIGNS_CATEGORY", "code": "PLACEHOLDER_INVALID"},
    {"key": "ColumnErrors.INVALID_COLUMN_REF", "code": "SIDECAR_BRACES_INVALID"},
    {"key": "ColumnErrors.MALFORMED_COLUMN_REF", "code": "SIDECAR_BRACES_INVALID"},
    {"key": "ColumnErrors.NESTED_COLUMN_REF", "code": "SIDECAR_BRACES_INVALID"},
    {"key": "ColumnErrors.SELF_COLUMN_REF", "code": "SIDECAR_BRACES_INVALID"},
    {"key": "DefinitionErrors.BAD_DEFINITION_LOCATION", "code": "DEFINITION_INVALID"},
]

# function -> JSON-typed expressions (by normalised source text) it must guard itself
CONTRACT = [
    ("ColumnMetadata.hed_dict", ["self._source[self.column_name]"], "the column's sidecar entry"),
    ("ColumnMetadata._detect_column_type", ["dict_for_entry", "dict_for_entry['HED']"], "the column entry / its HED value"),
    ("SidecarValidator._check_for_key", ["data"], "a nested sidecar value"),
    ("Sidecar.load_sidecar_files", [("call", "load_sidecar_file")], "the decoded top-level document"),
    ("BidsSidecarFile.is_hed", ["json_dict", ("values-of", "json_dict")], "the merged document / a column entry"),
    ("SidecarValidator._validate_refs", [("values-of-call", "get_hed_strings", "_get_unvalidated_data")],
     "an entry of the column's not-type-validated strings (a JSON null arrives as NaN, not as text)"),
]


def chain_text(rd, expr, at, loop_vars, depth=0):
    """Resolve local aliases to an accessor chain text; loop variables over the sidecar become $col."""
    if depth > 6:
        return norm(expr)
    if isinstance(expr, ast.Name):
        if expr.id in loop_vars:
            defs = rd.at(at, expr.id) or []
            ass = [d for d in defs if d.kind == "assign" and d.value is not None]
            if ass and len(ass) == 1 and not [d for d in defs if d.kind == "for"]:
                return chain_text(rd, ass[0].value, ass[0].node, loop_vars, depth + 1)
            if ass and len(defs) > 1:
                # re-bound inside the loop: resolve the most specific (assignment) definition
                return chain_text(rd, ass[0].value, ass[0].node, loop_vars, depth + 1)
            return "$col"
        defs = rd.at(at, expr.id) or []
        ass = [d for d in defs if d.kind == "assign" and d.value is not None]
        if len(defs) == 1 and ass:
            return chain_text(rd, ass[0].value, ass[0].node, loop_vars, depth + 1)
        return expr.id
    if isinstance(expr, ast.Call):
        return "%s(%s)" % (chain_text(rd, expr.func, at, loop_vars, depth + 1),
                           ", ".join(chain_text(rd, a, at, loop_vars, depth + 1) for a in expr.args))
    if isinstance(expr, ast.Attribute):
        return "%s.%s" % (chain_text(rd, expr.value, at, loop_vars, depth + 1), expr.attr)
    return norm(expr)


def string_chains(ctx, fi):
    """Accessor chains of the per-column strings that fi iterates with `.items()` while looping over the sidecar."""
    rd = ReachingDefs(fi)
    loop_vars = set()
    for lp in walk_no_nested(fi.node):
        if isinstance(lp, ast.For) and isinstance(lp.iter, ast.Name) and lp.iter.id == "sidecar" and isinstance(lp.target, ast.Name):
            loop_vars.add(lp.target.id)
    out = []
    for lp in walk_no_nested(fi.node):
        if isinstance(lp, ast.For) and isinstance(lp.iter, ast.Call) and isinstance(lp.iter.func, ast.Attribute) \
                and lp.iter.func.attr == "items":
            txt = chain_text(rd, lp.iter.func.value, lp, loop_vars)
            if "get_hed_strings" in txt:
                out.append((lp, txt))
    return out


def run(ctx):
    prog, cg = ctx.prog, ctx.cg
    ctx.rule("R8.1", "type-specific uses of JSON-typed values are dominated by an isinstance test (contract table)")
    ctx.rule("R8.2", "reference screening and reference expansion read each column's strings through the same accessor chain")
    ctx.rule("R8.3", "structural sidecar rules registered with their codes and reachable from Sidecar.validate")
    ctx.rule("R8.4", "push/pop of error contexts balanced in the sidecar validator")
    ctx.assume("values read out of a decoded JSON document have unknown type; only isinstance tests establish one")
    # ---------------- R8.1
    total_uses = 0
    for fname, exprs, what in CONTRACT:
        f = prog.try_function(fname)
        if f is None and fname.endswith("._check_for_key"):
            # the nested-key search, wherever it lives: the function the column-structure check calls with the key "HED"
            vcs0 = prog.find_class("SidecarValidator").methods.get("_validate_column_structure")
            for c0 in (walk_no_nested(vcs0.node) if vcs0 is not None else []):
                if isinstance(c0, ast.Call) and c0.args and isinstance(c0.args[0], ast.Constant) and c0.args[0].value == "HED":
                    tg0 = [t for (k, t) in cg.resolve_call(c0, vcs0) if k == "precise"]
                    if len(tg0) == 1 and len(tg0[0].params()) >= 2:
                        f = tg0[0]
                        exprs = [f.params()[-1]]
        if f is None:
            raise AnalysisError("anchor function not found: %s" % fname)
        ns, nu = check_type_guards(ctx, "R8.1", f, exprs, what)
        if ns == 0 and not any(isinstance(e, tuple) and e[0] == "values-of-call" for e in exprs):
            # (the values-of-call row is conditional: reading the type-validated view instead needs no guard)
            raise AnalysisError("R8.1 contract: none of %s occurs in %s any more" % (exprs, fname))
        total_uses += nu
    ctx.floor("R8.1", "type-specific uses of JSON-typed values", total_uses, 7)
    # caller-guarded contracts
    sv = prog.find_class("SidecarValidator")
    vcs = sv.methods.get("_validate_column_structure")
    vcc = sv.methods.get("_validate_categorical_column")
    if vcs is None or vcc is None:
        raise AnalysisError("R8.1 anchors _validate_column_structure/_validate_categorical_column vanished")
    ctx.saw(vcs, vcc)
    v = view(ctx, vcs)
    sites = [(n, c) for (n, c) in v.calls(lambda c: call_name(c) == vcc.name)]
    ctx.floor("R8.1", "call sites of _validate_categorical_column", len(sites), 1)
    for n, c in sites:
        g = v.guard_for(n, lambda t: mentions(t, "Categorical") and mentions(t, "ColumnType"))
        ok = g is not None and g[1] is True
        # column_type must come from _detect_column_type (which establishes isinstance(hed_entry, dict))
        rd = ReachingDefs(vcs)
        tested = None
        if g is not None:
            for x in ast.walk(g[0].ast):
                if isinstance(x, ast.Compare) and isinstance(x.left, ast.Name) and mentions(x, "Categorical"):
                    tested = x.left.id
        defs = (rd.at(c, tested) or []) if tested else []
        ok = ok and bool(defs) and all(d.kind == "assign" and isinstance(d.value, ast.Call) and
                                       call_name(d.value) == "_detect_column_type" for d in defs)
        ctx.check(ok, "R8.1", vcs.qualname, c, loc(vcs, c),
                  "_validate_categorical_column iterates dict_for_entry['HED'].items() and relies on its caller having "
                  "established a Categorical column (HED value is a dict); this call is not on that edge",
                  desc="_validate_categorical_column called only for Categorical columns")
    for k, c_, n_ in cg.callers.get(vcc, []):
        if c_ is not vcs and k in ("precise", "name"):
            ctx.violation("R8.1", c_.qualname, n_, loc(c_, n_), "_validate_categorical_column called outside the type-establishing branch")
    cd = sv.methods.get("_check_dict")
    cl = sv.methods.get("_check_list")
    cfk = sv.methods.get("_check_for_key")
    if cd and cl and cfk:
        vk = view(ctx, cfk)
        for helper, tname in ((cd, "dict"), (cl, "list")):
            for n, c in vk.calls(lambda c, h=helper: call_name(c) == h.name):
                g = vk.guard_for(n, lambda t, tn=tname: "isinstance" in norm(t) and tn in norm(t))
                ctx.check(g is not None and g[1] is True, "R8.1", cfk.qualname, c, loc(cfk, c),
                          "%s is called without isinstance(data, %s) having been established" % (helper.name, tname),
                          desc="%s called only for a %s" % (helper.name, tname))
            for k, c_, n_ in cg.callers.get(helper, []):
                if c_ is not cfk and k == "precise":
                    ctx.violation("R8.1", c_.qualname, n_, loc(c_, n_), "%s called outside _check_for_key's type test" % helper.name)

    # ---------------- R8.2
    val = sv.methods.get("validate")
    refs = sv.methods.get("_validate_refs")
    if val is None or refs is None:
        raise AnalysisError("R8.2 anchors vanished")
    ctx.saw(val, refs)
    expand = string_chains(ctx, val)
    screen = string_chains(ctx, refs)
    if not expand or not screen:
        raise AnalysisError("R8.2 anchor: per-column string loops not found (expand %d, screen %d)" % (len(expand), len(screen)))
    # the expansion loop is the one in which references are replaced
    expand = [(lp, t) for (lp, t) in expand if any(isinstance(x, ast.Call) and call_name(x) == "replace_ref" for x in ast.walk(lp))] or expand
    screened = {t for (_, t) in screen}
    for lp, t in expand:
        ctx.check(t in screened, "R8.2", val.qualname, lp.iter, loc(val, lp),
                  "references are expanded in the strings obtained by `%s` but screened only in %s: a reference inside a "
                  "column the screening view leaves out is expanded unscreened and indexes the reference table by an "
                  "unknown name (KeyError)" % (t, sorted(screened)),
                  desc="expansion view `%s` is also the screening view" % t)
    # the table indexed by the screened names holds every column the screening accepts (no filtered construction)
    rdv = ReachingDefs(val)
    n_tab = 0
    for lp, t in expand:
        for sub in ast.walk(lp):
            if isinstance(sub, ast.Subscript) and isinstance(sub.ctx, ast.Load) and isinstance(sub.value, ast.Name):
                for d in rdv.at(sub, sub.value.id) or []:
                    if d.kind == "assign" and isinstance(d.value, ast.DictComp):
                        n_tab += 1
                        filt = [i for g_ in d.value.generators for i in g_.ifs]
                        over = d.value.generators[0].iter
                        whole = isinstance(over, ast.Name) and over.id in val.params()
                        ctx.check(not filt and whole, "R8.2", val.qualname, d.value, loc(val, d.value),
                                  "the table `%s` that the expansion indexes by reference name is built from %s: a reference "
                                  "the screening pass accepts (it names an existing column) can be absent from the table, and "
                                  "`%s[...]` raises KeyError instead of returning issues" % (
                                      sub.value.id, "a filtered subset of the columns" if filt else "`%s`, not the sidecar itself" % norm(over)[:40],
                                      sub.value.id),
                                  desc="reference table `%s` covers every column of the sidecar" % sub.value.id)
    ctx.floor("R8.2", "reference tables indexed during expansion", n_tab, 1)
    # screening must actually test membership in the known columns and balance of braces
    # (the screening may be split over private helpers of the validator: look at everything _validate_refs reaches in its class)
    src = " ".join(norm(f_.node) for f_ in cg.reachable([refs], STRONG_KINDS) if f_.cls is refs.cls or f_ is refs)
    for need, what in (("INVALID_COLUMN_REF", "unknown-reference test"), ("_find_non_matching_braces", "brace balance test")):
        ctx.check(need in src, "R8.2", refs.qualname, what, loc(refs, refs.node), "_validate_refs lost its %s" % what,
                  desc="screening pass has the %s" % what)
    # screening runs before expansion and an error there returns early
    vv = view(ctx, val)
    rnodes = [n for (n, c) in vv.calls(lambda c: call_name(c) == "_validate_refs")]
    xnodes = [n for (n, c) in vv.calls(lambda c: call_name(c) == "replace_ref")]
    ctx.floor("R8.2", "reference expansions in validate", len(xnodes), 1)
    for x in xnodes:
        g = vv.guard_for(x, lambda t: mentions(t, "check_for_any_errors"), want_leave=("return",))
        ctx.check(bool(rnodes) and any(vv.dominates(r, x) for r in rnodes) and g is not None, "R8.2", val.qualname,
                  x.ast, loc(val, x.ast),
                  "references are expanded without the screening pass and its early return on errors dominating the expansion",
                  desc="screening + early return dominate expansion")

    ctx.rule("R8.5", "all passes extract {column} references with the same pattern and flags")
    reference_regex_agreement(ctx, "R8.5")
    # placeholder counting happens on a copy with definitions removed and Def-expand groups shrunk
    ctx.rule("R8.6", "the placeholder count is taken after removing definitions and shrinking Def-expand groups, on a copy")
    pc = sv.methods.get("_validate_pound_sign_count")
    if pc is None:
        raise AnalysisError("anchor SidecarValidator._validate_pound_sign_count vanished")
    ctx.saw(pc)
    vpc = view(ctx, pc)
    counts = [(n, c) for (n, c) in vpc.calls(lambda c: call_name(c) == "count" and c.args and isinstance(c.args[0], ast.Constant)
                                              and c.args[0].value == "#")]
    ctx.floor("R8.6", "'#' counts in _validate_pound_sign_count", len(counts), 1)
    for n, c in counts:
        names = {x.id for x in ast.walk(c.func.value) if isinstance(x, ast.Name)}
        ok = False
        for nm in names:
            rem = [m for (m, cc) in vpc.calls(lambda cc, nm=nm: call_name(cc) == "remove_definitions" and
                                              isinstance(cc.func.value, ast.Name) and cc.func.value.id == nm)]
            shr = [m for (m, cc) in vpc.calls(lambda cc, nm=nm: call_name(cc) == "shrink_defs" and
                                              isinstance(cc.func.value, ast.Name) and cc.func.value.id == nm)]
            cop = [m for m in vpc.cfg.nodes if m.kind == "stmt" and isinstance(m.ast, ast.Assign) and
                   isinstance(m.ast.targets[0], ast.Name) and m.ast.targets[0].id == nm and isinstance(m.ast.value, ast.Call)
                   and call_name(m.ast.value) in ("deepcopy", "copy")]
            if rem and shr and cop and all(vpc.dominates(x, n) for x in rem + shr + cop):
                ok = True
        ctx.check(ok, "R8.6", pc.qualname, c, loc(pc, c),
                  "the '#' count is not taken from a copy on which remove_definitions() and shrink_defs() were applied: a "
                  "valid value column containing `(Def-expand/Name/#, (...#...))` or a Definition is reported as having too "
                  "many placeholders", desc="'#' counted on a copy without definitions / with Def-expand shrunk")

    # per-entry loops of the sidecar validator accumulate: nothing computed for one entry is consumed after the loop
    ctx.rule("R8.7", "results of the per-entry loops of the sidecar validator are accumulated, not overwritten (last-wins)")
    from sa.stale import check_no_last_only
    n_loops = check_no_last_only(
        ctx, "R8.7", [m for m in sv.methods.values()],
        {"SidecarValidator._find_non_matching_braces": (1, "the index of the currently open brace is scanner state; the post-loop test reports a "
                                          "brace still open at the end of the string")},
        "A fault in any entry of a column but the last one (unknown, nested or self reference, malformed braces) is then "
        "not recorded for the column-level reference rules.")
    ctx.floor("R8.7", "loops in the sidecar validator", n_loops, 6)

    # ---------------- R8.8: nothing a callee reports is thrown away
    ctx.rule("R8.8", "no issue list returned inside the sidecar validator / Sidecar.validate is discarded")
    from sa.issues import check_no_dropped_issues
    sc8 = [f for f in prog.functions.values() if f.module.name == "hed.validator.sidecar_validator"] + \
          [m for m in prog.find_class("Sidecar").all_methods if m.name in ("validate", "extract_definitions", "get_def_dict")]
    ns8 = check_no_dropped_issues(ctx, "R8.8", sc8)
    ctx.floor("R8.8", "issue-producing calls in the sidecar validator", ns8, 8)

    # ---------------- R8.9: the '#' count rule is applied to every entry
    ctx.rule("R8.9", "every entry of every column passes the placeholder-count check (no gate skips it)")
    vv9 = view(ctx, val)
    counts9 = [n_ for (n_, c) in vv9.calls(lambda c: call_name(c) == "_validate_pound_sign_count")]
    ctx.floor("R8.9", "placeholder-count calls in SidecarValidator.validate", len(counts9), 1)
    for lp, t in string_chains(ctx, val):
        if not any(any(x is c_.ast or any(x is y for y in ast.walk(c_.ast)) for x in ast.walk(lp)) for c_ in counts9):
            continue          # (the expansion loop is another loop over the same strings)
        head = vv9.cfg.node_of(lp)
        body_first = [m for (m, l) in vv9.cfg.succ[head] if l is True]
        seen, stack, skipped = set(), list(body_first), False
        while stack:
            x = stack.pop()
            if x in seen or x in counts9:
                continue
            if x is head:
                skipped = True
                break
            seen.add(x)
            stack.extend(m for (m, l) in vv9.cfg.succ[x] if l != "exc" and m is not vv9.cfg.exit and m is not vv9.cfg.raise_exit)
        ctx.check(not skipped, "R8.9", val.qualname, lp.iter, loc(val, lp),
                  "an iteration of the per-entry loop can reach the next entry without the placeholder-count check: an entry that also "
                  "holds a Definition (`(Definition/X, (Red)), Label/#` in a categorical column) is never counted, although the count "
                  "already ignores definitions (R8.6)", desc="placeholder count on every path of the per-entry loop")

    # ---------------- R8.3
    sc = prog.find_class("Sidecar")
    entry = sc.methods.get("validate")
    if entry is None:
        raise AnalysisError("anchor Sidecar.validate vanished")
    n = wiring.check_wiring(ctx, "R8.3", ROWS, entry)
    ctx.floor("R8.3", "structural keys", n, 13)

    # ---------------- R8.4
    funcs = [m for m in sv.methods.values() if any(
        isinstance(x, ast.Call) and isinstance(x.func, ast.Attribute) and x.func.attr in ("push_error_context", "pop_error_context")
        for x in walk_no_nested(m.node))]
    ed = sc.methods.get("extract_definitions")
    if ed is not None:
        funcs.append(ed)
    ctx.floor("R8.4", "functions with push/pop", len(funcs), 5)
    check_balance(ctx, "R8.4", funcs)

    # ---------------- R8.12: every top-level entry reaches the structural checks, the reserved name first
    ctx.rule("R8.12", "validate_structure hands every loaded entry to the column checks; the reserved-name test is met on every path")
    from sa.dom import iteration_can_skip
    vst = sv.methods.get("validate_structure")
    vcs = sv.methods.get("_validate_column_structure")
    if vst is None or vcs is None:
        raise AnalysisError("anchors SidecarValidator.validate_structure/_validate_column_structure vanished")
    ctx.saw(vst, vcs)
    v12 = view(ctx, vst)
    calls12 = [n_ for (n_, c) in v12.calls(lambda c: call_name(c) == "_validate_column_structure")]
    loops12 = [lp for lp in walk_no_nested(vst.node) if isinstance(lp, ast.For) and "loaded_dict" in norm(lp.iter)]
    ctx.floor("R8.12", "per-entry loops in validate_structure", len(loops12), 1)
    for lp in loops12:
        ctx.check(bool(calls12) and not iteration_can_skip(v12, lp, calls12), "R8.12", vst.qualname, lp.iter, loc(vst, lp),
                  "an entry of the sidecar can be passed over without the column checks: `{\"HED\": \"Red\"}` (the reserved name with a "
                  "non-object value) is then not reported as SIDECAR_HED_USED_COLUMN", desc="every entry reaches _validate_column_structure")
    v12b = view(ctx, vcs)
    res = v12b.conds(lambda t: "reserved_column_names" in norm(t))
    ctx.floor("R8.12", "reserved-name tests in _validate_column_structure", len(res), 1)
    for c in res:
        r = v12b.reachable_from_entry(avoid={c})
        ctx.check(v12b.cfg.exit not in r, "R8.12", vcs.qualname, c.ast, loc(vcs, c.ast),
                  "_validate_column_structure can return without having tested the column name against the reserved names",
                  desc="reserved-name test on every path")

    # ---------------- R8.13: parameters are handed on to same-named parameters of repository callees
    from sa.forward import check_forwarding
    nfw = check_forwarding(ctx, "R8.13", [f for f in prog.functions.values() if f.module.name.startswith(('hed.validator.sidecar_validator', 'hed.models.sidecar', 'hed.models.column_metadata'))], 'e.g. extra definitions, the error handler')
    ctx.floor("R8.13", "same-named parameter sites", nfw, 1)


REF_FUNCS = {"findall": 2, "finditer": 2, "search": 2, "match": 2, "fullmatch": 2, "sub": 3, "split": 2, "compile": 1}


def reference_patterns(prog):
    """Every regular expression in the package that captures a curly-brace column reference:
    -> [(module, node, inner pattern, frozenset(flag names))]"""
    out = []
    for m in prog.modules.values():
        if not m.name.startswith(("hed.models", "hed.validator", "hed.tools.analysis")):
            continue
        for c in ast.walk(m.tree):
            if not (isinstance(c, ast.Call) and isinstance(c.func, ast.Attribute) and c.func.attr in REF_FUNCS and c.args):
                continue
            pat = c.args[0]
            if not (isinstance(pat, ast.Constant) and isinstance(pat.value, str)):
                continue
            txt = pat.value
            if "{(" not in txt.replace("\\", "") or ")}" not in txt.replace("\\", ""):
                continue
            clean = txt.replace("\\{", "{").replace("\\}", "}")
            inner = clean[clean.index("{(") + 2: clean.rindex(")}")]
            fl = set()
            cand = list(c.args[1:]) + [k.value for k in c.keywords if k.arg == "flags"]
            for f in cand:
                for x in ast.walk(f):
                    if isinstance(x, ast.Attribute) and isinstance(x.value, ast.Name) and x.value.id == "re":
                        fl.add({"I": "IGNORECASE"}.get(x.attr, x.attr))
            out.append((m, c, inner, frozenset(fl)))
    return out


def reference_regex_agreement(ctx, rule):
    """All places that extract `{column}` references use the same character class and flags (sibling agreement between
    the assembler, the screening pass and the expansion pass)."""
    pats = reference_patterns(ctx.prog)
    ctx.floor(rule, "curly-brace reference patterns", len(pats), 2)
    ref = pats[0]
    for m, c, inner, fl in pats:
        ctx.count_sites()
        ctx.check((inner, fl) == (ref[2], ref[3]), rule, m.name, c, "%s:%d" % (m.relpath, c.lineno),
                  "this pattern extracts column references with character class `%s` and flags %s, but %s:%d uses `%s` with %s: "
                  "a reference name that one pass recognises (mixed case, a hyphen) is invisible to the other, so it is "
                  "neither screened nor spliced consistently" % (inner, sorted(fl), ref[0].relpath, ref[1].lineno, ref[2], sorted(ref[3])),
                  desc="reference pattern `%s` %s agrees with the other passes" % (inner, sorted(fl)))
