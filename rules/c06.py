"""C06 — assembly: writes neither the caller's table, nor the sidecar, nor its own object state;
consumers of assembled cells agree on the 'missing' sentinel set."""
import ast

from sa.effects import check_no_mutation, get_effects
from sa.model import FunctionInfo, AnalysisError, call_name, loc, norm, walk_no_nested

LEVEL_TEXT = ("Static structural proof of necessary conditions: (R6.1) alias-based effect analysis over the closure of "
              "BaseInput.assemble / series_a / dataframe_a shows no mutation of the input object's state (its table, "
              "sidecar, mapper or any other self.*), directly, through a local alias, or inside a callee; (R6.2) the row "
              "combiner and the curly-brace splicer treat the same set of cell texts as 'missing' ({'', 'n/a'}), and every "
              "column transformer can return only members of that set for a missing cell. The content of the assembled "
              "annotation, ordering and delimiter well-formedness in general are NOT decided.")
LEVEL_EXTRA = 'Added after the seeded evaluation: (R6.2) the missing marker is compared as a whole cell, never removed as a substring; (R6.3) every reference substitution goes through the n/a-aware splicer; (R6.4) one reference pattern (text and flags) for assembly and sidecar validation. (R6.5) text interpolated into a regular-expression pattern in the assembly modules goes through re.escape; a substituting transformer steps aside for every missing cell text. (R6.6) the replacement handed to re.sub in the assembly modules is a constant or a function. (R6.7) reset_column_mapper rebinds self._sidecar on every path. (R6.8) the categorical lookup applies no case normalisation. (R6.9) a parameter is handed on to every repository callee that takes a parameter of the same name (11 frozen exceptions package-wide).'


_CONST_CTX = []      # (prog, [modules]) of the run in progress: lets a named module constant stand for its text


def _const(e):
    """The constant value of a literal, or of a module-level constant of the assembly modules; ... (Ellipsis) when unknown."""
    if isinstance(e, ast.Constant):
        return e.value
    if _CONST_CTX and isinstance(e, (ast.Name, ast.Attribute)):
        prog, mods = _CONST_CTX[0]
        for m in mods:
            v = prog.try_const(e, m, None, None, default=Ellipsis)
            if v is not Ellipsis:
                return v
    return Ellipsis


def sentinels(expr, var):
    """Cell texts that the boolean expression treats as 'missing' for variable `var` (i.e. for which it is false)."""
    out = set()
    if isinstance(expr, ast.BoolOp) and isinstance(expr.op, ast.And):
        for v in expr.values:
            out |= sentinels(v, var)
        return out
    if isinstance(expr, ast.Name) and expr.id == var:
        return {""}
    if isinstance(expr, ast.Call) and isinstance(expr.func, ast.Name) and expr.func.id == "bool" and expr.args and \
            isinstance(expr.args[0], ast.Name) and expr.args[0].id == var:
        return {""}
    if isinstance(expr, ast.Compare) and len(expr.ops) == 1 and isinstance(expr.left, ast.Name) and expr.left.id == var:
        c = expr.comparators[0]
        if isinstance(expr.ops[0], ast.NotEq) and _const(c) is not Ellipsis:
            return {_const(c)}
        if isinstance(expr.ops[0], ast.NotIn) and isinstance(c, (ast.Tuple, ast.List, ast.Set)):
            return {_const(e) for e in c.elts if _const(e) is not Ellipsis}
    return out


def missing_set(test, var):
    """Cell texts for which the boolean expression is TRUE (a positive 'is missing' test of variable `var`)."""
    if isinstance(test, ast.BoolOp) and isinstance(test.op, ast.Or):
        out = set()
        for v in test.values:
            out |= missing_set(v, var)
        return out
    if isinstance(test, ast.UnaryOp) and isinstance(test.op, ast.Not):
        return sentinels(test.operand, var)
    if isinstance(test, ast.Compare) and len(test.ops) == 1 and isinstance(test.left, ast.Name) and test.left.id == var:
        c = test.comparators[0]
        if isinstance(test.ops[0], ast.Eq) and _const(c) is not Ellipsis:
            return {_const(c)}
        if isinstance(test.ops[0], ast.In) and isinstance(c, (ast.Tuple, ast.List, ast.Set)):
            return {_const(e) for e in c.elts if _const(e) is not Ellipsis}
    return set()


def run(ctx):
    prog, cg = ctx.prog, ctx.cg
    _CONST_CTX[:] = [(prog, [m for m in (prog.find_module("models.base_input"), prog.find_module("models.df_util"),
                                         prog.find_module("models.column_mapper")) if m is not None])]
    ctx.rule("R6.1", "assembly never mutates the input object's table, sidecar, mapper or other state")
    ctx.rule("R6.2", "combiner, splicer and transformers agree on the set of 'missing' cell texts")
    ctx.assume("pandas methods without inplace=True (astype, transform, apply, copy ...) return new objects")
    bi = prog.find_class("BaseInput")
    entries = []
    for nm in ("assemble", "series_a", "dataframe_a", "series_filtered"):
        m = bi.methods.get(nm)
        if m is None:
            if nm == "series_filtered":
                continue
            raise AnalysisError("anchor BaseInput.%s vanished" % nm)
        entries.append(m)
    ht = bi.methods.get("_handle_transforms")
    if ht is not None:
        entries.append(ht)
    cm = prog.find_class("ColumnMapper")
    gt = cm.methods.get("get_transformers")
    if gt is None:
        raise AnalysisError("anchor ColumnMapper.get_transformers vanished")
    entries.append(gt)
    sc = prog.find_class("Sidecar")
    gcr = sc.methods.get("get_column_refs")
    if gcr is not None:
        entries.append(gcr)
    # subclasses that override assembly entry points
    for sub in bi.all_subclasses():
        for nm in ("assemble", "series_a", "dataframe_a", "_handle_transforms", "get_column_refs"):
            if nm in sub.methods:
                entries.append(sub.methods[nm])

    def forbidden(fi, o):
        if o[0] == "S" or o == ("P", "self"):
            return True
        if o[0] == "P" and o[1] in ("mapper", "df", "dataframe"):
            return True
        return False
    ctx.floor("R6.1", "assembly entry points", len(entries), 5)
    n = check_no_mutation(ctx, "R6.1", entries, forbidden, "the input object's table / sidecar / mapper state",
                          "asking for the assembled annotations changes the caller's table (or the object's cached state), "
                          "so a second call or the caller's own use of the table can see different data")
    # the helper that splices references works on a copy
    hcb = prog.find_function("df_util._handle_curly_braces_refs")
    check_no_mutation(ctx, "R6.1", [hcb], lambda fi, o: o[0] == "P", "its DataFrame argument",
                      "the table handed in by assemble (which can be the caller's own table) is modified in place")
    cdf = bi.methods.get("combine_dataframe")
    if cdf is None:
        raise AnalysisError("anchor BaseInput.combine_dataframe vanished")
    check_no_mutation(ctx, "R6.1", [cdf], lambda fi, o: o[0] == "P", "its DataFrame argument", "the assembled table is modified in place")

    # ---------------- R6.3 / R6.4: references are found and substituted the same way everywhere
    ctx.rule("R6.3", "every reference substitution during assembly goes through the n/a-aware splicer")
    ctx.rule("R6.4", "assembly and sidecar validation extract {column} references with the same pattern and flags")
    from rules.c08 import reference_regex_agreement
    reference_regex_agreement(ctx, "R6.4")
    ctx.saw(hcb)
    spl = [c for c in ast.walk(hcb.node) if isinstance(c, ast.Call) and call_name(c) == "replace_ref"]
    ctx.check(bool(spl), "R6.3", hcb.qualname, "use of replace_ref", loc(hcb, hcb.node),
              "_handle_curly_braces_refs no longer substitutes references through replace_ref (the only place that removes "
              "the delimiters around a missing value)", desc="references substituted through replace_ref")
    for c in ast.walk(hcb.node):
        if isinstance(c, ast.Call) and isinstance(c.func, ast.Attribute) and c.func.attr == "replace" and c.args:
            a0 = c.args[0]
            braces = isinstance(a0, ast.JoinedStr) or "{" in norm(a0) or "bracket" in norm(a0).lower()
            if braces:
                ctx.violation("R6.3", hcb.qualname, c, loc(hcb, c),
                              "a reference is substituted with plain str.replace, bypassing the n/a-aware splicer: a missing "
                              "cell leaves its comma / parentheses behind (`, Blue`, `(Label/33, )`)")

    # text spliced into a regular expression is escaped
    ctx.rule("R6.5", "text that is interpolated into a regular-expression pattern goes through re.escape")
    from sa.dataflow import ReachingDefs as _RD6
    RE_FUNCS = {"sub": 0, "subn": 0, "search": 0, "match": 0, "fullmatch": 0, "findall": 0, "finditer": 0, "split": 0, "compile": 0}
    n_pat = 0
    for f in prog.functions.values():
        if f.module.name not in ("hed.models.df_util", "hed.models.base_input", "hed.models.column_mapper", "hed.models.sidecar",
                                 "hed.models.column_metadata"):
            continue      # (the search modules build patterns from query syntax on purpose)
        rd6 = None
        for c in walk_no_nested(f.node):
            if not (isinstance(c, ast.Call) and isinstance(c.func, ast.Attribute) and c.func.attr in RE_FUNCS and
                    isinstance(c.func.value, ast.Name) and c.func.value.id == "re" and c.args):
                continue
            n_pat += 1
            pat = c.args[0]
            exprs = [pat]
            if isinstance(pat, ast.Name):
                rd6 = rd6 or _RD6(f)
                exprs = [d.value for d in (rd6.at(c, pat.id) or []) if d.kind == "assign" and d.value is not None]
            for e in exprs:
                parts = []

                def flat(x):
                    if isinstance(x, ast.BinOp) and isinstance(x.op, ast.Add):
                        flat(x.left); flat(x.right)
                    elif isinstance(x, ast.JoinedStr):
                        for v_ in x.values:
                            parts.append(v_.value if isinstance(v_, ast.FormattedValue) else v_)
                    else:
                        parts.append(x)
                flat(e)
                if len(parts) < 2:
                    continue
                for prt in parts:
                    if isinstance(prt, ast.Constant):
                        continue
                    if isinstance(prt, ast.Name) and isinstance(f.module.assigns.get(prt.id), ast.Constant) \
                            and prt.id not in f.params() and not any(
                                isinstance(x, ast.Name) and x.id == prt.id and isinstance(x.ctx, ast.Store) for x in ast.walk(f.node)):
                        continue        # a module-level constant piece of the pattern
                    esc = isinstance(prt, ast.Call) and call_name(prt) == "escape"
                    if not esc and isinstance(prt, ast.Name):
                        rd6 = rd6 or _RD6(f)
                        ds = rd6.at(c, prt.id) or []
                        esc = bool(ds) and all(d.kind == "assign" and isinstance(d.value, ast.Call) and call_name(d.value) == "escape" for d in ds)
                    ctx.saw(f)
                    ctx.check(esc, "R6.5", f.qualname, c, loc(f, c),
                              "`%s` is concatenated into the pattern of `re.%s` without re.escape: a column reference such as `{2}` is read "
                              "as a quantifier, so the n/a clean-up removes the wrong text (`({2}, Square), Blue` becomes `{2}Square), Blue`)"
                              % (norm(prt)[:30], c.func.attr), desc="%s: `%s` escaped in the pattern" % (f.short, norm(prt)[:30]))
    ctx.floor("R6.5", "regular-expression calls in the assembly modules", n_pat, 1)

    # text used as the replacement of re.sub is a template: backslashes and \g<> in it are interpreted
    ctx.rule("R6.6", "the replacement handed to re.sub in the assembly modules is a constant or a function, never spliced text")
    n_sub = 0
    for f in prog.functions.values():
        if f.module.name not in ("hed.models.df_util", "hed.models.base_input", "hed.models.column_mapper", "hed.models.sidecar",
                                 "hed.models.column_metadata"):
            continue
        for c in walk_no_nested(f.node):
            if not (isinstance(c, ast.Call) and isinstance(c.func, ast.Attribute) and c.func.attr in ("sub", "subn")):
                continue
            is_re = isinstance(c.func.value, ast.Name) and c.func.value.id == "re"
            repl = c.args[1] if is_re and len(c.args) > 1 else c.args[0] if (not is_re and c.args) else None
            if repl is None:
                continue
            n_sub += 1
            ctx.saw(f)
            ok = isinstance(repl, (ast.Constant, ast.Lambda))
            if not ok and isinstance(repl, (ast.Name, ast.Attribute)):
                r = prog.resolve_expr(repl, f.module, f.cls, f)
                ok = isinstance(r, FunctionInfo)
            ctx.check(ok, "R6.6", f.qualname, c, loc(f, c),
                      "`%s` is handed to re.%s as the replacement text: a replacement is a template, so a backslash in a spliced "
                      "cell value (`faces\\f01.png`) becomes a control character and `\\1` raises re.error while a table is assembled"
                      % (norm(repl)[:30], c.func.attr), desc="%s: replacement of re.%s is a constant or a function" % (f.short, c.func.attr))
    ctx.floor("R6.6", "re.sub calls in the assembly modules", n_sub, 1)

    # a cell text is compared as a whole: `x in "<text>"` is a substring test
    n_in = 0
    rds62 = {}
    for f in prog.functions.values():
        if not f.module.name.startswith("hed.models."):
            continue
        for x in walk_no_nested(f.node):
            if isinstance(x, ast.Compare) and len(x.ops) == 1 and isinstance(x.ops[0], (ast.In, ast.NotIn)):
                n_in += 1
                r = x.comparators[0]
                val = r.value if isinstance(r, ast.Constant) else (
                    prog.try_const(r, f.module, f.cls, f, default=None) if isinstance(r, (ast.Name, ast.Attribute)) else None)
                # a set of delimiter characters asked about one character is a character-class test, not a cell comparison
                one_char = isinstance(x.left, ast.Subscript) and not isinstance(x.left.slice, ast.Slice)
                if isinstance(x.left, ast.Name):
                    rd_ = rds62[f] if f in rds62 else rds62.setdefault(f, _RD6(f))
                    defs_ = rd_.at(x, x.left.id) or []
                    one_char = bool(defs_) and all(d.kind == "for" for d in defs_)
                if isinstance(val, str) and len(val) > 1 and not (one_char and not any(ch.isalnum() for ch in val)):
                    ctx.violation("R6.2", f.qualname, x, loc(f, x),
                                  "`%s` tests membership in the *string* %r, i.e. whether the cell text occurs inside it (a one-element "
                                  "tuple needs a trailing comma): cells `n`, `a`, `/`, `n/` are treated as missing as well"
                                  % (norm(x)[:50], val))
    ctx.ok("R6.2", "%d membership tests in hed.models: none against a multi-character string constant" % n_in, "")

    # ---------------- R6.2
    ctx.saw(cdf)
    comb = set()
    for lam in ast.walk(cdf.node):
        if isinstance(lam, ast.Lambda) and len(lam.args.args) == 1:
            s = sentinels(lam.body, lam.args.args[0].arg)
            if s:
                comb |= s
        elif isinstance(lam, ast.comprehension) and isinstance(lam.target, ast.Name) and lam.ifs:
            # the same filter written as the condition of a comprehension over the row's cells
            for cond_ in lam.ifs:
                comb |= sentinels(cond_, lam.target.id)
    # the marker is a whole-cell value: removing it as a substring (str.replace) is not a 'missing cell' test
    substr = [c for c in ast.walk(cdf.node) if isinstance(c, ast.Call) and isinstance(c.func, ast.Attribute)
              and c.func.attr == "replace" and c.args and isinstance(c.args[0], ast.Constant) and c.args[0].value == "n/a"]
    for c in substr:
        ctx.violation("R6.2", cdf.qualname, c, loc(cdf, c),
                      "the row combiner removes the text 'n/a' wherever it occurs inside a cell (substring replacement) instead "
                      "of skipping cells that are exactly 'n/a': an annotation that merely contains 'n/a' (e.g. `Label/n/a-x`) "
                      "is altered, and splicer and combiner no longer agree on what a missing cell is")
    if not comb and substr:
        return
    if not comb:
        raise AnalysisError("R6.2 anchor: no 'missing cell' test found in combine_dataframe")
    rr = prog.find_function("df_util.replace_ref")
    ctx.saw(rr)
    ps = rr.params()
    newv = ps[2] if len(ps) > 2 else None
    splice = None
    for n_ in walk_no_nested(rr.node):
        if isinstance(n_, ast.If):
            s = sentinels(n_.test, newv)
            if s:
                splice = (n_, s)
                break
    if splice is None:
        raise AnalysisError("R6.2 anchor: no 'missing replacement' test found in replace_ref")
    ctx.check(splice[1] == comb, "R6.2", rr.qualname, splice[0].test, loc(rr, splice[0]),
              "the reference splicer cleans up delimiters only for replacement texts %s, but the row combiner treats %s as "
              "missing: a missing cell spliced through a reference leaves a dangling comma or parenthesis" % (
                  sorted(map(repr, splice[1])), sorted(map(repr, comb))),
              desc="splicer and combiner agree on the missing set %s" % sorted(map(repr, comb)))
    # default of the splicer's replacement parameter
    a = rr.node.args
    if a.defaults and isinstance(a.defaults[-1], ast.Constant):
        ctx.check(a.defaults[-1].value in comb, "R6.2", rr.qualname, "default of " + str(newv), loc(rr, rr.node),
                  "replace_ref's default replacement %r is not a 'missing' text" % (a.defaults[-1].value,),
                  desc="splicer default %r is a missing text" % (a.defaults[-1].value,))
    # transformers: constants they can return for a missing cell
    handlers = []
    for n_ in ast.walk(gt.node):
        if isinstance(n_, ast.Call) and call_name(n_) == "partial" and n_.args:
            r = n_.args[0]
            if isinstance(r, ast.Attribute) and r.attr in cm.methods:
                handlers.append(cm.methods[r.attr])
    ctx.floor("R6.2", "column transformers installed by get_transformers", len(handlers), 1)
    for h in handlers:
        ctx.saw(h)
        consts = []
        for n_ in walk_no_nested(h.node):
            if isinstance(n_, ast.Return) and n_.value is not None:
                v = n_.value
                if isinstance(v, ast.Constant) and isinstance(v.value, str):
                    consts.append((n_, v.value))
                if isinstance(v, ast.Call) and call_name(v) == "get" and len(v.args) == 2 and isinstance(v.args[1], ast.Constant):
                    consts.append((n_, v.args[1].value))
                if isinstance(v, ast.Call) and call_name(v) == "get" and len(v.args) == 1:
                    consts.append((n_, None))
        # a transformer that plugs the cell text into a template must first step aside for every missing text
        subst = [c_ for c_ in walk_no_nested(h.node) if isinstance(c_, ast.Call) and isinstance(c_.func, ast.Attribute)
                 and c_.func.attr in ("replace", "format") and c_.args and
                 any(isinstance(a_, ast.Constant) and a_.value == "#" for a_ in c_.args)]
        if subst and len(h.params()) >= 2:
            cell = h.params()[-1]
            covered = set()
            for st in walk_no_nested(h.node):
                if isinstance(st, ast.If) and st.body and isinstance(st.body[-1], ast.Return):
                    covered |= missing_set(st.test, cell)
            ctx.check(comb <= covered, "R6.2", h.qualname, subst[0], loc(h, subst[0]),
                      "transformer %s substitutes the cell text into its template unless the cell is one of %s, but the combiner and "
                      "splicer treat %s as missing: an empty cell yields a template with an empty value (`Label/`) instead of being "
                      "skipped" % (h.short, sorted(map(repr, covered)), sorted(map(repr, comb))),
                      desc="%s steps aside for every missing cell text" % h.short)
        for node, c in consts:
            ctx.check(c in comb, "R6.2", h.qualname, node, loc(h, node),
                      "transformer %s returns %r for a missing/unknown cell, which is not in the missing set %s the combiner "
                      "and splicer recognise" % (h.short, c, sorted(map(repr, comb))),
                      desc="%s returns missing text %r" % (h.short, c))

    # ---------------- R6.7: the table's own sidecar follows every reset of its column mapper
    ctx.rule("R6.7", "reset_column_mapper rebinds self._sidecar on every path")
    from sa.dom import view as _view6
    rcm = prog.find_class("TabularInput").methods.get("reset_column_mapper")
    if rcm is None:
        raise AnalysisError("anchor TabularInput.reset_column_mapper vanished")
    ctx.saw(rcm)
    v67 = _view6(ctx, rcm)
    stores67 = [n_ for n_ in v67.cfg.nodes if n_.kind == "stmt" and isinstance(n_.ast, ast.Assign)
                and any(isinstance(t, ast.Attribute) and norm(t) == "self._sidecar" for t in n_.ast.targets)]
    ctx.floor("R6.7", "stores to self._sidecar in reset_column_mapper", len(stores67), 1)
    r67 = v67.reachable_from_entry(avoid=set(stores67))
    ctx.check(v67.cfg.exit not in r67, "R6.7", rcm.qualname, "path without rebinding", loc(rcm, rcm.node),
              "reset_column_mapper can finish without rebinding self._sidecar: the transformers then come from the new sidecar while "
              "get_column_refs() still reads the old one, so `{column}` references are left unexpanded or the wrong columns are spliced",
              desc="every path rebinds self._sidecar")

    # ---------------- R6.8: a categorical cell selects the sidecar entry with exactly its own text
    ctx.rule("R6.8", "the categorical lookup of ColumnMapper applies no case normalisation to keys or cells")
    cmp6 = prog.find_class("ColumnMapper")
    n68 = 0
    for m in cmp6.methods.values():
        if m.name not in ("_category_handler", "get_transformers"):
            continue
        ctx.saw(m)
        n68 += 1
        bad = [x for x in ast.walk(m.node) if isinstance(x, ast.Call) and isinstance(x.func, ast.Attribute)
               and x.func.attr in ("casefold", "lower", "upper", "title", "capitalize", "swapcase")]
        ctx.check(not bad, "R6.8", m.qualname, bad[0] if bad else "case normalisation", loc(m, bad[0] if bad else m.node),
                  "category keys / cell texts are case-normalised: of two keys that differ only in letter case one is lost, and a cell "
                  "with an unknown key that case-matches a key takes that key's annotation", desc="%s: keys compared as written" % m.short)
    ctx.floor("R6.8", "categorical lookup functions of ColumnMapper", n68, 2)

    # ---------------- R6.9: parameters are handed on to same-named parameters of repository callees
    from sa.forward import check_forwarding
    nfw = check_forwarding(ctx, "R6.9", [f for f in prog.functions.values() if f.module.name.startswith(('hed.models.df_util', 'hed.models.base_input', 'hed.models.tabular_input', 'hed.models.spreadsheet_input', 'hed.models.column_mapper'))], 'e.g. the schema, definitions, columns')
    ctx.floor("R6.9", "same-named parameter sites", nfw, 1)
