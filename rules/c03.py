"""C03 — tag lookup: every access to the all-forms lookup table normalises its key the same way;
the value/extension remainder is sliced from the original-case text."""
import ast

from sa.dataflow import ReachingDefs
from sa.dom import view
from sa.model import AnalysisError, call_name, loc, norm, walk_no_nested
from sa.norm import mapping_accesses, normalisation

LEVEL_TEXT = ("Static structural proof of necessary conditions: (R3.1) the registering store and every read of the tag "
              "section's all-forms table case-fold the key (the section's own `if not self.case_sensitive` idiom counts, "
              "and the tag section is constructed case-insensitive); all suffix forms are registered in the same loop; "
              "(R3.2) the remainder returned by the resolver is a slice of the original-case text, never of the "
              "case-folded working copy (integer indices excepted). Identity of the resolved node for every spelling, "
              "inverse/idempotent conversions and takes-value switching are NOT decided.")
LEVEL_EXTRA = 'Added after the seeded evaluation: (R3.3) namespace prefixes are removed by length, never with the character-set strip family. (R3.4) the tag resolver takes no position (find/len/slice/split) on a case-folded copy of the tag. (R3.5) HedTag hands its namespace to the lookup functions as the namespace argument.'


def _value_tainted(expr, tainted_names):
    """Does expr carry the *text* of a tainted name (not merely integers derived from it)?"""
    if isinstance(expr, ast.Name):
        return expr.id in tainted_names
    if isinstance(expr, ast.Subscript):
        return _value_tainted(expr.value, tainted_names)       # the slice bounds are integers
    if isinstance(expr, ast.Call):
        nm = call_name(expr)
        if nm in ("len", "find", "index", "rfind", "count", "startswith", "endswith", "int"):
            return False
        if isinstance(expr.func, ast.Attribute) and _value_tainted(expr.func.value, tainted_names):
            return True
        return any(_value_tainted(a, tainted_names) for a in expr.args)
    if isinstance(expr, ast.BinOp):
        return _value_tainted(expr.left, tainted_names) or _value_tainted(expr.right, tainted_names)
    if isinstance(expr, ast.IfExp):
        return _value_tainted(expr.body, tainted_names) or _value_tainted(expr.orelse, tainted_names)
    if isinstance(expr, ast.JoinedStr):
        return any(_value_tainted(v.value, tainted_names) for v in expr.values if isinstance(v, ast.FormattedValue))
    if isinstance(expr, (ast.Tuple, ast.List)):
        return any(_value_tainted(e, tainted_names) for e in expr.elts)
    return False


def run(ctx):
    prog, cg = ctx.prog, ctx.cg
    ctx.rule("R3.1", "every accessor of the all-forms tag table case-folds its key; all suffix forms registered together")
    ctx.rule("R3.2", "the returned remainder is sliced from the original-case text, not the case-folded copy")
    ts = prog.find_class("HedSchemaTagSection")
    hs = prog.find_class("HedSchema")
    table = "long_form_tags"
    init = ts.methods.get("__init__")
    if init is None or not any(isinstance(n, ast.Attribute) and n.attr == table for n in ast.walk(init.node)):
        raise AnalysisError("R3.1 anchor: HedSchemaTagSection.%s vanished" % table)

    def is_table(e):
        return isinstance(e, ast.Attribute) and e.attr == table
    acc = []
    for f in prog.functions.values():
        if f is init:
            continue
        acc += mapping_accesses(f, is_table)
        # `key in self.long_form_tags` handled by mapping_accesses; also direct iteration is not an access by key
    ctx.floor("R3.1", "accessors of the all-forms table", len(acc), 3)
    # the section's case-insensitivity default and construction
    a = init.node.args
    default_ok = any(k.arg == "case_sensitive" and isinstance(d, ast.Constant) and d.value is False
                     for k, d in zip(a.kwonlyargs, a.kw_defaults))
    cons_bad = []
    for f in prog.functions.values():
        for c in walk_no_nested(f.node):
            if isinstance(c, ast.Call) and prog.resolve_expr(c.func, f.module, f.cls, f) is ts:
                csv_ = cg.arg(c, "case_sensitive")
                if csv_ is not None and not (isinstance(csv_, ast.Constant) and csv_.value is False):
                    cons_bad.append((f, c))
    ctx.check(default_ok and not cons_bad, "R3.1", ts.qualname, "case_sensitive default/constructions", loc(init, init.node),
              "the tag section is (or can be) constructed case-sensitive: spellings in another letter case no longer resolve",
              desc="tag section is case-insensitive by default and at every construction")
    rds = {}
    for x in acc:
        f = x.fi
        ctx.saw(f)
        ctx.count_sites()
        rd = rds.setdefault(f, ReachingDefs(f))
        got = normalisation(rd, x.key, x.node)
        ok = got == {"casefold"}
        if got == {"casefold", "raw"} and isinstance(x.key, ast.Name):
            # the section's own idiom: `if not self.case_sensitive: key = key.casefold()`
            v = view(ctx, f)
            defs = rd.at(x.node, x.key.id) or []
            folds = [d for d in defs if d.kind == "assign" and normalisation(rd, d.value, d.node) == {"casefold"}]
            raws = [d for d in defs if d not in folds]
            ok = bool(folds) and all(d.kind == "param" for d in raws)
            for d in folds:
                dn = v.node(d.node)
                g = v.guard_for(dn, lambda t: "case_sensitive" in norm(t))
                ok = ok and g is not None and (g[1] is True) == (norm(g[0].ast).startswith("not "))
        if not ok and isinstance(x.key, ast.Call):
            # a helper that produces the key: it must fold the case (at least whenever the section is not case-sensitive)
            for k_, h in cg.resolve_call(x.key, f):
                if k_ != "precise":
                    continue
                rdh = ReachingDefs(h)
                vh = view(ctx, h)
                rets = [r for r in walk_no_nested(h.node) if isinstance(r, ast.Return) and r.value is not None]
                good = bool(rets)

                def cs_guard(node_ast):
                    # (cond, label) with label = the edge on which the section IS case-sensitive, or None
                    g_ = vh.guard_for(vh.node(node_ast), lambda t: "case_sensitive" in norm(t))
                    if g_ is None:
                        return None
                    return (g_[1] is True) != norm(g_[0].ast).startswith("not ")
                for r in rets:
                    v_ = r.value
                    if normalisation(rdh, v_, r) == {"casefold"}:
                        continue
                    if cs_guard(r) is True:
                        continue    # an unfolded key is returned only for a case-sensitive section
                    if isinstance(v_, ast.IfExp) and "case_sensitive" in norm(v_.test):
                        neg = norm(v_.test).startswith("not ")
                        folded_side = v_.body if neg else v_.orelse
                        if normalisation(rdh, folded_side, r) == {"casefold"}:
                            continue
                    if isinstance(v_, ast.Name):
                        defs_ = rdh.at(r, v_.id) or []
                        folds_ = [d for d in defs_ if d.kind == "assign" and normalisation(rdh, d.value, d.node) == {"casefold"}]
                        if folds_ and all(d.kind == "param" for d in defs_ if d not in folds_) and all(
                                cs_guard(d.node) is False for d in folds_):
                            continue
                    good = False
                ok = good
        ctx.check(ok, "R3.1", f.qualname, x.node, loc(f, x.node),
                  "the all-forms tag table is accessed (%s) with key `%s` normalised as %s while tags are registered "
                  "case-folded: some spelling of a schema tag is not found (or found under the wrong key)" % (
                      x.kind, norm(x.key), sorted(got)),
                  desc="%s: %s key `%s` case-folded" % (f.short, x.kind, norm(x.key)[:30]))
    # all suffix forms registered in one loop over the forms list
    reg = ts.methods.get("_check_if_duplicate")
    if reg is None:
        raise AnalysisError("anchor HedSchemaTagSection._check_if_duplicate vanished")
    stores = [x for x in acc if x.fi is reg and x.kind == "store"]
    ok = False
    for st in stores:
        for lp in walk_no_nested(reg.node):
            if isinstance(lp, ast.For) and any(y is st.node for y in ast.walk(lp)):
                rd = rds.setdefault(reg, ReachingDefs(reg))
                from sa.dataflow import depends_on
                if depends_on(rd, lp.iter, lp, lambda y: isinstance(y, ast.Call) and call_name(y) == "_get_tag_forms"):
                    ok = True
    ctx.check(ok, "R3.1", reg.qualname, "registration loop", loc(reg, reg.node),
              "the registering store is no longer inside a loop over all suffix forms from _get_tag_forms: partial-path "
              "spellings stop resolving", desc="every suffix form from _get_tag_forms is registered")

    # ---------------- R3.2
    fte = hs.methods.get("_find_tag_entry")
    if fte is None:
        raise AnalysisError("anchor HedSchema._find_tag_entry vanished")
    ctx.saw(fte)
    rd = ReachingDefs(fte)
    v = view(ctx, fte)
    folded = set()
    for n in walk_no_nested(fte.node):
        if isinstance(n, ast.Assign) and isinstance(n.targets[0], ast.Name) and \
                normalisation(rd, n.value, n) & {"casefold", "lower", "upper"}:
            folded.add(n.targets[0].id)
    if not folded:
        ctx.ok("R3.2", "_find_tag_entry keeps no case-folded copy of the tag text: every slice is of the text as written", loc(fte, fte.node))
    rets = [r for r in walk_no_nested(fte.node) if isinstance(r, ast.Return) and isinstance(r.value, ast.Tuple)
            and len(r.value.elts) == 3]
    ctx.floor("R3.2", "3-tuple returns of _find_tag_entry", len(rets), 2)
    for r in rets:
        rem = r.value.elts[1]
        bad = []

        def check_expr(e, at, depth=0):
            if depth > 5:
                return
            if isinstance(e, ast.Name) and e.id not in folded:
                for d in rd.at(at, e.id) or []:
                    if d.kind == "assign" and d.value is not None:
                        if _value_tainted(d.value, folded):
                            # allowed: V[-k:] dominated by V.endswith(<const of length k>) — a constant in disguise
                            if _const_suffix_slice(v, d, folded):
                                continue
                            bad.append(d)
                        else:
                            check_expr(d.value, d.node, depth + 1)
            elif _value_tainted(e, folded):
                bad.append(None)
        check_expr(rem, r)
        ctx.count_paths()
        ctx.check(not bad, "R3.2", fte.qualname, r if not bad or bad[0] is None else bad[0].node, loc(fte, r),
                  "the remainder returned here carries text of the case-folded working copy (%s): a value or extension "
                  "would come back lower-cased instead of verbatim" % sorted(folded),
                  desc="remainder `%s` is original-case text" % norm(rem))


    # ---------------- R3.4: positions are taken on the text as written
    ctx.rule("R3.4", "the resolver takes no position (find / len / slice / split) on a case-folded copy of the tag (case folding can change the length)")
    resolver = [hs.methods.get(nm) for nm in ("_find_tag_entry", "_find_tag_subfunction", "_validate_remaining_terms")]
    if any(f is None for f in resolver):
        raise AnalysisError("R3.4 anchors of the tag resolver vanished")
    folded_of = {}
    for f in resolver:
        rdf = ReachingDefs(f)
        fs = set()
        for n in walk_no_nested(f.node):
            if isinstance(n, ast.Assign) and isinstance(n.targets[0], ast.Name) and \
                    normalisation(rdf, n.value, n) & {"casefold", "lower", "upper"}:
                fs.add(n.targets[0].id)
        folded_of[f] = fs
    changed = True
    while changed:          # a parameter that receives a folded argument inside the resolver is folded
        changed = False
        for f in resolver:
            for c in walk_no_nested(f.node):
                if isinstance(c, ast.Call):
                    for g in resolver:
                        if call_name(c) == g.name:
                            ps = g.params()[1:] if g.params() and g.params()[0] == "self" else g.params()
                            for i_, a_ in enumerate(c.args):
                                if isinstance(a_, ast.Name) and a_.id in folded_of[f] and i_ < len(ps) and ps[i_] not in folded_of[g]:
                                    folded_of[g].add(ps[i_])
                                    changed = True
    n_pos = 0
    for f in resolver:
        ctx.saw(f)
        fs = folded_of[f]
        for x in walk_no_nested(f.node):
            hit = None
            if isinstance(x, ast.Call) and isinstance(x.func, ast.Attribute) and x.func.attr in ("find", "rfind", "index", "rindex", "split", "rsplit", "partition") \
                    and isinstance(x.func.value, ast.Name):
                n_pos += 1
                if x.func.value.id in fs:
                    hit = "%s.%s()" % (x.func.value.id, x.func.attr)
            elif isinstance(x, ast.Call) and isinstance(x.func, ast.Name) and x.func.id == "len" and x.args and isinstance(x.args[0], ast.Name):
                n_pos += 1
                if x.args[0].id in fs:
                    hit = "len(%s)" % x.args[0].id
            elif isinstance(x, ast.Subscript) and isinstance(x.slice, ast.Slice) and isinstance(x.value, ast.Name):
                n_pos += 1
                # V[-k:] of a constant suffix is position-free
                if x.value.id in fs and not (x.slice.upper is None and isinstance(x.slice.lower, ast.UnaryOp)):
                    hit = "%s[...]" % x.value.id
            if hit:
                ctx.violation("R3.4", f.qualname, x, loc(f, x),
                              "`%s` takes a position on the case-folded copy `%s`; positions are then applied to the text as written "
                              "(the remainder slice, the offsets in issues). casefold() changes the length of `ß`, `ﬁ`, `İ`…, so "
                              "`Maße/Größe/12 cm` loses characters of its value and `Straße` gets an end offset outside the text"
                              % (norm(x)[:40], hit.split("(")[-1].split(")")[0].split("[")[0].split(".")[0] if False else sorted(fs)[0]))
    ctx.ok("R3.4", "%d position-taking expressions in the resolver, none on a case-folded copy" % n_pos, "")
    ctx.floor("R3.4", "position-taking expressions in the tag resolver", n_pos, 6)

    ctx.rule("R3.3", "namespace prefixes are removed by length, never with the character-set strip family")
    strip_family_lint(ctx, "R3.3", ["schema.hed_schema", "models.hed_tag", "schema.hed_schema_group"])

    # ---------------- R3.5: lookups made for a tag carry the tag's namespace as the namespace argument
    ctx.rule("R3.5", "HedTag hands its schema namespace to the schema's lookup functions as the namespace argument")
    htag = prog.find_class("HedTag")
    n_ns = 0
    for m in htag.methods.values():
        for c in walk_no_nested(m.node):
            if not (isinstance(c, ast.Call) and isinstance(c.func, ast.Attribute) and c.func.attr in ("get_tag_entry", "find_tag_entry")):
                continue
            n_ns += 1
            ctx.saw(m)
            pos = 2 if c.func.attr == "get_tag_entry" else 1
            arg = next((kw.value for kw in c.keywords if kw.arg == "schema_namespace"), None)
            if arg is None and len(c.args) > pos:
                arg = c.args[pos]
            ok = arg is not None and any(isinstance(x, ast.Attribute) and "namespace" in x.attr for x in ast.walk(arg))
            ctx.check(ok, "R3.5", m.qualname, c, loc(m, c),
                      "the lookup is made without the tag's namespace as the namespace argument (the schema compares that argument, "
                      "default '', with its own namespace and answers None on a mismatch): under `xx:8.3.0` the tag is no longer "
                      "identified after its base is swapped (Def → Def-expand)", desc="%s passes the namespace" % m.short)
    ctx.floor("R3.5", "schema lookups made by HedTag", n_ns, 2)


def _const_suffix_slice(v, d, folded):
    val = d.value
    if not (isinstance(val, ast.Subscript) and isinstance(val.value, ast.Name) and isinstance(val.slice, ast.Slice)
            and val.slice.upper is None and isinstance(val.slice.lower, ast.UnaryOp)
            and isinstance(val.slice.lower.operand, ast.Constant)):
        return False
    k = val.slice.lower.operand.value
    name = val.value.id
    dn = v.node(d.node)
    if dn is None:
        return False

    def pred(t):
        for x in ast.walk(t):
            if isinstance(x, ast.Call) and isinstance(x.func, ast.Attribute) and x.func.attr == "endswith" and \
                    isinstance(x.func.value, ast.Name) and x.func.value.id == name and x.args and \
                    isinstance(x.args[0], ast.Constant) and isinstance(x.args[0].value, str) and len(x.args[0].value) == k \
                    and x.args[0].value == x.args[0].value.casefold():
                return True
        return False
    g = v.guard_for(dn, pred)
    return g is not None and g[1] is True


def strip_family_lint(ctx, rule, modules):
    """`s.lstrip(prefix)` / `rstrip` / `strip` with a non-literal (or multi-character literal) argument removes a *set of
    characters*, not a prefix/suffix.  In the tag-resolution code a namespace prefix must be removed by slicing with its
    length (or removeprefix)."""
    prog = ctx.prog
    n = 0
    sample = ast.parse("x = s.lstrip(prefix)")
    if not _strip_calls(sample):
        raise AnalysisError("%s positive example no longer matches" % rule)
    for mn in modules:
        m = prog.find_module(mn)
        funcs = [f for f in prog.functions.values() if f.module is m]
        for f in funcs:
            for c in walk_no_nested(f.node):
                if isinstance(c, ast.Call) and isinstance(c.func, ast.Attribute) and c.func.attr in ("strip", "lstrip", "rstrip"):
                    n += 1
            for c in _strip_calls(f.node):
                ctx.violation(rule, f.qualname, c, loc(f, c),
                              "`%s` strips any run of the *characters* of its argument, not the argument as a prefix/suffix: "
                              "a tag whose text begins with a letter of its own namespace prefix (`sc:cataplexy`, "
                              "`ts:sensory-event`) loses that letter and is not identified" % norm(c)[:60])
    ctx.ok(rule, "%d strip-family calls in %s: none uses a variable / multi-character argument" % (n, ", ".join(modules)), "")
    return n


def _strip_calls(tree):
    out = []
    for c in ast.walk(tree):
        if isinstance(c, ast.Call) and isinstance(c.func, ast.Attribute) and c.func.attr in ("strip", "lstrip", "rstrip") and c.args:
            a = c.args[0]
            if isinstance(a, ast.Constant) and isinstance(a.value, str) and len(set(a.value)) <= 1:
                continue
            if isinstance(a, ast.Constant) and isinstance(a.value, str) and not a.value.isalnum():
                continue        # a set of punctuation / blanks is what strip is for
            out.append(c)
    return out
