"""C05 — schema save/reload: multi-library refusal dominates every serializer, every writer
implements every hook, sections written = sections read = the section enum, writer/reader
constant tables agree, the attribute filter guards every emission loop."""
import ast

from sa.callgraph import PRECISE
from sa.dom import view, mentions
from sa.model import AnalysisError, ClassInfo, FunctionInfo, call_name, dotted, loc, norm, walk_no_nested

LEVEL_TEXT = ("Static structural proof of necessary conditions: (R5.1) each public serializer reaches "
              "Schema2Base.process_schema and there the can_save() refusal dominates output initialisation and every "
              "section output; (R5.2) the three writers override all hooks of the base class with compatible arity; "
              "(R5.3) sections the traversal emits = sections each reader populates = the section enum; (R5.4) XML "
              "element names, MediaWiki section markers, TSV row shapes/columns, escape pairs and the '-#' suffix "
              "agree between writer and reader; (R5.5) every attribute-emission loop consults the attribute filter. "
              "Equality after reload, cross-format agreement of contents and library/unmerged selection are NOT decided.")
LEVEL_EXTRA = "Added after the seeded evaluation: (R5.4) also the escape context of each writer/reader pair; (R5.6) no stale per-entry state in the writers' traversal loops (two frozen exceptions); (R5.7) every TSV read of the loaders takes cells verbatim as text. (R5.8) the writers split a multi-valued attribute at the separator the readers join it with. (R5.9) a parameter is handed on to every repository callee that takes a parameter of the same name (11 frozen exceptions package-wide). (R5.10) in every reader add_unit() is called on the registered unit-class entry, never on the freshly parsed one; (R5.11) schema text is never cut with str.splitlines."

SERIALIZERS = ["get_as_mediawiki_string", "get_as_xml_string", "get_as_dataframes",
               "save_as_mediawiki", "save_as_xml", "save_as_dataframes"]


def section_mentions(prog, funcs, enum_cls):
    names = set(prog.class_constants(enum_cls)) | set(enum_cls.attrs)
    out = set()
    for f in funcs:
        for n in ast.walk(f.node):
            if isinstance(n, ast.Attribute) and isinstance(n.value, ast.Name) and n.value.id == enum_cls.name \
                    and n.attr in names:
                out.add(n.attr)
    return out


def run(ctx):
    prog, cg = ctx.prog, ctx.cg
    ctx.rule("R5.1", "every serializer passes the can_save() refusal before any output is produced")
    ctx.rule("R5.2", "each writer overrides every hook of Schema2Base with compatible arity")
    ctx.rule("R5.3", "sections emitted = sections populated by each reader = members of HedSectionKey")
    ctx.rule("R5.4", "writer/reader constant tables agree (XML element names, wiki markers, TSV columns, escapes)")
    ctx.rule("R5.5", "every attribute-emission loop tests _attribute_disallowed before emitting")
    hs = prog.find_class("HedSchema")
    base = prog.find_class("Schema2Base")
    writers = [prog.find_class(n) for n in ("Schema2XML", "Schema2Wiki", "Schema2DF")]
    enum = prog.find_class("HedSectionKey")
    enum_members = [k for k in enum.attrs if not k.startswith("_")]
    ctx.floor("R5.3", "section enum members", len(enum_members), 7)
    ps = base.methods.get("process_schema")
    if ps is None:
        raise AnalysisError("anchor Schema2Base.process_schema vanished")

    # ---------------- R5.1
    n_ser = 0
    for nm in SERIALIZERS:
        m = hs.methods.get(nm)
        if m is None:
            ctx.xref("R5.1", loc(hs.module, hs.node), "serializer %s no longer exists" % nm)
            continue
        n_ser += 1
        ctx.saw(m)
        reach = cg.reachable([m], PRECISE)
        ok = ps in reach
        # a serializer must not drive a writer's hooks itself
        direct = [c for c in walk_no_nested(m.node) if isinstance(c, ast.Call) and call_name(c) in
                  ("_output_tags", "_output_units", "_output_section", "_initialize_output", "_write_tag_entry", "_write_entry")]
        ctx.check(ok and not direct, "R5.1", m.qualname, "reach process_schema", loc(m, m.node),
                  "serializer %s does not go through Schema2Base.process_schema (the only place that refuses a schema "
                  "merged from several libraries)" % nm, desc="%s -> process_schema" % nm)
    ctx.floor("R5.1", "public serializers", n_ser, 4)
    # subclasses must not override process_schema without calling super
    for w in writers:
        if "process_schema" in w.methods:
            o = w.methods["process_schema"]
            sup = any(isinstance(c, ast.Call) and isinstance(c.func, ast.Attribute) and c.func.attr == "process_schema"
                      and isinstance(c.func.value, ast.Call) and call_name(c.func.value) == "super"
                      for c in walk_no_nested(o.node))
            ctx.check(sup, "R5.1", o.qualname, "override", loc(o, o.node),
                      "%s overrides process_schema without delegating to the base class (refusal bypassed)" % w.name)
    v = view(ctx, ps)
    ctx.saw(ps)
    outs = [(n, c) for (n, c) in v.calls(lambda c: isinstance(c.func, ast.Attribute) and isinstance(c.func.value, ast.Name)
                                         and c.func.value.id == "self" and c.func.attr.startswith(("_output", "_initialize")))]
    ctx.floor("R5.1", "output calls in process_schema", len(outs), 7)
    for n, c in outs:
        g = v.guard_for(n, lambda t: mentions(t, "can_save"), want_leave=("raise",))
        if g is None:
            # helper form: a call to a helper that raises unless can_save
            for hn, hc in v.calls(lambda cc: True):
                res = [t for (k, t) in cg.resolve_call(hc, ps) if k == "precise"]
                for t in res:
                    tv = view(ctx, t)
                    if any("raise" in tv.leaves(cn, lab) for cn in tv.conds(lambda tt: mentions(tt, "can_save"))
                           for lab in (True, False)) and v.dominates(hn, n):
                        g = (hn, None)
        ctx.check(g is not None, "R5.1", ps.qualname, c, loc(ps, c),
                  "`%s` can run without the can_save() refusal having been passed: a schema merged from several "
                  "libraries would be (partly) written" % norm(c)[:60],
                  desc="can_save() refusal dominates %s" % norm(c)[:50])

    # ---------------- R5.2
    hooks = [m for m in base.all_methods if len(m.node.body) <= 2 and any(
        isinstance(s, ast.Raise) and "NotImplementedError" in norm(s) for s in m.node.body)]
    ctx.floor("R5.2", "writer hooks", len(hooks), 5)
    for h in hooks:
        # arity the base class uses at its call sites
        max_pos = 0
        kws = set()
        for f in base.all_methods:
            for c in walk_no_nested(f.node):
                if isinstance(c, ast.Call) and isinstance(c.func, ast.Attribute) and c.func.attr == h.name:
                    max_pos = max(max_pos, len(c.args))
                    kws |= {k.arg for k in c.keywords if k.arg}
        for w in writers:
            impl = w.methods.get(h.name)
            ok = impl is not None
            why = "does not override it"
            if ok:
                a = impl.node.args
                pos = [x.arg for x in a.args][1:]
                ok = (len(pos) >= max_pos or a.vararg is not None) and all(k in pos or a.kwarg is not None for k in kws)
                required = len(pos) - len(a.defaults)
                ok = ok and required <= max_pos + len(kws)
                why = "overrides it with an incompatible signature %s" % pos
            ctx.check(ok, "R5.2", w.qualname, "hook " + h.name, loc(impl, impl.node) if impl else loc(w.module, w.node),
                      "%s %s (hook %s of Schema2Base is called by the traversal with %d positional argument(s)): saving in "
                      "this format raises" % (w.name, why, h.name, max_pos), desc="%s.%s" % (w.name, h.name))

    # ---------------- R5.3
    wfuncs = cg.reachable([ps], PRECISE)
    wfuncs = {f for f in wfuncs if f.cls is base}
    wset = section_mentions(prog, wfuncs, enum)
    ou = base.methods.get("_output_units")
    units_via_classes = ou is not None and ou in wfuncs and any(
        isinstance(n, ast.Attribute) and n.attr == "units" for n in ast.walk(ou.node)) and any(
        isinstance(c, ast.Call) and call_name(c) == "_write_entry" for c in ast.walk(ou.node))
    if units_via_classes:
        wset.add("Units")
    for mem in enum_members:
        ctx.check(mem in wset, "R5.3", ps.qualname, "section " + mem, loc(ps, ps.node),
                  "the traversal never emits section %s: it is lost on every save" % mem,
                  desc="writer traversal emits %s" % mem)
    readers = [("xml", prog.find_class("SchemaLoaderXML")), ("mediawiki", prog.find_class("SchemaLoaderWiki")),
               ("tsv", prog.find_class("SchemaLoaderDF"))]
    for fmt, rc in readers:
        entry = rc.find_method("_parse_data")
        if entry is None:
            raise AnalysisError("anchor %s._parse_data vanished" % rc.name)
        rf = cg.reachable([entry], ("precise", "prop", "ref"))
        rf = {f for f in rf if f.cls is not None and (f.cls is rc or rc.is_subclass_of(f.cls))}
        ctx.saw(*rf)
        rset = section_mentions(prog, rf, enum)
        for mem in enum_members:
            ctx.check(mem in rset, "R5.3", rc.qualname, "section " + mem, loc(entry, entry.node),
                      "the %s reader never populates section %s (no parse step reachable from _parse_data mentions it): "
                      "a saved schema reloads without it" % (fmt, mem), desc="%s reader populates %s" % (fmt, mem))

    # ---------------- R5.4 XML
    xc = prog.find_module("schema_io.xml_constants")
    x2s = prog.find_module("schema_io.xml2schema")
    s2x = prog.find_module("schema_io.schema2xml")
    wvals = set()
    for n in ast.walk(s2x.tree):
        if isinstance(n, ast.Attribute) and isinstance(n.value, ast.Name) and n.value.id == "xml_constants":
            v_ = prog.try_const(xc.assigns.get(n.attr), xc) if n.attr in xc.assigns else None
            if isinstance(v_, str):
                wvals.add(v_)
            elif isinstance(v_, dict):
                wvals |= {x for x in v_.values() if isinstance(x, str)}
    if not wvals:
        raise AnalysisError("R5.4: Schema2XML references no xml_constants")
    lits = []
    QUERY = ("find", "findall", "iter", "_get_elements_by_name", "_get_element_tag_value", "findtext")
    for f in prog.functions.values():
        if f.module is not x2s:
            continue
        for c in walk_no_nested(f.node):
            if isinstance(c, ast.Call) and call_name(c) in QUERY:
                for a in list(c.args) + [k.value for k in c.keywords]:
                    if isinstance(a, ast.Constant) and isinstance(a.value, str) and a.value.isidentifier():
                        lits.append((f, a))
        if f.name in QUERY:
            for d in f.node.args.defaults:
                if isinstance(d, ast.Constant) and isinstance(d.value, str):
                    lits.append((f, d))
    ctx.floor("R5.4", "literal element names in the XML reader", len(lits), 3)
    for f, a in lits:
        ctx.count_sites()
        ctx.check(a.value in wvals, "R5.4", f.qualname, "literal %r" % a.value, loc(f, a),
                  "the XML reader looks for element %r, which the XML writer never emits (writer element names: %s)" % (
                      a.value, sorted(wvals)), desc="reader literal %r is a writer element name" % a.value)
    # the reader's constants must be ones the writer uses too
    for n in ast.walk(x2s.tree):
        if isinstance(n, ast.Attribute) and isinstance(n.value, ast.Name) and n.value.id == "xml_constants" and n.attr in xc.assigns:
            v_ = prog.try_const(xc.assigns[n.attr], xc)
            vals = {v_} if isinstance(v_, str) else ({x for x in v_.values() if isinstance(x, str)} if isinstance(v_, dict) else set())
            if vals and n.attr not in ("NO_NAMESPACE_XSD_KEY", "XSI_SOURCE"):
                ctx.check(vals <= wvals, "R5.4", x2s.name, "constant " + n.attr, "%s:%d" % (x2s.relpath, n.lineno),
                          "the XML reader uses xml_constants.%s (%s) which the writer does not emit" % (n.attr, sorted(vals - wvals)),
                          desc="reader constant %s is emitted by the writer" % n.attr)

    # ---------------- R5.4 MediaWiki
    wc = prog.find_module("schema_io.wiki_constants")
    s2w = prog.find_module("schema_io.schema2wiki")
    starts = prog.try_const(wc.assigns.get("SectionStarts"), wc) if "SectionStarts" in wc.assigns else None
    headers = prog.try_const(wc.assigns.get("wiki_section_headers"), wc) if "wiki_section_headers" in wc.assigns else None
    header_line = prog.try_const(wc.assigns.get("HEADER_LINE_STRING"), wc) if "HEADER_LINE_STRING" in wc.assigns else None
    if not isinstance(starts, dict) or not isinstance(headers, dict):
        raise AnalysisError("R5.4: wiki_constants.SectionStarts / wiki_section_headers not evaluable")
    known = set(starts.values()) | {header_line}
    enum_vals = prog.class_constants(enum)
    for mem in enum_members:
        val = enum_vals.get(mem)
        h = headers.get(val, "<missing>")
        if mem == "Units":
            continue
        ctx.check(isinstance(h, str) and h in known, "R5.4", wc.name, "wiki header for " + mem, wc.relpath,
                  "the MediaWiki writer's header for section %s (%r) is not a section start the reader recognises" % (mem, h),
                  desc="wiki header of %s is a reader section start" % mem)
    n_wc = 0
    for n in ast.walk(s2w.tree):
        if isinstance(n, ast.Attribute) and isinstance(n.value, ast.Name) and n.value.id == "wiki_constants" and n.attr in wc.assigns:
            v_ = prog.try_const(wc.assigns[n.attr], wc)
            if isinstance(v_, str):
                n_wc += 1
                ctx.check(v_ in known, "R5.4", s2w.name, "constant " + n.attr, "%s:%d" % (s2w.relpath, n.lineno),
                          "the MediaWiki writer emits marker %r (wiki_constants.%s) that is not a key of the reader's "
                          "SectionStarts" % (v_, n.attr), desc="writer marker %s recognised by the reader" % n.attr)
        if isinstance(n, ast.Constant) and isinstance(n.value, str) and n.value.startswith("!#"):
            ctx.check(n.value in known, "R5.4", s2w.name, "literal %r" % n.value, "%s:%d" % (s2w.relpath, n.lineno),
                      "the MediaWiki writer emits the literal marker %r which the reader does not recognise" % n.value)
    ctx.floor("R5.4", "wiki marker constants used by the writer", n_wc, 4)

    # ---------------- R5.4 TSV
    dc = prog.find_module("schema.hed_schema_df_constants")
    s2d = prog.find_class("Schema2DF")
    d2s = prog.find_class("SchemaLoaderDF")
    col_lists = {k: tuple(v_) for k, e in dc.assigns.items() if k.endswith("columns") or k.startswith("property_columns")
                 for v_ in [prog.try_const(e, dc)] if isinstance(v_, (list, tuple))}
    if len(col_lists) < 5:
        raise AnalysisError("R5.4: fewer than 5 declared TSV column lists")
    declared = {frozenset(v_) for v_ in col_lists.values()}
    written = set()
    n_rows = 0
    for m in s2d.all_methods:
        for n in walk_no_nested(m.node):
            if isinstance(n, ast.Assign) and isinstance(n.value, ast.Dict) and n.value.keys and all(
                    k is not None and isinstance(k, ast.Attribute) and isinstance(k.value, ast.Name) and k.value.id == "constants"
                    for k in n.value.keys):
                keys = set()
                for k in n.value.keys:
                    kv = prog.try_const(k, m.module, m.cls, m)
                    keys.add(kv)
                tname = n.targets[0].id if isinstance(n.targets[0], ast.Name) else None
                extra = set()
                if tname:
                    for x in walk_no_nested(m.node):
                        if isinstance(x, ast.Assign) and isinstance(x.targets[0], ast.Subscript) and \
                                isinstance(x.targets[0].value, ast.Name) and x.targets[0].value.id == tname:
                            kv = prog.try_const(x.targets[0].slice, m.module, m.cls, m)
                            if kv is not None:
                                extra.add(kv)
                n_rows += 1
                written |= keys | extra
                ok = frozenset(keys) in declared or frozenset(keys | extra) in declared
                if extra:
                    ok = frozenset(keys) in declared and frozenset(keys | extra) in declared
                missing = ""
                if not ok:
                    best = min(declared, key=lambda d: len(d ^ (keys | extra)))
                    missing = "closest declared sheet differs by %s" % sorted(best ^ (keys | extra))
                ctx.check(ok, "R5.4", m.qualname, n, loc(m, n),
                          "the TSV row built here has columns %s which match no declared sheet column list (%s): the "
                          "column is written empty or dropped and reloads differently" % (sorted(keys | extra), missing),
                          desc="%s row shape = a declared column list" % m.short)
    ctx.floor("R5.4", "TSV row shapes built by the writer", n_rows, 4)
    n_reads = 0
    for m in d2s.all_methods:
        for n in walk_no_nested(m.node):
            if isinstance(n, ast.Subscript) and isinstance(n.ctx, ast.Load) and \
                    isinstance(n.slice, ast.Attribute) and isinstance(n.slice.value, ast.Name) and n.slice.value.id == "constants":
                kv = prog.try_const(n.slice, m.module, m.cls, m)
                if not isinstance(kv, str) or not any(kv in cols for cols in col_lists.values()):
                    continue       # a sheet key (constants.TAG_KEY ...), not a column name
                n_reads += 1
                ctx.count_sites()
                ctx.check(kv in written, "R5.4", m.qualname, n, loc(m, n),
                          "the TSV reader reads column %r which the TSV writer never writes" % (kv,),
                          desc="reader column %r is written by the writer" % (kv,))
    ctx.floor("R5.4", "TSV reader column accesses", n_reads, 8)

    def replace_pairs(cls):
        out = set()
        for m in cls.all_methods:
            for c in walk_no_nested(m.node):
                if isinstance(c, ast.Call) and isinstance(c.func, ast.Attribute) and c.func.attr == "replace" and \
                        len(c.args) == 2 and all(isinstance(a, ast.Constant) and isinstance(a.value, str) for a in c.args):
                    if "\n" in c.args[0].value or "\n" in c.args[1].value or "\\n" in c.args[0].value:
                        out.add((c.args[0].value, c.args[1].value))
        return out
    # escaping is a property of one sheet (the structure sheet): every method that escapes or unescapes must be one
    # that writes / reads that sheet, otherwise one side transforms text the other side never transformed
    def escape_methods(cls):
        out = []
        for m in cls.all_methods:
            for c in walk_no_nested(m.node):
                if isinstance(c, ast.Call) and isinstance(c.func, ast.Attribute) and c.func.attr == "replace" and \
                        len(c.args) == 2 and all(isinstance(a, ast.Constant) and isinstance(a.value, str) for a in c.args) and \
                        ("\n" in c.args[0].value or "\n" in c.args[1].value or "\\n" in c.args[0].value):
                    out.append((m, c))
        return out
    esc_sheets = set()
    for m, c in escape_methods(s2d):
        for x in ast.walk(m.node):
            if isinstance(x, ast.Attribute) and x.attr.endswith("_KEY") and isinstance(x.value, ast.Name) and x.value.id == "constants":
                esc_sheets.add(x.attr)
    for m, c in escape_methods(d2s):
        sheets = {x.attr for x in ast.walk(m.node) if isinstance(x, ast.Attribute) and x.attr.endswith("_KEY")
                  and isinstance(x.value, ast.Name) and x.value.id == "constants"}
        ctx.check(bool(sheets & esc_sheets), "R5.4", m.qualname, c, loc(m, c),
                  "the TSV reader undoes line-break escaping in %s, which does not read the sheet(s) %s where the writer escapes: "
                  "text that was never escaped (e.g. a description containing a backslash followed by n) is altered on reload" % (
                      m.short, sorted(esc_sheets)), desc="%s unescapes only what the writer escapes" % m.short)
    wp, rp = replace_pairs(s2d), replace_pairs(d2s)
    ctx.check(bool(wp) and {(b, a) for (a, b) in wp} == rp, "R5.4", s2d.qualname, "escape pairs %s" % sorted(wp), loc(s2d.module, s2d.node),
              "the TSV writer escapes line breaks as %s but the reader undoes %s: prologue/epilogue text changes on reload" % (
                  sorted(wp), sorted(rp)), desc="TSV line-break escape pairs are mutually inverse")

    def hash_literals(cls, method_names):
        out = set()
        for m in cls.all_methods:
            if m.name in method_names:
                for n in ast.walk(m.node):
                    if isinstance(n, ast.Constant) and isinstance(n.value, str) and n.value.endswith("#") and len(n.value) > 1 \
                            and len(n.value) < 4:
                        out.add(n.value)
        return out
    ws, rs = hash_literals(s2d, {"_write_tag_entry"}), hash_literals(d2s, {"_get_tag_name"})
    ctx.check(bool(ws) and ws == rs, "R5.4", s2d.qualname, "placeholder suffix %s" % sorted(ws), loc(s2d.module, s2d.node),
              "the TSV writer marks value-taking children with %s but the reader recognises %s" % (sorted(ws), sorted(rs)),
              desc="TSV placeholder name suffix agrees (%s)" % sorted(ws))

    # ---------------- R5.6: per-entry flags of the traversal are reset for every entry
    ctx.rule("R5.6", "the writers' traversal loops keep no conditional per-entry state from one entry to the next")
    from sa.stale import check_no_stale_state
    wfs = [m for c in [base] + writers for m in c.all_methods]
    check_no_stale_state(ctx, "R5.6", wfs, {
        "Schema2Base._output_tags": (1, "`level_adj`: indentation offset of a rooted library subtree; reset at every root tag"),
        "Schema2DF._process_attributes": (1, "`attribute`: the loop variable itself is re-spelled as an id inside the inner loop")},
        "What is written for one entry then depends on the entries written before it (e.g. a library unit class loses its "
        "description and attributes when an earlier class had library units).")

    # ---------------- R5.7: the TSV readers take every cell as text, verbatim
    ctx.rule("R5.7", "every TSV read of the schema loaders takes cells verbatim as text (no cell text is turned into a missing value)")
    n_reads = 0
    for f in prog.functions.values():
        if not f.module.name.startswith("hed.schema.schema_io"):
            continue
        for c in ast.walk(f.node):
            if isinstance(c, ast.Call) and call_name(c) in ("read_csv", "read_table", "read_excel"):
                n_reads += 1
                ctx.saw(f)
                kw = {k.arg: k.value for k in c.keywords if k.arg}
                cv = lambda name: (kw[name].value if name in kw and isinstance(kw[name], ast.Constant) else
                                   ("<expr>" if name in kw else None))
                verbatim = cv("na_filter") is False or (cv("keep_default_na") is False and "na_values" not in kw)
                as_text = "dtype" in kw and norm(kw["dtype"]) == "str"
                ctx.check(verbatim and as_text, "R5.7", f.qualname, c, loc(f, c),
                          "this TSV read %s: a cell whose text is a missing-value marker (e.g. `n/a`, `NA`, `null`) or looks "
                          "numeric does not come back as the text that was written" % (
                              "converts some cell texts to missing values" if not verbatim else "does not force text cells"),
                          desc="TSV read takes cells verbatim (dtype=str, no NA conversion)")
    ctx.floor("R5.7", "TSV reads in the schema loaders", n_reads, 2)
    # ... and with the writer's dialect: separator and quoting of every read equal those of the to_csv that wrote the file
    writes = [(f, c) for f in prog.functions.values() if f.module.name.startswith("hed.schema.schema_io")
              for c in ast.walk(f.node) if isinstance(c, ast.Call) and call_name(c) == "to_csv"]
    ctx.floor("R5.7", "TSV writes in the schema writers", len(writes), 1)
    dialect = {}
    for f, c in writes:
        for k in c.keywords:
            if k.arg in ("sep", "quoting", "quotechar", "escapechar", "doublequote"):
                dialect.setdefault(k.arg, set()).add(norm(k.value))
    for f in prog.functions.values():
        if not f.module.name.startswith("hed.schema.schema_io"):
            continue
        for c in ast.walk(f.node):
            if isinstance(c, ast.Call) and call_name(c) in ("read_csv", "read_table"):
                kw = {k.arg: norm(k.value) for k in c.keywords if k.arg}
                if "delimiter" in kw and "sep" not in kw:
                    kw["sep"] = kw["delimiter"]
                for key, vals in sorted(dialect.items()):
                    ctx.check(kw.get(key) in vals, "R5.7", f.qualname, c, loc(f, c),
                              "the TSV writer uses %s=%s but this read uses %s=%s: text that the writer emits verbatim (a description "
                              "starting with a double quote, a unit named `\"`) is re-interpreted by the reader's dialect — the quote "
                              "is removed or swallows the following rows" % (key, "/".join(sorted(vals)), key, kw.get(key, "<default>")),
                              desc="%s: read dialect %s=%s as written" % (f.short, key, "/".join(sorted(vals))))

    # ---------------- R5.5
    n_loops = 0
    for cls in [base] + writers:
        for m in cls.all_methods:
            vm = None
            if "header" in m.name:
                continue    # header attributes of the schema element, not entry attributes
            for lp in walk_no_nested(m.node):
                if isinstance(lp, ast.For) and isinstance(lp.iter, ast.Call) and isinstance(lp.iter.func, ast.Attribute) \
                        and lp.iter.func.attr == "items" and "attributes" in norm(lp.iter.func.value):
                    vm = vm or view(ctx, m)
                    n_loops += 1
                    ctx.saw(m)
                    tvars = {x.id for x in ast.walk(lp.target) if isinstance(x, ast.Name)}
                    emits = []
                    for st in lp.body:
                        for x in ast.walk(st):
                            if isinstance(x, ast.Call) and (call_name(x) in ("SubElement", "append", "set") or
                                                            (call_name(x) or "").startswith("_add")):
                                emits.append(x)
                    for e in emits:
                        en = vm.node(e)
                        g = vm.guard_for(en, lambda t: mentions(t, "_attribute_disallowed"),
                                         want_leave=("continue", "return", "break"))
                        ctx.check(g is not None, "R5.5", m.qualname, e, loc(m, e),
                                  "this attribute emission is not guarded by the _attribute_disallowed test: inLibrary "
                                  "(and other filtered attributes) would be written into unmerged output",
                                  desc="%s: emission guarded by _attribute_disallowed" % m.short)
    ctx.floor("R5.5", "attribute-emission loops", n_loops, 2)
    # the filter itself
    ad = base.methods.get("_attribute_disallowed")
    if ad is None:
        raise AnalysisError("anchor Schema2Base._attribute_disallowed vanished")
    ctx.check(mentions(ad.node, "_strip_out_in_library") and mentions(ad.node, "InLibrary"), "R5.5", ad.qualname,
              "filter body", loc(ad, ad.node), "_attribute_disallowed no longer filters inLibrary under the strip flag",
              desc="filter tests the strip flag and the inLibrary key")
    for w in writers:
        o = w.methods.get("_attribute_disallowed")
        if o is not None:
            sup = any(isinstance(c, ast.Call) and isinstance(c.func, ast.Attribute) and c.func.attr == "_attribute_disallowed"
                      and isinstance(c.func.value, ast.Call) and call_name(c.func.value) == "super" for c in walk_no_nested(o.node))
            ctx.check(sup, "R5.5", o.qualname, "override", loc(o, o.node),
                      "%s overrides the attribute filter without consulting the base filter" % w.name,
                      desc="%s filter override delegates to the base filter" % w.name)

    # ---------------- R5.8: the writers split a multi-valued attribute at the separator the readers join it with
    ctx.rule("R5.8", "attribute values are split in the writers with the separator the XML reader (and the entry) joins them with")
    joins = set()
    for f in prog.functions.values():
        if f.module.name in ("hed.schema.schema_io.xml2schema", "hed.schema.hed_schema_entry"):
            for c in walk_no_nested(f.node):
                if isinstance(c, ast.Call) and isinstance(c.func, ast.Attribute) and c.func.attr == "join" \
                        and isinstance(c.func.value, ast.Constant) and isinstance(c.func.value.value, str) and "attribute" in norm(c).lower():
                    joins.add(c.func.value.value)
    if len(joins) != 1:
        raise AnalysisError("R5.8: the readers join attribute values with %r (expected exactly one separator)" % sorted(joins))
    sep = next(iter(joins))
    n_split = 0
    for f in prog.functions.values():
        if not f.module.name.startswith("hed.schema.schema_io.schema2"):
            continue
        valnames = set()
        for lp in ast.walk(f.node):
            if isinstance(lp, ast.For) and isinstance(lp.iter, ast.Call) and call_name(lp.iter) == "items" \
                    and isinstance(lp.target, ast.Tuple) and len(lp.target.elts) == 2 and isinstance(lp.target.elts[1], ast.Name):
                valnames.add(lp.target.elts[1].id)
        if "value" in f.params():
            valnames.add("value")
        for c in walk_no_nested(f.node):
            if isinstance(c, ast.Call) and isinstance(c.func, ast.Attribute) and c.func.attr == "split" and isinstance(c.func.value, ast.Name) \
                    and c.func.value.id in valnames and c.args and isinstance(c.args[0], ast.Constant):
                n_split += 1
                ctx.saw(f)
                ctx.check(c.args[0].value == sep, "R5.8", f.qualname, c, loc(f, c),
                          "the writer splits a multi-valued attribute at %r while values are joined with %r when read: several values "
                          "are written as one (`<value>a,b</value>`), which an independent reader does not list as the original values"
                          % (c.args[0].value, sep), desc="%s splits attribute values at %r" % (f.short, sep))
    ctx.floor("R5.8", "attribute-value splits in the writers", n_split, 3)

    # ---------------- R5.9: parameters are handed on to same-named parameters of repository callees
    from sa.forward import check_forwarding
    nfw = check_forwarding(ctx, "R5.9", [f for f in prog.functions.values() if f.module.name.startswith(('hed.schema.schema_io',))], 'e.g. save_merged, the schema to merge into')
    ctx.floor("R5.9", "same-named parameter sites", nfw, 1)

    # ---------------- R5.10: units are attached to the REGISTERED unit-class entry
    ctx.rule("R5.10", "in every reader the receiver of add_unit() is the entry returned by the registration (or looked up in the schema), "
                      "never the freshly parsed entry")
    from sa.dataflow import ReachingDefs as _RD510
    n510 = 0
    for f in prog.functions.values():
        if not f.module.name.startswith("hed.schema.schema_io."):
            continue
        rd510 = None
        for c in walk_no_nested(f.node):
            if not (isinstance(c, ast.Call) and isinstance(c.func, ast.Attribute) and c.func.attr == "add_unit"
                    and isinstance(c.func.value, ast.Name)):
                continue
            n510 += 1
            ctx.saw(f)
            rd510 = rd510 or _RD510(f)
            defs = rd510.at(c, c.func.value.id) or []
            fresh = [d for d in defs if d.kind == "assign" and isinstance(d.value, ast.Call)
                     and call_name(d.value) in ("_create_entry", "_parse_node", "_create_tag_entry")]
            ctx.check(not fresh, "R5.10", f.qualname, c, loc(f, c),
                      "units are added to `%s` as it was parsed (%s), not to the entry that the registration returned: when the class "
                      "already exists (a partnered library adding units to a standard unit class, loaded unmerged) the units land on a "
                      "throw-away object and are missing after the load" % (c.func.value.id, norm(fresh[0].node)[:60] if fresh else ""),
                      desc="%s: add_unit on the registered entry" % f.short)
    ctx.floor("R5.10", "add_unit sites in the readers", n510, 3)

    # ---------------- R5.11: schema text is cut into lines at "\n" only
    ctx.rule("R5.11", "the schema readers/writers never cut text with str.splitlines (it also breaks at U+0085, U+2028, U+2029, \\x0b, \\x0c, "
                      "which descriptions may contain and the writers do not escape)")
    n511 = 0
    for f in prog.functions.values():
        if not f.module.name.startswith("hed.schema."):
            continue
        n511 += 1
        for c in walk_no_nested(f.node):
            if isinstance(c, ast.Call) and isinstance(c.func, ast.Attribute) and c.func.attr == "splitlines":
                ctx.saw(f)
                ctx.violation("R5.11", f.qualname, c, loc(f, c),
                              "`%s` cuts the text at every Unicode line boundary, not only at the newline the writers put between rows: a "
                              "description containing U+2028/U+0085 (allowed by the text class, written verbatim) is cut in two when the "
                              "MediaWiki/TSV text is read back from a string, so the round trip fails" % norm(c)[:50])
    ctx.ok("R5.11", "%d schema functions: no splitlines" % n511, "")
    ctx.floor("R5.11", "schema functions inspected", n511, 100)
