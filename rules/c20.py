"""C20 — event manager: unordered input is rejected before any processing; every opened process
is given an end before the context extraction uses it."""
import ast

from sa.dom import view, mentions
from sa.model import AnalysisError, call_name, loc, norm, walk_no_nested

LEVEL_TEXT = ("Static structural proof of necessary conditions: (R20.1) in EventManager.__init__ the `needs_sorting` "
              "test with its raise dominates every other statement that touches the input; (R20.2) every event stored "
              "in the open-process table is given an end (popped-and-ended, or ended by the final sweep), duration "
              "events get their end before they are listed, and the context extraction runs only after the sweep. "
              "Interval arithmetic, boundary cases, equal-onset rows and Delay shifting are NOT decided.")
LEVEL_EXTRA = "Added after the seeded evaluation: (R20.3) after Delay splitting, counts come from the split table; (R20.4) fresh index per Delay-shifted group; (R20.5) every access to the open-process table case-folds the definition name. (R20.6) the type/definition filter of unfold_context mutates neither its argument nor the manager's state. (R20.7) the context range of a process starts at the next time point, computed from the onsets. R20.3 also covers the consumers of the event manager (results sized by its time points, not by the input table). (R20.8) no join over a de-duplicated collection where row/process texts are combined. (R20.9) a parameter is handed on to every repository callee that takes a parameter of the same name (11 frozen exceptions package-wide). (R20.10) every Def/Def-expand row mask of the column-wise helpers is case-insensitive."


def _raising_guard(ctx, fi, word):
    """-> (cond node, label on which execution continues) for a guard `if <... word ...>: raise`,
    or a call node to a helper containing such a guard (label None)."""
    v = view(ctx, fi)
    for c in v.conds(lambda t: mentions(t, word)):
        for lab in (True, False):
            if "raise" in v.leaves(c, lab) and v.leaves(c, lab) <= {"raise"}:
                return v, c, (not lab)
    # helper form
    for n, call in v.calls(lambda c: True):
        res = ctx.cg.resolve_call(call, fi)
        for k, t in res:
            if k == "precise" and t is not fi:
                tv = view(ctx, t)
                for c in tv.conds(lambda tt: mentions(tt, word)):
                    if any("raise" in tv.leaves(c, lab) for lab in (True, False)):
                        return v, n, None
    return v, None, None


def run(ctx):
    prog, cg = ctx.prog, ctx.cg
    ctx.rule("R20.1", "the unordered-input test with a raise dominates every other statement of the constructor")
    ctx.rule("R20.2", "each opened process gets an end index before the context extraction; extraction after the sweep")
    cls = prog.find_class("EventManager")
    init = cls.methods.get("__init__")
    create = cls.methods.get("_create_event_list")
    temporal = cls.methods.get("_extract_temporal_events")
    duration = cls.methods.get("_extract_duration_events")
    context = cls.methods.get("_extract_context")
    for nm, f in (("__init__", init), ("_create_event_list", create), ("_extract_temporal_events", temporal),
                  ("_extract_duration_events", duration), ("_extract_context", context)):
        if f is None:
            raise AnalysisError("anchor EventManager.%s vanished" % nm)
    ctx.saw(init, create, temporal, duration, context)

    # ---------------- R20.1
    v, guard, cont = _raising_guard(ctx, init, "needs_sorting")
    if guard is None:
        ctx.violation("R20.1", init.qualname, "needs_sorting guard", loc(init, init.node),
                      "the constructor no longer rejects input whose onsets need sorting (no `needs_sorting` test "
                      "with a raise)")
    else:
        n_checked = 0
        for n in v.cfg.stmt_nodes():
            if n is guard or n.kind in ("handler", "with_exit"):
                continue
            if not v.node_calls(n) and not (n.kind == "stmt" and isinstance(n.ast, ast.Assign) and
                                            mentions(n.ast.value, "input_data")):
                continue
            if n.kind == "stmt" and isinstance(n.ast, ast.Raise):
                continue
            n_checked += 1
            if cont is None:
                ok = v.dominates(guard, n)
            else:
                ok = v.edge_required(guard, cont, n)
            ctx.check(ok, "R20.1", init.qualname, n.ast, loc(init, n.ast),
                      "this statement can execute before (or without) the unordered-onset rejection; an unordered "
                      "file would be processed instead of rejected",
                      desc="`%s` only after the needs_sorting guard" % norm(n.ast)[:60])
        ctx.count_paths(n_checked)
        ctx.floor("R20.1", "guarded statements in __init__", n_checked, 2)

    # ---------------- R20.2
    # the open-process table: the parameter of _extract_temporal_events that receives `param[key] = event`
    table_param = None
    for n in walk_no_nested(temporal.node):
        if isinstance(n, ast.Assign):
            for t in n.targets:
                if isinstance(t, ast.Subscript) and isinstance(t.value, ast.Name) and t.value.id in temporal.params():
                    table_param = t.value.id
    if table_param is None:
        raise AnalysisError("R20.2 anchor: no `param[key] = event` store in _extract_temporal_events")
    vc = view(ctx, create)
    table_local = None
    row_call_node = None
    for n, call in vc.calls(lambda c: call_name(c) == temporal.name):
        idx = temporal.params().index(table_param) - 1
        arg = None
        if idx < len(call.args):
            arg = call.args[idx]
        for kw in call.keywords:
            if kw.arg == table_param:
                arg = kw.value
        if isinstance(arg, ast.Name):
            table_local = arg.id
            row_call_node = n
    if table_local is None:
        raise AnalysisError("R20.2 anchor: _create_event_list does not pass a local table to %s" % temporal.name)
    # the final sweep: a loop over the table whose body calls .set_end on the loop variable
    sweeps = []
    for n in vc.cfg.nodes:
        if n.kind == "loop" and mentions(n.ast.iter, table_local):
            tgt = {x.id for x in ast.walk(n.ast.target) if isinstance(x, ast.Name)}
            if any(isinstance(c, ast.Call) and isinstance(c.func, ast.Attribute) and c.func.attr == "set_end"
                   and mentions(c.func.value, *tgt) for b in n.ast.body for c in ast.walk(b)):
                sweeps.append(n)
    ctx_calls = [n for (n, c) in vc.calls(lambda c: call_name(c) == context.name)]
    if not ctx_calls:
        ctx.xref("R20.2", loc(create, create.node), "_create_event_list no longer calls _extract_context")
    ctx.check(bool(sweeps), "R20.2", create.qualname, "final sweep over %s" % table_local, loc(create, create.node),
              "no loop gives an end to the processes still in `%s` when the file ends: their end_index stays unset and "
              "the context extraction fails or drops them" % table_local,
              desc="final sweep over `%s` sets the end of every still-open process" % table_local)
    for cn in ctx_calls:
        ok = bool(sweeps) and any(vc.dominates(s, cn) for s in sweeps)
        ctx.check(ok, "R20.2", create.qualname, cn.ast, loc(create, cn.ast),
                  "the context extraction runs before the final sweep has closed the still-open processes",
                  desc="_extract_context only after the final sweep")
        # and after the per-row scan
        if row_call_node is not None:
            loops = [n for n in vc.cfg.nodes if n.kind == "loop" and any(x is row_call_node.ast for x in ast.walk(n.ast))]
            ok = bool(loops) and all(vc.dominates(l, cn) for l in loops)
            ctx.check(ok, "R20.2", create.qualname, "scan before " + norm(cn.ast), loc(create, cn.ast),
                      "the context extraction is not preceded by the scan over all time points",
                      desc="_extract_context after the scan loop")
    for s in sweeps:
        if row_call_node is not None:
            loops = [n for n in vc.cfg.nodes if n.kind == "loop" and any(x is row_call_node.ast for x in ast.walk(n.ast))]
            ctx.check(bool(loops) and all(vc.dominates(l, s) for l in loops), "R20.2", create.qualname, s.ast.iter,
                      loc(create, s.ast), "the final sweep runs before the scan that opens processes",
                      desc="final sweep after the scan loop")
    # every other caller of _extract_context must not exist (it needs ended events)
    for k, c, n in cg.callers.get(context, []):
        if c is not create and k in ("precise",):
            ctx.violation("R20.2", c.qualname, n, loc(c, n), "%s calls _extract_context outside _create_event_list, "
                          "without the final sweep" % c.short)

    # after Delay splitting the time points are those of the split table: nothing may size or bound by the input's onsets
    ctx.rule("R20.3", "time-point counts after Delay splitting come from the split table, not from the input's onset column")
    split_nodes = [n for (n, c) in vc.calls(lambda c: call_name(c) == "split_delay_tags")]
    if split_nodes:
        after = vc.cfg.reachable_from(split_nodes[0], True) - {split_nodes[0]}
        pname = create.params()[1] if len(create.params()) > 1 else "input_data"
        n_len = 0
        for n in after:
            for c in vc.node_calls(n):
                if call_name(c) in ("len", "range") and c.args:
                    n_len += 1
                    ctx.check(not any(isinstance(x, ast.Name) and x.id == pname for x in ast.walk(c)), "R20.3", create.qualname,
                              c, loc(create, c),
                              "`%s` sizes by the input table's rows; after Delay splitting there are more time points than rows, "
                              "so a process that is still open at the end of the file is cut short by the number of delayed "
                              "groups" % norm(c)[:50], desc="`%s` sized by the split table" % norm(c)[:40])
        ctx.floor("R20.3", "len()/range() uses after the Delay split", n_len, 1)

    # consumers of the manager size their per-time-point results by the manager's time points, not by the input table
    n_cons = 0
    for f in prog.functions.values():
        if not f.module.name.startswith("hed.tools.analysis") or f is create:
            continue
        for c in walk_no_nested(f.node):
            if isinstance(c, ast.Call) and call_name(c) in ("len", "range") and c.args and "event_manager" in norm(c):
                n_cons += 1
                ctx.saw(f)
                ctx.check("input_data" not in norm(c), "R20.3", f.qualname, c, loc(f, c),
                          "`%s` sizes a per-time-point result by the input table; after Delay splitting the manager has more time "
                          "points than the table has rows, so the last (delayed) time points are dropped" % norm(c)[:60],
                          desc="%s: `%s` sized by the manager's time points" % (f.short, norm(c)[:40]))
    ctx.floor("R20.3", "len()/range() over the event manager in its consumers", n_cons, 1)

    ctx.rule("R20.4", "each Delay-shifted group is appended under an index computed afresh for that group")
    from rules.c10 import delay_split_rule
    delay_split_rule(ctx, "R20.4")

    # the open-process table is keyed by the case-folded definition name (definition names are case-insensitive)
    ctx.rule("R20.5", "every access to the open-process table case-folds the definition name (casefold)")
    from sa.norm import check_uniform, accesses_with_helpers
    acc = accesses_with_helpers(ctx, temporal, table_param)
    check_uniform(ctx, "R20.5", acc, {"casefold"}, "the open-process table `%s`" % table_param,
                  "an Onset or Offset that spells the definition name in another letter case does not find the open process: "
                  "the process is never closed (or the Offset raises KeyError)")
    ctx.floor("R20.5", "accesses of the open-process table", len(acc), 3)

    # filtering for a view (remove_types / remove_defs) works on a copy: the manager's own annotations stay as extracted
    ctx.rule("R20.6", "the type/definition filter of unfold_context never edits the annotation object it is handed (nor the manager's state)")
    from sa.effects import check_no_mutation
    fh = cls.methods.get("_filter_hed")
    if fh is None:
        raise AnalysisError("anchor EventManager._filter_hed vanished")
    nev = check_no_mutation(ctx, "R20.6", [fh], lambda fi, o: o[0] in ("P", "S", "F"),
                            "the annotation passed in / the manager's own state",
                            "a first unfold_context(remove_types=[...]) strips those tags from em.hed_strings for good: every later "
                            "view, unfold or type manager sees the stripped annotation")
    n_split = sum(1 for c in walk_no_nested(fh.node) if isinstance(c, ast.Call) and call_name(c).startswith("split_"))
    ctx.floor("R20.6", "in-place splitter calls in _filter_hed", n_split, 1)

    # rows that share an onset are one time point: a process is context only from the next *time point* on
    ctx.rule("R20.7", "the context range of a process starts at the next time point (computed from the onsets), not at the next row")
    from sa.dataflow import ReachingDefs as _RD20, depends_on as _dep20
    rd20 = _RD20(context)
    n_rng = 0
    for c in walk_no_nested(context.node):
        if isinstance(c, ast.Call) and isinstance(c.func, ast.Name) and c.func.id == "range" and len(c.args) >= 2 and \
                any(isinstance(x, ast.Attribute) and x.attr == "end_index" for x in ast.walk(c.args[1])):
            n_rng += 1
            ok = _dep20(rd20, c.args[0], c, lambda y: isinstance(y, ast.Attribute) and y.attr == "onsets")
            ctx.check(ok, "R20.7", context.qualname, c, loc(context, c),
                      "the context of a process starts at `%s`, the next *row*: rows that share the onset at which the process starts "
                      "(equal-onset rows, a Delay-shifted group landing on an existing onset) list it as context although it did not "
                      "start strictly earlier" % norm(c.args[0])[:40], desc="context range starts at the next time point")
    ctx.floor("R20.7", "context ranges in _extract_context", n_rng, 1)

    # popped events are ended (in the extraction itself or in a helper the table is handed to)
    holders = [(temporal, table_param)]
    for c in walk_no_nested(temporal.node):
        if isinstance(c, ast.Call) and any(isinstance(a, ast.Name) and a.id == table_param for a in c.args):
            order = cg.param_order.get(id(c))
            tg = [t for (k, t) in cg.resolve_call(c, temporal) if k == "precise"]
            if order and len(tg) == 1:
                for i, a in enumerate(c.args):
                    if isinstance(a, ast.Name) and a.id == table_param and i < len(order):
                        holders.append((tg[0], order[i]))
    pops = []
    for hf, tname in holders:
        ctx.saw(hf)
        vt = view(ctx, hf)
        for n in vt.cfg.nodes:
            if n.kind == "stmt" and isinstance(n.ast, ast.Assign) and isinstance(n.ast.value, ast.Call) and \
                    isinstance(n.ast.value.func, ast.Attribute) and n.ast.value.func.attr == "pop" and \
                    norm(n.ast.value.func.value) == tname and isinstance(n.ast.targets[0], ast.Name):
                var = n.ast.targets[0].id
                pops.append((n, var))
                ends = [m for (m, c) in vt.calls(lambda c, var=var: isinstance(c.func, ast.Attribute) and c.func.attr == "set_end"
                                                 and norm(c.func.value) == var)]
                ctx.check(bool(ends) and vt.every_path_to_exit_passes(n, ends), "R20.2", hf.qualname, n.ast,
                          loc(hf, n.ast), "a process popped from the open table is not given an end on every path",
                          desc="popped process `%s` is ended" % var)
    ctx.floor("R20.2", "pop sites of the open-process table", len(pops), 1)
    # a replaced entry must have been popped: the store into the table is preceded by the pop-if-present test
    # duration events: set_end between construction and listing
    vd = view(ctx, duration)
    n_dur = 0
    for n in vd.cfg.nodes:
        if n.kind == "stmt" and isinstance(n.ast, ast.Assign) and isinstance(n.ast.value, ast.Call) and \
                call_name(n.ast.value) == "TemporalEvent" and isinstance(n.ast.targets[0], ast.Name):
            var = n.ast.targets[0].id
            n_dur += 1
            ends = [m for (m, c) in vd.calls(lambda c: isinstance(c.func, ast.Attribute) and c.func.attr == "set_end"
                                             and norm(c.func.value) == var)]
            lists = [m for (m, c) in vd.calls(lambda c: isinstance(c.func, ast.Attribute) and c.func.attr == "append"
                                              and any(isinstance(a, ast.Name) and a.id == var for a in c.args))]
            ok = bool(ends) and vd.every_path_to_exit_passes(n, ends)
            ctx.check(ok, "R20.2", duration.qualname, n.ast, loc(duration, n.ast),
                      "a Duration process is created but not given an end index on every path",
                      desc="duration process `%s` is ended after construction" % var)
    ctx.floor("R20.2", "duration-event constructions", n_dur, 1)
    # the extraction really depends on end_index (anchor for the pairing argument)
    uses_end = any(isinstance(x, ast.Attribute) and x.attr == "end_index" for x in ast.walk(context.node))
    if not uses_end:
        raise AnalysisError("R20.2 anchor: _extract_context no longer reads end_index")

    # ---------------- R20.8: what is joined into a time point's text keeps every piece (equal pieces are different processes)
    join_dedupe_rule(ctx, "R20.8", ("hed.tools.analysis.event_manager", "hed.models.df_util", "hed.tools.analysis.hed_tag_manager"), 3)

    # ---------------- R20.9: parameters are handed on to same-named parameters of repository callees
    from sa.forward import check_forwarding
    nfw = check_forwarding(ctx, "R20.9", [f for f in prog.functions.values() if f.module.name.startswith(('hed.tools.analysis',))], 'e.g. remove_types, the schema')
    ctx.floor("R20.9", "same-named parameter sites", nfw, 1)

    # ---------------- R20.10: Def-expand groups of any letter case are shrunk before the temporal scan
    ctx.rule("R20.10", "every Def/Def-expand row mask of the column-wise helpers is case-insensitive")
    from sa.idioms import check_def_masks_case_insensitive
    check_def_masks_case_insensitive(ctx, "R20.10")


def join_dedupe_rule(ctx, rule, modules, floor):
    prog = ctx.prog
    ctx.rule(rule, "no join over a de-duplicated collection where row/process texts are combined")
    n_join = 0
    for f in prog.functions.values():
        if f.module.name not in modules:
            continue
        rdj = None
        for c in walk_no_nested(f.node):
            if not (isinstance(c, ast.Call) and isinstance(c.func, ast.Attribute) and c.func.attr == "join"
                    and isinstance(c.func.value, ast.Constant) and c.args):
                continue
            n_join += 1
            ctx.saw(f)
            exprs = [c.args[0]]
            if isinstance(c.args[0], ast.Name):
                from sa.dataflow import ReachingDefs as _RD20
                rdj = rdj or _RD20(f)
                exprs += [d.value for d in (rdj.at(c, c.args[0].id) or []) if d.value is not None]
            dedupe = [x for e in exprs for x in ast.walk(e) if isinstance(x, ast.Call) and (
                (isinstance(x.func, ast.Attribute) and x.func.attr == "fromkeys") or
                (isinstance(x.func, ast.Name) and x.func.id in ("set", "frozenset")) or
                (isinstance(x.func, ast.Attribute) and x.func.attr in ("unique", "drop_duplicates")))]
            ctx.check(not dedupe, rule, f.qualname, c, loc(f, c),
                      "the pieces are de-duplicated before they are joined: two rows of one time point (or two ongoing processes) "
                      "with the same text are different events, and one of them disappears from the time point / the context",
                      desc="%s: every piece is joined" % f.short)
    ctx.floor(rule, "joins of row/process texts", n_join, floor)
