"""C14 — schema compliance: every fault kind has a wired validator in both rule generations with
the specification's code, every table entry has the validator signature, the per-section passes
range over the section enum, push/pop balanced."""
import ast

from sa import wiring
from sa.callgraph import STRONG_KINDS
from sa.model import AnalysisError, ClassInfo, FunctionInfo, call_name, loc, norm, walk_no_nested
from sa.dom import view, mentions
from sa.stack import check_balance

LEVEL_TEXT = ("Static structural proof of necessary conditions: (R14.1) the 17 schema-fault keys are registered with the "
              "specification's code and emitted at a site reachable from HedSchema.check_compliance, and each fault kind's "
              "validator is in the pre-8.3 table, the 8.3 table or the 8.3 range table as the specification's table "
              "prescribes; (R14.2) every function placed in those tables (also through functools.partial) accepts the "
              "(schema, entry, attribute) call made by the runner; (R14.3) the three per-section passes iterate the "
              "section enum itself; (R14.4) error-context push/pop balanced. That released schemas pass and that a "
              "seeded fault is detected at every position are NOT decided.")
LEVEL_EXTRA = "Added after the seeded evaluation: (R14.5) known/unknown of an attribute is decided against the valid-attribute table of the entry's own section. (R14.6) no issue list is discarded inside the compliance modules. (R14.7) attribute validators are skipped for attributes the entry's section does not declare. Added after the hunting pass: (R14.8) the key tested for an existing tag is one of the registered forms (a known finding today: repeated '#' children); (R14.9) per-library tables are consulted with the entry's own inLibrary value; (R14.10) NaN takes the conversion-factor report; (R14.11) the character pass guards the str use of raw attribute values. (R14.12) a deprecatedFrom equal to the schema version takes the report; (R14.13) the unknown-attribute report is conditional on nothing but the unknown attributes; (R14.14) default units are looked up on the entry under validation; (R14.15) schema_version_for_library can answer with withStandard; (R14.16) the inLibrary report is guarded by the membership test alone. (R14.17) the missing-item report of item_exists_check depends on the item lookup alone. (R14.18) the previous entry is looked up in the section of the entry under validation. (R14.19) a parameter is handed on to every repository callee that takes a parameter of the same name (11 frozen exceptions package-wide)."

SIG = ["hed_schema", "tag_entry", "attribute_name"]


def table_functions(prog, expr, module, cls):
    """-> {evaluated key: [(FunctionInfo, partial keyword names, node)]} for a dict display of validator lists."""
    out = {}
    if not isinstance(expr, ast.Dict):
        return None
    for k, v in zip(expr.keys, expr.values):
        kv = prog.try_const(k, module, cls)
        lst = []
        elts = v.elts if isinstance(v, (ast.List, ast.Tuple)) else [v]
        for e in elts:
            kws = []
            target = e
            if isinstance(e, ast.Call) and call_name(e) == "partial" and e.args:
                target = e.args[0]
                kws = [kw.arg for kw in e.keywords if kw.arg]
                npos = len(e.args) - 1
            else:
                npos = 0
            r = prog.resolve_expr(target, module, cls)
            lst.append((r if isinstance(r, FunctionInfo) else None, kws, npos, e))
        out[kv] = lst
    return out


def run(ctx):
    prog, cg = ctx.prog, ctx.cg
    ctx.rule("R14.1", "each schema-fault key registered with the specification code, reachable from check_compliance; "
                      "validator tables contain the prescribed validator per fault kind and generation")
    ctx.rule("R14.2", "every function in the validator tables accepts (hed_schema, tag_entry, attribute_name)")
    ctx.rule("R14.3", "per-section passes iterate HedSectionKey itself")
    ctx.rule("R14.4", "push/pop of error contexts balanced in the compliance functions")
    table = wiring.load_table("c14_rules.json")
    hs = prog.find_class("HedSchema")
    entry = hs.methods.get("check_compliance")
    mod = prog.find_module("schema.schema_compliance")
    cc = mod.functions.get("check_compliance")
    sv = mod.classes.get("SchemaValidator")
    if entry is None or cc is None or sv is None:
        raise AnalysisError("C14 anchors vanished")
    ctx.check(cc in cg.reachable([entry], STRONG_KINDS), "R14.1", entry.qualname, "delegation", loc(entry, entry.node),
              "HedSchema.check_compliance no longer reaches schema_compliance.check_compliance",
              desc="HedSchema.check_compliance -> schema_compliance.check_compliance")
    n = wiring.check_wiring(ctx, "R14.1", table["rows"], cc)
    ctx.floor("R14.1", "schema fault keys", n, 17)

    # the driver calls the passes
    called = {call_name(c) for c in walk_no_nested(cc.node) if isinstance(c, ast.Call)}
    for need in ("check_attributes", "check_duplicate_names", "check_invalid_chars", "check_prologue_epilogue"):
        ctx.check(need in called, "R14.1", cc.qualname, "pass " + need, loc(cc, cc.node),
                  "check_compliance no longer runs %s" % need, desc="driver runs %s" % need)

    # ---- validator tables
    gv = sv.methods.get("_get_validators")
    grv = sv.methods.get("_get_range_validators")
    if gv is None or grv is None:
        raise AnalysisError("anchor SchemaValidator._get_validators/_get_range_validators vanished")
    ctx.saw(gv, grv)
    tables = {}
    for nm in ("attribute_validators_old", "attribute_validators"):
        if nm not in sv.attrs:
            raise AnalysisError("anchor SchemaValidator.%s vanished" % nm)
        tables[nm] = table_functions(prog, sv.attrs[nm], mod, sv)
    rv = None
    for n_ in ast.walk(grv.node):
        # the table is a dict display in the method, or a module/class constant the method reads
        cand = None
        if isinstance(n_, ast.Assign) and isinstance(n_.value, ast.Dict):
            cand = n_.value
        elif isinstance(n_, ast.Name) and isinstance(n_.ctx, ast.Load) and isinstance(mod.assigns.get(n_.id), ast.Dict):
            cand = mod.assigns[n_.id]
        elif isinstance(n_, ast.Attribute) and isinstance(n_.value, ast.Name) and n_.value.id in ("self", "cls", sv.name) \
                and isinstance(sv.attrs.get(n_.attr), ast.Dict):
            cand = sv.attrs[n_.attr]
        if cand is not None:
            rv = table_functions(prog, cand, mod, sv)
    if rv is None:
        raise AnalysisError("anchor: range validator table not found in _get_range_validators")
    tables["range_validators"] = rv
    hedkey = prog.find_class("HedKey")
    hk = prog.class_constants(hedkey)
    n_rows = 0
    for tname, want in table["validators"].items():
        t = tables[tname]
        for kref, vnames in want.items():
            kval = hk.get(kref.split(".", 1)[1])
            if kval is None:
                raise AnalysisError("anchor constant vanished: %s" % kref)
            have = [f.name for (f, _, _, _) in t.get(kval, []) if f is not None]
            for vn in vnames:
                n_rows += 1
                ctx.check(vn in have, "R14.1", sv.qualname + "." + tname, "%s -> %s" % (kref, vn), loc(mod, sv.node),
                          "table %s has no %s for attribute %s (row: %s): that fault kind is never checked for this "
                          "schema generation" % (tname, vn, kref, have), desc="%s[%s] contains %s" % (tname, kref, vn))
    ctx.floor("R14.1", "prescribed table rows", n_rows, 24)
    # the tables are consulted by generation, and the always-on validators are appended in both branches
    src = norm(gv.node)
    for tname in ("attribute_validators_old", "attribute_validators"):
        ctx.check(("self.%s" % tname) in src or ("SchemaValidator.%s" % tname) in src, "R14.1", gv.qualname, "use of " + tname,
                  loc(gv, gv.node), "_get_validators no longer consults %s" % tname, desc="_get_validators consults %s" % tname)
    ctx.check(any(isinstance(c, ast.Call) and call_name(c) == "_get_range_validators" for c in walk_no_nested(gv.node)),
              "R14.1", gv.qualname, "use of range validators", loc(gv, gv.node),
              "_get_validators no longer adds the range validators (existence checks of the 8.3 generation)",
              desc="_get_validators adds range validators")
    vgv = view(ctx, gv)
    for vn in table["always"]["both"]:
        hold = {n_ for n_ in vgv.cfg.nodes if any(isinstance(x, ast.Attribute) and x.attr == vn for r_ in vgv.node_roots(n_) for x in ast.walk(r_))}
        ok_always = bool(hold) and vgv.cfg.exit not in vgv.reachable_from_entry(avoid=hold)
        ctx.check(ok_always, "R14.1", gv.qualname, "always-on " + vn, loc(gv, gv.node),
                  "%s is not appended on every path through _get_validators (both rule generations)" % vn, desc="%s on every path" % vn)
    for vn in table["always"]["new"]:
        ctx.check(any(isinstance(x, ast.Attribute) and x.attr == vn for x in ast.walk(gv.node)), "R14.1", gv.qualname,
                  "always-on " + vn, loc(gv, gv.node), "%s is no longer added for hedId" % vn, desc="%s added for hedId" % vn)

    # ---------------- R14.2
    n_f = 0
    allrows = []
    for tname, t in tables.items():
        for kval, lst in t.items():
            for f, kws, npos, node in lst:
                allrows.append((tname, kval, f, kws, npos, node))
    # always-on functions
    for x in ast.walk(gv.node):
        if isinstance(x, ast.Attribute) and isinstance(x.ctx, ast.Load):
            r = prog.resolve_expr(x, mod, sv, gv)
            if isinstance(r, FunctionInfo) and r.module.name.startswith("hed.schema.schema_attribute"):
                allrows.append(("_get_validators", x.attr, r, [], 0, x))
            elif x.attr == "verify_tag_id":
                r = prog.try_function("HedIDValidator.verify_tag_id")
                if r is not None:
                    allrows.append(("_get_validators", x.attr, r, [], 0, x))
    for tname, kval, f, kws, npos, node in allrows:
        if f is None:
            ctx.violation("R14.2", sv.qualname + "." + tname, node, "%s:%d" % (mod.relpath, node.lineno),
                          "table entry %s for %r does not resolve to a function of the package" % (norm(node)[:60], kval))
            continue
        n_f += 1
        ctx.saw(f)
        a = f.node.args
        params = [p.arg for p in a.posonlyargs + a.args]
        if f.cls is not None and not f.is_static and params and params[0] in ("self", "cls"):
            params = params[1:]
        ndef = len(a.defaults)
        required = params[:len(params) - ndef] if ndef else list(params)
        free = params[npos:]
        ok = True
        why = ""
        if len(free) < 3 and a.vararg is None:
            ok, why = False, "takes %d positional parameter(s) %s, the runner passes 3" % (len(free), free)
        for k in kws:
            if k in free[:3]:
                ok, why = False, "partial() binds %r by keyword, which the runner also passes positionally" % k
            elif k not in params and k not in [x.arg for x in a.kwonlyargs] and a.kwarg is None:
                ok, why = False, "partial() binds unknown keyword %r" % k
        for p in required[npos:]:
            if p not in free[:3] and p not in kws:
                ok, why = False, "required parameter %r is neither passed by the runner nor bound by partial()" % p
        ctx.check(ok, "R14.2", sv.qualname + "." + tname, "%r: %s" % (kval, norm(node)[:70]), "%s:%d" % (mod.relpath, node.lineno),
                  "validator %s registered for %r does not accept the runner's call validator(hed_schema, tag_entry, "
                  "attribute_name): %s — TypeError the first time an entry with that attribute is checked" % (f.name, kval, why),
                  desc="%s accepts (schema, entry, attribute)" % f.name)
    ctx.floor("R14.2", "table functions", n_f, 25)
    # the runner's call shape (anchor for R14.2)
    rvf = sv.methods.get("_run_validators")
    shape = []
    if rvf:
        loopvars = {x.id for lp in walk_no_nested(rvf.node) if isinstance(lp, ast.For) and isinstance(lp.iter, ast.Name)
                    and lp.iter.id in rvf.params() for x in ast.walk(lp.target) if isinstance(x, ast.Name)}
        shape = [c for c in walk_no_nested(rvf.node) if isinstance(c, ast.Call) and isinstance(c.func, ast.Name)
                 and c.func.id in loopvars]
    if not shape or len(shape[0].args) != 3 or shape[0].keywords:
        raise AnalysisError("R14.2 anchor: _run_validators no longer calls validator(schema, entry, attribute)")

    # ---------------- R14.3
    enum = prog.find_class("HedSectionKey")
    n_loops = 0
    for nm in ("check_attributes", "check_duplicate_names", "check_invalid_chars"):
        m = sv.methods.get(nm)
        if m is None:
            raise AnalysisError("anchor SchemaValidator.%s vanished" % nm)
        ctx.saw(m)
        loops = [lp for lp in walk_no_nested(m.node) if isinstance(lp, ast.For) and isinstance(lp.target, ast.Name)
                 and any(isinstance(x, ast.Subscript) and isinstance(x.slice, ast.Name) and x.slice.id == lp.target.id
                         and "hed_schema" in norm(x.value) for x in ast.walk(lp))]
        for lp in loops:
            n_loops += 1
            it = lp.iter
            while isinstance(it, ast.Call) and call_name(it) in ("list", "tuple", "sorted", "iter") and it.args:
                it = it.args[0]
            ok = prog.resolve_expr(it, m.module, m.cls, m) is enum if isinstance(it, (ast.Name, ast.Attribute)) else False
            ctx.check(ok, "R14.3", m.qualname, lp.iter, loc(m, lp),
                      "%s iterates `%s` instead of the section enum: sections outside that list are never checked" % (
                          nm, norm(lp.iter)[:60]), desc="%s iterates HedSectionKey" % nm)
    ctx.floor("R14.3", "per-section loops", n_loops, 2)

    # ---------------- R14.4
    funcs = [cc] + [sv.methods[nm] for nm in ("_run_validators", "check_attributes", "check_invalid_chars") if nm in sv.methods]
    for m in sv.methods.values():
        if m not in funcs and any(isinstance(n_, ast.Call) and isinstance(n_.func, ast.Attribute) and
                                  n_.func.attr in ("push_error_context", "pop_error_context") for n_ in walk_no_nested(m.node)):
            funcs.append(m)
    pushes, pops = check_balance(ctx, "R14.4", funcs)
    ctx.floor("R14.4", "push sites", pushes, 5)

    # ---------------- R14.5: 'declared for that section' is decided against the entry's own section table
    ctx.rule("R14.5", "whether an attribute is unknown for an entry is decided against the valid-attribute table of the entry's section")
    from sa.dataflow import ReachingDefs, depends_on
    ent = prog.find_class("HedSchemaEntry")
    n_tests = 0
    for m in ent.all_methods:
        if "_unknown_attributes" not in norm(m.node):
            continue
        rd_m = None
        for x in walk_no_nested(m.node):
            if isinstance(x, ast.Compare) and len(x.ops) == 1 and isinstance(x.ops[0], (ast.In, ast.NotIn)) and \
                    "_unknown_attributes" not in norm(x.comparators[0]):
                rd_m = rd_m or ReachingDefs(m)
                n_tests += 1
                ctx.saw(m)
                ok = depends_on(rd_m, x.comparators[0], x, lambda y: isinstance(y, ast.Attribute) and y.attr == "_section")
                ctx.check(ok, "R14.5", m.qualname, x, loc(m, x),
                          "`%s` decides known/unknown against `%s`, which is not the valid-attribute table of this entry's "
                          "section: an attribute declared only for another section (e.g. a unit attribute on a tag) is no longer "
                          "reported as unknown" % (norm(x)[:50], norm(x.comparators[0])[:40]),
                          desc="%s: known/unknown decided by the section's table" % m.short)
    ctx.floor("R14.5", "known/unknown membership tests in HedSchemaEntry", n_tests, 2)

    # ---------------- R14.6: nothing a validator reports is thrown away
    ctx.rule("R14.6", "no issue list returned inside the compliance modules is discarded")
    from sa.issues import check_no_dropped_issues
    sc14 = [f for f in prog.functions.values() if f.module.name in (
        "hed.schema.schema_compliance", "hed.schema.schema_attribute_validators", "hed.schema.schema_attribute_validator_hed_id",
        "hed.schema.schema_validation_util")]
    ns14 = check_no_dropped_issues(ctx, "R14.6", sc14)
    ctx.floor("R14.6", "issue-producing calls in the compliance modules", ns14, 8)

    # ---------------- R14.7: value validators run only for attributes that are declared for the entry's section
    ctx.rule("R14.7", "attribute validators (which assume the entry kind of their section) are not run for attributes the entry's section does not declare")
    cta = sv.methods.get("_check_tag_entry_attributes")
    if cta is None:
        raise AnalysisError("anchor SchemaValidator._check_tag_entry_attributes vanished")
    ctx.saw(cta)
    v7 = view(ctx, cta)
    runs = [(n_, c) for (n_, c) in v7.calls(lambda c: call_name(c) == "_run_validators")]
    ctx.floor("R14.7", "validator runs in _check_tag_entry_attributes", len(runs), 1)
    # evidence that validators are entry-kind specific: members used on the entry that the base entry class does not have
    base_members = set(ent.methods) | {"attributes", "name", "description", "section_key", "_unknown_attributes", "_section"}
    specific = set()
    for f in prog.functions.values():
        if f.module.name == "hed.schema.schema_attribute_validators" and len(f.params()) >= 2:
            pn = f.params()[1]
            for x in walk_no_nested(f.node):
                if isinstance(x, ast.Attribute) and isinstance(x.value, ast.Name) and x.value.id == pn and x.attr not in base_members:
                    specific.add("%s.%s" % (f.name, x.attr))
    for n_, c in runs:
        from sa.dataflow import ReachingDefs as _RD147, depends_on as _dep147
        rd147 = _RD147(cta)
        g = v7.guard_for(n_, lambda t: mentions(t, "_unknown_attributes") or _dep147(
            rd147, t, t, lambda y: isinstance(y, ast.Attribute) and y.attr == "_unknown_attributes"))
        ctx.check(g is not None or not specific, "R14.7", cta.qualname, c, loc(cta, c),
                  "validators are run for every attribute an entry carries, also for one that its section does not declare "
                  "(already reported as unknown); they use members only some entry kinds have (%s), so e.g. `defaultUnits` seeded on a "
                  "tag makes check_compliance raise AttributeError instead of reporting the fault" % ", ".join(sorted(specific)[:4]),
                  desc="validators skipped for attributes unknown to the entry's section")

    # ---------------- R14.8: the name tested for "already defined" is one of the forms this section registers
    ctx.rule("R14.8", "in the tag section the key tested for an existing definition is drawn from the forms that are registered")
    from sa.dataflow import ReachingDefs, depends_on
    tsec = prog.find_class("HedSchemaTagSection")
    cid = tsec.methods.get("_check_if_duplicate")
    if cid is None:
        raise AnalysisError("anchor HedSchemaTagSection._check_if_duplicate vanished")
    ctx.saw(cid)
    rd8 = ReachingDefs(cid)
    stores = []     # (for node, iter name) whose body stores self.<table>[...] = entry
    for lp in walk_no_nested(cid.node):
        if isinstance(lp, ast.For) and isinstance(lp.iter, ast.Name):
            for st in ast.walk(lp):
                if isinstance(st, ast.Assign) and any(isinstance(t, ast.Subscript) and norm(t.value).startswith("self.") for t in st.targets):
                    stores.append((lp, lp.iter.id))
                    break
    tests = [c for c in walk_no_nested(cid.node) if isinstance(c, ast.Compare) and len(c.ops) == 1
             and isinstance(c.ops[0], (ast.In, ast.NotIn)) and norm(c.comparators[0]) in ("self", "self.long_form_tags")]
    ctx.floor("R14.8", "registration loops over the tag forms", len(stores), 1)
    ctx.floor("R14.8", "existing-definition tests", len(tests), 1)
    forms = {nm for _, nm in stores}
    for c in tests:
        stmt = c
        pm8 = {id(ch): p for p in ast.walk(cid.node) for ch in ast.iter_child_nodes(p)}
        while not isinstance(stmt, ast.stmt):
            stmt = pm8[id(stmt)]
        ok = depends_on(rd8, c.left, stmt, lambda n: isinstance(n, ast.Name) and n.id in forms)
        why = ""
        if not ok:
            # the key may come out of a helper that returns (key, forms): then the helper must derive it from the forms
            for nm in [x.id for x in ast.walk(c.left) if isinstance(x, ast.Name)]:
                for d in rd8.at(stmt, nm) or []:
                    if d.kind == "unpack" and isinstance(d.value, ast.Call) and d.index is not None:
                        for (k, callee) in cg.resolve_call(d.value, cid):
                            rdc = ReachingDefs(callee)
                            rets = [r for r in walk_no_nested(callee.node) if isinstance(r, ast.Return)
                                    and isinstance(r.value, ast.Tuple) and len(r.value.elts) > d.index]
                            fidx = [i for i, t in enumerate(_unpack_names(d.node)) if t in forms]
                            if rets and fidx and all(
                                    depends_on(rdc, r.value.elts[d.index], r,
                                               lambda n, r=r: isinstance(n, ast.Name) and norm(n) == norm(r.value.elts[fidx[0]]))
                                    for r in rets):
                                ok = True
                            else:
                                why = " (%s returns it independently of the forms it returns)" % callee.short
        ctx.check(ok, "R14.8", cid.qualname, c, loc(cid, c),
                  "the key tested for an existing tag is not one of the forms the section registers%s: a `#` placeholder is tested "
                  "under the bare '#', which is never registered, so a second placeholder under the same parent silently replaces "
                  "the first and no duplicate is recorded" % why,
                  desc="duplicate test key is drawn from the registered forms")

    # ---------------- R14.9: per-library tables are consulted with the entry's own library name
    ctx.rule("R14.9", "the library name that selects id range / previous schema / known versions is the entry's own inLibrary value")
    n_lib = 0
    vmods = ("hed.schema.schema_attribute_validators", "hed.schema.schema_attribute_validator_hed_id")
    for f in prog.functions.values():
        if f.module.name not in vmods:
            continue
        for c in walk_no_nested(f.node):
            if not isinstance(c, ast.Call) or not c.args or not norm(c.args[0]).endswith("InLibrary"):
                continue
            cn = call_name(c)
            if cn == "get" and isinstance(c.func, ast.Attribute) and norm(c.func.value).endswith(".attributes"):
                n_lib += 1
                ctx.saw(f)
                ctx.ok("R14.9", "%s reads the entry's own inLibrary value" % f.short, loc(f, c))
            elif cn == "has_attribute":
                rv = [kw.value for kw in c.keywords if kw.arg == "return_value"] + list(c.args[1:2])
                if rv and isinstance(rv[0], ast.Constant) and rv[0].value is True:
                    n_lib += 1
                    ctx.saw(f)
                    ctx.violation("R14.9", f.qualname, c, loc(f, c),
                                  "the library name is read through the inherited attribute view, which for a tag below another "
                                  "library tag is the comma-joined value of all ancestors ('score,score'): no per-library table has "
                                  "such a key, so the id range / changed-id / version checks are silently skipped for nested library tags")
    ctx.floor("R14.9", "library-name reads in the attribute validators", n_lib, 2)

    # ---------------- R14.10: a conversion factor that is not a number greater than zero is reported (NaN included)
    ctx.rule("R14.10", "the conversion-factor rejection test is taken by NaN (accept only through a true `> 0`)")
    cfun = prog.find_function("schema_attribute_validators.conversion_factor")
    ctx.saw(cfun)
    v10 = view(ctx, cfun)
    fvars = set()

    def _is_float_conv(e, f, depth=0):
        # float(...) itself, or a repository helper one of whose returns is such a conversion
        if not isinstance(e, ast.Call):
            return False
        if call_name(e) == "float" and isinstance(e.func, ast.Name):
            return True
        if depth < 2:
            for k, t in cg.resolve_call(e, f):
                if k == "precise" and any(isinstance(r_, ast.Return) and r_.value is not None and
                                          _is_float_conv(r_.value, t, depth + 1) for r_ in walk_no_nested(t.node)):
                    ctx.saw(t)
                    return True
        return False
    for a in walk_no_nested(cfun.node):
        if isinstance(a, ast.Assign) and _is_float_conv(a.value, cfun):
            fvars |= {t.id for t in a.targets if isinstance(t, ast.Name)}
    emits = [(n_, c) for (n_, c) in v10.calls(lambda c: call_name(c) == "format_error" and "CONVERSION_FACTOR" in norm(c))]
    ctx.floor("R14.10", "float conversions in conversion_factor", len(fvars), 1)
    ctx.floor("R14.10", "conversion-factor reports", len(emits), 1)
    for n_, c in emits:
        ok = False
        for cond in v10.conds(lambda t: any(mentions(t, fv) for fv in fvars)):
            for lab in (True, False):
                if v10.edge_guards(cond, lab, n_) and _nan_outcomes(cond.ast, fvars) == {lab}:
                    ok = True
        ctx.check(ok, "R14.10", cfun.qualname, c, loc(cfun, c),
                  "the report is not reached for NaN: every ordering comparison with NaN is false, so a rejection written as "
                  "`cf <= 0` lets `conversionFactor=nan` through as a valid factor",
                  desc="NaN takes the reporting branch")

    # ---------------- R14.11: the character pass sees every entry, so attribute values may be the flag value True
    ctx.rule("R14.11", "term/description validators run on every entry guard the str use of a raw attribute value")
    from sa.null import check_nullable
    cic = sv.methods.get("check_invalid_chars")
    if cic is None:
        raise AnalysisError("anchor SchemaValidator.check_invalid_chars vanished")
    slot = set()
    # functions used as values (not called in place) by the pass or by the class helpers it calls
    scope_cic = [cic] + [f for f in cg.reachable([cic], STRONG_KINDS) if f.cls is sv and f is not cic]
    for fn in scope_cic:
        called_here = {id(c.func) for c in ast.walk(fn.node) if isinstance(c, ast.Call)}
        for e in ast.walk(fn.node):
            if isinstance(e, (ast.Name, ast.Attribute)) and isinstance(e.ctx, ast.Load) and id(e) not in called_here:
                r = prog.resolve_expr(e, fn.module, sv)
                if isinstance(r, FunctionInfo):
                    slot.add(r)
    ctx.floor("R14.11", "validators placed in the character pass", len(slot), 5)
    scope11 = [f for f in cg.reachable(sorted(slot, key=lambda f: f.qualname), STRONG_KINDS)
               if f.module.name.startswith("hed.schema.schema_validation_util")]

    def raw_attr(fi, node):
        if isinstance(node, ast.Call) and call_name(node) == "get" and isinstance(node.func, ast.Attribute) \
                and norm(node.func.value).endswith(".attributes"):
            return "an attribute written without a value is stored as True"
        return None
    n11 = check_nullable(ctx, "R14.11", scope11, raw_attr, "raw attribute values in the character pass",
                         what="need not be a string", test="isinstance test")
    ctx.floor("R14.11", "raw attribute reads in the character pass", n11, 1)

    # ---------------- R14.12: a deprecatedFrom equal to the schema's own version takes the report
    ctx.rule("R14.12", "the deprecatedFrom test reports a version equal to the schema's (not older = invalid)")
    tdc = prog.find_function("schema_attribute_validators.tag_is_deprecated_check")
    ctx.saw(tdc)
    v12 = view(ctx, tdc)
    emits12 = [(n_, c) for (n_, c) in v12.calls(lambda c: call_name(c) == "format_error" and "SCHEMA_DEPRECATED_INVALID" in norm(c))]
    ctx.floor("R14.12", "deprecatedFrom reports", len(emits12), 1)
    decided = 0
    for n_, c in emits12:
        for cond in v12.conds(lambda t: any(isinstance(x, ast.Call) and call_name(x) == "Version" for x in ast.walk(t))):
            for lab in (True, False):
                if not v12.edge_guards(cond, lab, n_):
                    continue
                out = _equal_version_outcomes(cond.ast)
                if out == {lab}:
                    decided += 1
                    ctx.ok("R14.12", "equal versions take the reporting edge of %s" % norm(cond.ast)[:70], loc(tdc, cond.ast))
                elif out == {not lab}:
                    decided += 1
                    ctx.violation("R14.12", tdc.qualname, cond.ast, loc(tdc, cond.ast),
                                  "with deprecatedFrom equal to the schema's own (known) version the test does not reach the report: only "
                                  "a strictly newer version is refused, although a tag cannot be deprecated from the version that is being released")
        # the version test handed to a predicate helper: its returns that compare versions, read with the polarity of the call
        for cond in v12.conds(lambda t: any(isinstance(x, ast.Call) for x in ast.walk(t))):
            for lab in (True, False):
                if not v12.edge_guards(cond, lab, n_):
                    continue
                for call_, need in _forced_calls(cond.ast, lab):
                    for h in [h for (k, h) in cg.resolve_call(call_, tdc) if k == "precise"]:
                        for r_ in walk_no_nested(h.node):
                            if isinstance(r_, ast.Return) and r_.value is not None and \
                                    any(isinstance(x, ast.Call) and call_name(x) == "Version" for x in ast.walk(r_.value)):
                                ctx.saw(h)
                                out = _equal_version_outcomes(r_.value)
                                if out == {need}:
                                    decided += 1
                                    ctx.ok("R14.12", "equal versions make %s answer %s, the reporting edge" % (h.short, need), loc(h, r_))
                                elif out == {not need}:
                                    decided += 1
                                    ctx.violation("R14.12", h.qualname, r_.value, loc(h, r_),
                                                  "with deprecatedFrom equal to the schema's own (known) version the test does not reach the report: only "
                                                  "a strictly newer version is refused, although a tag cannot be deprecated from the version that is being released")
    ctx.floor("R14.12", "decidable version tests guarding the report", decided, 1)

    # ---------------- R14.13: the unknown-attribute report depends on nothing but the entry's unknown attributes
    ctx.rule("R14.13", "every entry with attributes its section does not declare reaches the SCHEMA_ATTRIBUTE_INVALID report")
    chain = [("check_attributes", "_check_tag_entry_attributes"), ("_check_tag_entry_attributes", "_check_unknown_attributes"),
             ("_check_unknown_attributes", "format_error_with_context")]
    n13 = 0
    for caller, callee in chain:
        fm = sv.methods.get(caller)
        if fm is None:
            raise AnalysisError("anchor SchemaValidator.%s vanished" % caller)
        ctx.saw(fm)
        vv = view(ctx, fm)
        sites = [(n_, c) for (n_, c) in vv.calls(lambda c, callee=callee: call_name(c) == callee
                                                 and (callee != "format_error_with_context" or "SCHEMA_ATTRIBUTE_INVALID" in norm(c)))]
        if not sites:
            raise AnalysisError("R14.13: %s no longer calls %s" % (caller, callee))
        for n_, c in sites:
            n13 += 1
            for cond in vv.conds():
                for lab in (True, False):
                    if cond is not n_ and vv.edge_guards(cond, lab, n_):
                        names = {x.attr if isinstance(x, ast.Attribute) else x.id for x in ast.walk(cond.ast)
                                 if isinstance(x, (ast.Attribute, ast.Name))}
                        extra = names - {"_unknown_attributes", "tag_entry", "attribute_name", "self", "len"}
                        ctx.check(not extra, "R14.13", fm.qualname, cond.ast, loc(fm, cond.ast),
                                  "the report of attributes that the entry's section does not declare is made conditional on something else "
                                  "(%s): entries for which it is false keep undeclared attributes unreported" % ", ".join(sorted(extra)),
                                  desc="report conditional only on the unknown attributes")
    ctx.floor("R14.13", "links of the unknown-attribute report chain", n13, 3)

    # ---------------- R14.14: default units are looked up among the units of the entry's own class
    ctx.rule("R14.14", "unit_exists looks the unit up on the entry under validation, not across the schema")
    uex = prog.find_function("schema_attribute_validators.unit_exists")
    ctx.saw(uex)
    from sa.dataflow import ReachingDefs as _RD, depends_on as _dep
    rd14 = _RD(uex)
    ups = uex.params()
    looks = [c for c in walk_no_nested(uex.node) if isinstance(c, ast.Call) and isinstance(c.func, ast.Attribute)
             and c.func.attr in ("get_derivative_unit_entry", "get") and ("unit" in norm(c.func).lower())
             and not norm(c.func.value).endswith(".attributes")]
    ctx.floor("R14.14", "unit lookups in unit_exists", len(looks), 1)
    for c in looks:
        recv = c.func.value
        on_entry = _dep(rd14, recv, c, lambda x: isinstance(x, ast.Name) and x.id == ups[1])
        on_schema = _dep(rd14, recv, c, lambda x: isinstance(x, ast.Name) and x.id == ups[0])
        ctx.check(on_entry and not on_schema, "R14.14", uex.qualname, c, loc(uex, c),
                  "the unit named by defaultUnits is looked up outside the entry's own unit class (through the schema): a unit of "
                  "another class is accepted as default unit", desc="unit looked up on the entry's own class")

    # ---------------- R14.15: the version of the standard part of a partnered schema is its withStandard
    ctx.rule("R14.15", "schema_version_for_library can answer with the schema's withStandard version")
    svl = prog.find_function("schema_validation_util.schema_version_for_library")
    ctx.saw(svl)
    rd15 = _RD(svl)
    rets15 = [r for r in walk_no_nested(svl.node) if isinstance(r, ast.Return) and r.value is not None]
    ctx.floor("R14.15", "returns of schema_version_for_library", len(rets15), 1)
    ok15 = any(_dep(rd15, r.value, r, lambda x: isinstance(x, ast.Attribute) and x.attr == "with_standard") for r in rets15)
    # or stored into the table the answer is read from
    ok15 = ok15 or any(isinstance(a, (ast.Assign, ast.AugAssign)) and any(isinstance(x, ast.Attribute) and x.attr == "with_standard"
                                                                            for x in ast.walk(a.value)) for a in walk_no_nested(svl.node))
    ctx.check(ok15, "R14.15", svl.qualname, "partnered-standard answer", loc(svl, svl.node),
              "no returned value derives from the schema's withStandard: for the standard part of a partnered library the version is "
              "unknown (None), so deprecatedFrom on its standard tags is never compared with the schema's version",
              desc="a return derives from hed_schema.with_standard")

    # ---------------- R14.16: a foreign inLibrary value is reported whenever it is not one of the schema's libraries
    ctx.rule("R14.16", "the inLibrary report is conditional on the membership test alone")
    ilc = prog.find_function("schema_attribute_validators.in_library_check")
    ctx.saw(ilc)
    v16 = view(ctx, ilc)
    emits16 = [(n_, c) for (n_, c) in v16.calls(lambda c: call_name(c) == "format_error" and "SCHEMA_IN_LIBRARY_INVALID" in norm(c))]
    ctx.floor("R14.16", "inLibrary reports", len(emits16), 1)
    for n_, c in emits16:
        n_member = 0
        for cond in v16.conds():
            for lab in (True, False):
                if v16.edge_guards(cond, lab, n_):
                    t = cond.ast
                    pure = isinstance(t, ast.Compare) and len(t.ops) == 1 and isinstance(t.ops[0], (ast.In, ast.NotIn))
                    pure = pure or (isinstance(t, ast.UnaryOp) and isinstance(t.op, ast.Not) and isinstance(t.operand, ast.Compare)
                                    and isinstance(t.operand.ops[0], (ast.In, ast.NotIn)))
                    n_member += 1
                    ctx.check(pure, "R14.16", ilc.qualname, t, loc(ilc, t),
                              "the report of a foreign inLibrary value depends on more than the membership test: where the extra "
                              "condition is false (e.g. a standard schema, whose library list is empty) any library name passes",
                              desc="report guarded by the membership test alone")
        ctx.floor("R14.16", "tests guarding the inLibrary report", n_member, 1)

    # ---------------- R14.17: a named item that does not exist is reported whatever else holds for the entry
    ctx.rule("R14.17", "the 'item does not exist' report of item_exists_check depends on the item lookup alone")
    iec = prog.find_function("schema_attribute_validators.item_exists_check")
    ctx.saw(iec)
    v17 = view(ctx, iec)
    rd17 = _RD(iec)
    sp17 = iec.params()[0]
    lookups = {t.id for a in walk_no_nested(iec.node) if isinstance(a, ast.Assign) and isinstance(a.value, ast.Call)
               and any(isinstance(x, ast.Name) and x.id == sp17 for x in ast.walk(a.value))
               for t in a.targets if isinstance(t, ast.Name)}
    ctx.floor("R14.17", "item lookups through the schema in item_exists_check", len(lookups), 1)
    from sa.null import nonnull_labels as _nnl

    def _is_lookup_test(t):
        if isinstance(t, ast.BoolOp):
            return False
        for nm in {x.id for x in ast.walk(t) if isinstance(x, ast.Name)}:
            if _nnl(t, nm) and (nm in lookups or _dep(rd17, ast.Name(id=nm, ctx=ast.Load()), t, lambda y: isinstance(y, ast.Call) and any(
                    isinstance(z, ast.Name) and z.id == sp17 for z in ast.walk(y)))):
                return True
        return False
    missing = [c for c in v17.conds(_is_lookup_test)]
    ctx.floor("R14.17", "'item not found' tests", len(missing), 1)
    entry_par = iec.params()[1]
    for c in missing:
        bad = []
        for cond in v17.conds():
            if cond is c:
                continue
            for lab in (True, False):
                if v17.edge_guards(cond, lab, c) and any(isinstance(x, ast.Name) and x.id == entry_par for x in ast.walk(cond.ast)) \
                        and not any(isinstance(x, ast.Name) and x.id in ("item", "section_key") for x in ast.walk(cond.ast)):
                    bad.append(cond)
        # an early return that depends on the entry alone and sits before the loop cuts the report off as well
        for r in v17.cfg.nodes:
            if r.kind == "stmt" and isinstance(r.ast, ast.Return) and v17.dominates(r, c) is False:
                g = v17.guard_for(r, lambda t: any(isinstance(x, ast.Name) and x.id == entry_par for x in ast.walk(t)) and "has_attribute" in norm(t))
                if g is not None and c in v17.cfg.reachable_from(g[0], True) and r.ast.lineno < c.ast.lineno:
                    bad.append(g[0])
        ctx.check(not bad, "R14.17", iec.qualname, c.ast, loc(iec, c.ast),
                  "whether a nonexistent suggested/related tag, unit class or value class is reported depends on an attribute of the "
                  "entry that names it (%s): on such entries (e.g. deprecated ones) the fault passes unreported"
                  % (norm(bad[0].ast)[:60] if bad else ""), desc="missing-item test reached for every entry")

    # ---------------- R14.18: an entry is compared with the entry of the same section in the previous release
    ctx.rule("R14.18", "verify_tag_id looks the previous entry up in the section of the entry it validates")
    vti = prog.find_class("HedIDValidator").methods.get("verify_tag_id")
    if vti is None:
        raise AnalysisError("anchor HedIDValidator.verify_tag_id vanished")
    ctx.saw(vti)
    n18 = 0
    for c in walk_no_nested(vti.node):
        if isinstance(c, ast.Call) and call_name(c) == "get_tag_entry":
            n18 += 1
            a = cg.arg(c, "key_class")
            if a is None and id(c) not in cg.param_order and len(c.args) > 1:
                a = c.args[1]
            ctx.check(a is not None and "section_key" in norm(a), "R14.18", vti.qualname, c, loc(vti, c),
                      "the previous release is searched without the section of the entry: units, unit classes, value classes, attributes "
                      "and properties are looked up among the tags, so a changed hedId on them is never compared (and `foot`/`point` "
                      "are matched against the tags Foot/Point)", desc="previous entry looked up in the entry's own section")
    ctx.floor("R14.18", "previous-release lookups in verify_tag_id", n18, 1)

    # ---------------- R14.19: parameters are handed on to same-named parameters of repository callees
    from sa.forward import check_forwarding
    nfw = check_forwarding(ctx, "R14.19", [f for f in prog.functions.values() if f.module.name.startswith(('hed.schema.schema_compliance', 'hed.schema.schema_attribute_validators', 'hed.schema.schema_attribute_validator_hed_id', 'hed.schema.schema_validation_util'))], 'e.g. the warnings switch, the error handler')
    ctx.floor("R14.19", "same-named parameter sites", nfw, 1)


def _unpack_names(node):
    t = node.targets[0] if isinstance(node, ast.Assign) else None
    return [e.id if isinstance(e, ast.Name) else None for e in t.elts] if isinstance(t, (ast.Tuple, ast.List)) else []


def _nan_outcomes(test, fvars):
    """Truth values a test can take when every variable in fvars holds NaN (unknown leaves: both)."""
    both = {True, False}
    if isinstance(test, ast.UnaryOp) and isinstance(test.op, ast.Not):
        return {not x for x in _nan_outcomes(test.operand, fvars)}
    if isinstance(test, ast.BoolOp):
        outs = [_nan_outcomes(v, fvars) for v in test.values]
        res = set()
        if isinstance(test.op, ast.Or):
            if any(True in o for o in outs):
                res.add(True)
            if all(False in o for o in outs):
                res.add(False)
            if any(o == {True} for o in outs):
                res.discard(False)
        else:
            if all(True in o for o in outs):
                res.add(True)
            if any(False in o for o in outs):
                res.add(False)
            if any(o == {False} for o in outs):
                res.discard(True)
        return res
    if isinstance(test, ast.Compare) and len(test.ops) == 1:
        names = {x.id for x in ast.walk(test) if isinstance(x, ast.Name)}
        if names & fvars:
            op = test.ops[0]
            if isinstance(op, (ast.Lt, ast.LtE, ast.Gt, ast.GtE, ast.Eq)):
                return {False}
            if isinstance(op, ast.NotEq):
                return {True}
    if isinstance(test, ast.Call):
        cn = call_name(test)
        if test.args and isinstance(test.args[0], ast.Name) and test.args[0].id in fvars:
            if cn == "isnan":
                return {True}
            if cn in ("isfinite",):
                return {False}
            if cn == "isinstance" and "float" in norm(test.args[1]):
                return {True}
    return both


def _forced_calls(test, lab):
    """Calls whose truth value is forced when `test` evaluates to `lab`: -> [(call, forced value)]"""
    if isinstance(test, ast.UnaryOp) and isinstance(test.op, ast.Not):
        return _forced_calls(test.operand, not lab)
    if isinstance(test, ast.BoolOp) and isinstance(test.op, ast.And if lab else ast.Or):
        return [p for v in test.values for p in _forced_calls(v, lab)]
    if isinstance(test, ast.Call):
        return [(test, lab)]
    return []


def _equal_version_outcomes(test):
    """Truth values of a test when the two compared Version(...) values are equal, the version text is a known version
    and every other plain name is truthy (unknown leaves: both)."""
    both = {True, False}
    if isinstance(test, ast.UnaryOp) and isinstance(test.op, ast.Not):
        return {not x for x in _equal_version_outcomes(test.operand)}
    if isinstance(test, ast.BoolOp):
        outs = [_equal_version_outcomes(v) for v in test.values]
        res = set()
        if isinstance(test.op, ast.Or):
            if any(True in o for o in outs):
                res.add(True)
            if all(False in o for o in outs) and not any(o == {True} for o in outs):
                res.add(False)
        else:
            if all(True in o for o in outs) and not any(o == {False} for o in outs):
                res.add(True)
            if any(False in o for o in outs):
                res.add(False)
        return res
    if isinstance(test, ast.Compare) and len(test.ops) == 1:
        sides = [test.left, test.comparators[0]]
        op = test.ops[0]
        if all(isinstance(s, ast.Call) and call_name(s) == "Version" for s in sides):
            return {True} if isinstance(op, (ast.LtE, ast.GtE, ast.Eq)) else {False} if isinstance(op, (ast.Lt, ast.Gt, ast.NotEq)) else both
        if isinstance(op, ast.NotIn) and "version" in norm(test.left).lower():
            return {False}
        if isinstance(op, ast.In) and "version" in norm(test.left).lower():
            return {True}
    if isinstance(test, ast.Name):
        return {True}
    return both
