"""C12 — issues are well-formed: every used key is registered with a compatible signature, an
issue is decorated at most once, warning-severity issues cannot reach an entry point's result
unfiltered, the sort-key table has file < column < key < row with numeric rows, export is closed."""
import ast

from sa.dataflow import UNKNOWN
from sa.decorate import DECORATE, get_content
from sa.model import AnalysisError, call_name, loc, norm, walk_no_nested
from sa.registry import get_registry
from rules.c01 import signature_rule

LEVEL_TEXT = ("Static structural proof of necessary conditions: (R12.1) every key at every format_error* site of the "
              "package is registered, binds to its message function through the decorator wrapper, and issue dicts are "
              "built only by the registry's constructor; (R12.2) on no path is a list that may still hold already "
              "decorated tag-carrying issues passed to the decorating call again (the decoration appends the location "
              "suffix each time); (R12.3) no warning-severity issue created by the raw API can reach the return of a "
              "validation entry point without passing the warning filter; (R12.4) the default sort list orders file < "
              "sidecar column < sidecar key < row, row is compared numerically, and sort_issues sorts with a key "
              "function only; (R12.5) replace_tag_references converts every non-container, non-number leaf with str(). "
              "That offsets lie inside the text/span and select the quoted fragment is NOT decided.")
LEVEL_EXTRA = 'Added after the seeded evaluation: (R12.6) an issue taken from a list, modified and listed again is a copy. (R12.7) the suffix-appending step skips issues it already decorated; (R12.8) every parameter of a validator function is used; textual sort keys are compared as str. (R12.9) a parameter is handed on to every repository callee that takes a parameter of the same name (11 frozen exceptions package-wide).'

ENTRY_POINTS = ["HedValidator.validate", "SidecarValidator.validate", "SpreadsheetValidator.validate",
                "schema_compliance.check_compliance", "BidsDataset.validate", "Sidecar.validate", "BaseInput.validate"]


def run(ctx):
    prog, cg = ctx.prog, ctx.cg
    ctx.rule("R12.1", "every format_error* key registered and the call binds to the message function; one issue constructor")
    ctx.rule("R12.2", "a list holding already decorated tag-carrying issues is never decorated again")
    ctx.rule("R12.3", "raw warning-severity issues pass add_context_and_filter before an entry point returns them")
    ctx.rule("R12.4", "sort table: file < sidecar column < sidecar key < row, numeric rows, key-function sort only")
    ctx.rule("R12.5", "replace_tag_references: containers recursed, numbers kept, everything else str()")
    reg = get_registry(ctx)
    # ---------------- R12.1
    n, keys = signature_rule(ctx, "R12.1", None, 100)
    ctx.floor("R12.1", "distinct keys used", len(keys), 90)
    ctx.check(not reg.duplicates, "R12.1", "registry", "duplicate registration %s" % [k for k, _ in reg.duplicates],
              "hed/errors", "a key is registered twice (KeyError at import)", desc="no key registered twice")
    # has_sub_tag functions always get both indices (bind_error covers it); issue dicts built in one place
    builders = []
    for f in prog.functions.values():
        for d in walk_no_nested(f.node):
            if isinstance(d, ast.Dict):
                ks = {k.value for k in d.keys if isinstance(k, ast.Constant)}
                if {"code", "message", "severity"} <= ks:
                    builders.append((f, d))
    ctx.floor("R12.1", "issue-dict constructors", len(builders), 1)
    allowed = {"ErrorHandler._create_error_object": "the registry's constructor",
               "schema_util.format_error": "schema loader: feeds HedFileError payloads, not validation results"}
    for f, d in builders:
        ok = any(f.qualname.endswith(a) or f.short == a for a in allowed)
        ctx.check(ok, "R12.1", f.qualname, d, loc(f, d),
                  "an issue dictionary with code/message/severity is built outside the registry's constructor: such issues "
                  "bypass registration (published code, default severity)", desc="%s is an allowed issue constructor" % f.short)

    # ---------------- R12.2
    ic = get_content(ctx)
    n_sites = 0
    dec_funcs = [f for f in prog.functions.values() if f is not ic.decorate_fn and any(
        isinstance(c, ast.Call) and call_name(c) == DECORATE for c in walk_no_nested(f.node))]
    ctx.floor("R12.2", "functions with a decorate call", len(dec_funcs), 8)
    for f in dec_funcs:
        ctx.saw(f)
        seen = {}

        def report(kind, call, content, f=f, seen=seen):
            seen.setdefault(id(call), (call, set()))[1].update(content)
        ic.analyse(f, report)
        for call, content in seen.values():
            n_sites += 1
            ctx.count_sites()
            ctx.check("DT" not in content, "R12.2", f.qualname, call, loc(f, call),
                      "the list passed to %s may still hold tag-carrying issues that were already decorated (content %s): "
                      "their message gets the ' Problem spans string indexes' suffix a second time" % (DECORATE, sorted(content)),
                      desc="%s: decorate of `%s` sees no already decorated tag issue (content %s)" % (
                          f.short, norm(call.args[0]) if call.args else "?", sorted(content)))
    ctx.floor("R12.2", "decorate sites", n_sites, 10)

    # ---------------- R12.3
    for ep in ENTRY_POINTS:
        f = prog.find_function(ep)
        ctx.saw(f)
        s = ic.summary.get(f)
        if s is None:
            s = ic.analyse(f)
        ctx.check("WU" not in s, "R12.3", f.qualname, "returned issues", loc(f, f.node),
                  "%s can return warning-severity issues that never passed the warning filter: with check_for_warnings "
                  "off the result still contains warnings" % ep, desc="%s returns no unfiltered warning (content %s)" % (ep, sorted(s)))
    # anchor: the filter really filters
    acf = ic.decorate_fn
    ctx.check(any(isinstance(c, ast.Call) and call_name(c) == "filter_issues_by_severity" for c in walk_no_nested(acf.node))
              and "check_for_warnings" in norm(acf.node), "R12.3", acf.qualname, "filter", loc(acf, acf.node),
              "add_context_and_filter no longer filters by severity when warnings are off", desc="add_context_and_filter filters warnings")
    fbs = prog.find_function("ErrorHandler.filter_issues_by_severity")
    cmp_ok = any(isinstance(c, ast.Compare) and isinstance(c.ops[0], ast.LtE) and "severity" in norm(c) for c in ast.walk(fbs.node))
    ctx.check(cmp_ok, "R12.3", fbs.qualname, "comparison", loc(fbs, fbs.node),
              "filter_issues_by_severity no longer keeps exactly the issues with severity <= the requested level",
              desc="filter keeps issue['severity'] <= severity")

    # ---------------- R12.4
    er = prog.find_module("errors.error_reporter")
    order = prog.try_const(er.assigns.get("default_sort_list"), er) if "default_sort_list" in er.assigns else None
    ints = prog.try_const(er.assigns.get("int_sort_list"), er) if "int_sort_list" in er.assigns else None
    if order is None or ints is None:
        raise AnalysisError("R12.4 anchors default_sort_list/int_sort_list not evaluable")
    ec = prog.class_constants(prog.find_class("ErrorContext"))
    want = [ec["FILE_NAME"], ec["SIDECAR_COLUMN_NAME"], ec["SIDECAR_KEY_NAME"], ec["ROW"]]
    pos = [list(order).index(w) if w in order else -1 for w in want]
    ctx.check(all(p >= 0 for p in pos) and pos == sorted(pos), "R12.4", er.name, "default_sort_list order", er.relpath,
              "the sort list does not order file < sidecar column < sidecar key < row (positions %s)" % pos,
              desc="sort order file < column < key < row")
    ctx.check(ec["ROW"] in ints, "R12.4", er.name, "int_sort_list", er.relpath,
              "row numbers are not in the integer-compared list: row 10 sorts before row 9", desc="row compared numerically")
    si = er.functions.get("sort_issues")
    if si is None:
        raise AnalysisError("anchor sort_issues vanished")
    sorts = [c for c in walk_no_nested(si.node) if isinstance(c, ast.Call) and call_name(c) in ("sorted", "sort")]
    ok = bool(sorts) and all(any(k.arg == "key" for k in c.keywords) and not any(k.arg == "cmp" for k in c.keywords) for c in sorts)
    ctx.check(ok, "R12.4", si.qualname, "sort call", loc(si, si.node), "sort_issues no longer sorts with a key function (stability lost)",
              desc="sort_issues uses sorted(..., key=...)")
    # the key function: ints default to a number, others to a string, in list order
    def _key_function(sort_call):
        for k in sort_call.keywords:
            if k.arg == "key" and isinstance(k.value, ast.Name):
                if k.value.id in si.nested:
                    return si.nested[k.value.id]
                r = prog.resolve_expr(k.value, si.module, None, si)
                from sa.model import FunctionInfo as _FI
                if isinstance(r, _FI):
                    return r
        return None
    gk = next((g for g in (_key_function(c) for c in sorts) if g is not None), None)
    if gk is not None:
        iters = [lp.iter for lp in ast.walk(gk.node) if isinstance(lp, (ast.For, ast.comprehension))]

        def in_list_order(e, depth=0):
            # default_sort_list itself, or a sequence built from it element by element in its order (possibly pre-computed
            # in the enclosing function or at module level)
            if norm(e) == "default_sort_list":
                return True
            if depth > 3:
                return False
            if isinstance(e, ast.Call) and isinstance(e.func, ast.Name) and e.func.id in ("list", "tuple", "enumerate", "zip", "iter") and e.args:
                return in_list_order(e.args[0], depth + 1)
            if isinstance(e, (ast.ListComp, ast.GeneratorExp)) and len(e.generators) == 1 and not e.generators[0].ifs:
                return in_list_order(e.generators[0].iter, depth + 1)
            if isinstance(e, ast.Name):
                defs_ = [a_ for a_ in ast.walk(si.node) if isinstance(a_, ast.Assign) and any(
                    isinstance(t_, ast.Name) and t_.id == e.id for t_ in a_.targets)]
                if not defs_ and e.id in er.assigns:
                    return in_list_order(er.assigns[e.id], depth + 1)
                return bool(defs_) and all(in_list_order(a_.value, depth + 1) for a_ in defs_)
            return False
        ctx.check(any(in_list_order(i) for i in iters), "R12.4", gk.qualname, "iteration", loc(gk, gk.node),
                  "the sort key no longer iterates default_sort_list in order", desc="key built by iterating default_sort_list")

    # ---------------- R12.5
    rtr = er.functions.get("replace_tag_references")
    if rtr is None:
        raise AnalysisError("anchor replace_tag_references vanished")
    ctx.saw(rtr)
    stores = [n for n in walk_no_nested(rtr.node) if isinstance(n, ast.Assign) and isinstance(n.targets[0], ast.Subscript)]
    ctx.floor("R12.5", "leaf stores in replace_tag_references", len(stores), 1)
    n_str = 0
    for st in stores:
        val = st.value
        is_str = isinstance(val, ast.Call) and call_name(val) == "str"
        is_same = isinstance(val, ast.Name)
        n_str += is_str
        ctx.check(is_str or is_same, "R12.5", rtr.qualname, st, loc(rtr, st),
                  "a leaf is replaced by `%s`, neither itself nor str(...): the result may not be JSON-serialisable" % norm(val),
                  desc="leaf store `%s`" % norm(st)[:50])
    # every loop over the container's elements converts leaves with str() and recurses; dict and list are both walked
    from sa.dataflow import ReachingDefs as _RD125
    rd125 = _RD125(rtr)
    loops125 = [lp for lp in walk_no_nested(rtr.node) if isinstance(lp, ast.For) and any(
        isinstance(x, ast.Assign) and isinstance(x.targets[0], ast.Subscript) for x in ast.walk(lp))]
    ctx.floor("R12.5", "element loops in replace_tag_references", len(loops125), 1)
    sources = set()
    for lp in loops125:
        has_str = any(isinstance(x, ast.Assign) and isinstance(x.targets[0], ast.Subscript) and isinstance(x.value, ast.Call)
                      and call_name(x.value) == "str" for x in ast.walk(lp))
        has_rec = any(isinstance(x, ast.Call) and call_name(x) == rtr.name for x in ast.walk(lp))
        ctx.check(has_str, "R12.5", rtr.qualname, lp.iter, loc(rtr, lp),
                  "this loop over the container's elements does not convert non-number leaves with str()",
                  desc="loop over `%s` converts leaves with str()" % norm(lp.iter)[:30])
        ctx.check(has_rec, "R12.5", rtr.qualname, "recursion in loop over " + norm(lp.iter)[:30], loc(rtr, lp),
                  "nested containers are not recursed into in this loop", desc="loop over `%s` recurses" % norm(lp.iter)[:30])
        its = [lp.iter]
        if isinstance(lp.iter, ast.Name):
            its += [d.value for d in (rd125.at(lp, lp.iter.id) or []) if d.value is not None]
        for it in its:
            if isinstance(it, ast.Call):
                sources.add(call_name(it))
    ctx.check({"items", "enumerate"} <= sources, "R12.5", rtr.qualname, "containers walked", loc(rtr, rtr.node),
              "not both dictionaries (.items()) and lists (enumerate) are walked: %s" % sorted(x for x in sources if x),
              desc="dict and list elements are both walked")
    # unchanged leaves only under an isinstance test for (bool, float, int)
    from sa.dom import view
    v = view(ctx, rtr)
    for st in stores:
        if isinstance(st.value, ast.Name):
            n_ = v.node(st)
            g = v.guard_for(n_, lambda t: "isinstance" in norm(t) and all(x in norm(t) for x in ("bool", "float", "int")))
            ctx.check(g is not None and g[1] is True, "R12.5", rtr.qualname, "guard of " + norm(st), loc(rtr, st),
                      "a leaf is kept unchanged without being tested to be bool/int/float", desc="unchanged leaf is a number")

    # ---------------- R12.6: an issue is never listed twice as the same object
    ctx.rule("R12.6", "an issue taken out of a list and put back (as a variant with another code) is a copy, never the same dict object twice")
    from sa.dataflow import ReachingDefs
    n_alias = 0
    for f in prog.functions.values():
        if not f.module.name.startswith(("hed.validator", "hed.models", "hed.errors")):
            continue
        cand = {}
        for st in walk_no_nested(f.node):
            if isinstance(st, ast.Assign) and len(st.targets) == 1 and isinstance(st.targets[0], ast.Name):
                v_ = st.value
                is_copy = isinstance(v_, ast.Call) and call_name(v_) in ("copy", "deepcopy", "dict")
                inner = v_.func.value if is_copy and isinstance(v_.func, ast.Attribute) else (v_.args[0] if is_copy and v_.args else v_)
                if isinstance(inner, ast.Subscript) and isinstance(inner.value, ast.Name) and \
                        isinstance(inner.slice, (ast.Constant, ast.UnaryOp, ast.Name)):
                    cand[st.targets[0].id] = (st, inner.value.id, is_copy)
        if not cand:
            continue
        for name, (st, lst, is_copy) in cand.items():
            stored = any(isinstance(x, (ast.Assign, ast.AugAssign)) and any(
                isinstance(t, ast.Subscript) and isinstance(t.value, ast.Name) and t.value.id == name
                for t in (x.targets if isinstance(x, ast.Assign) else [x.target])) for x in walk_no_nested(f.node))
            readded = any(
                (isinstance(x, ast.AugAssign) and isinstance(x.target, ast.Name) and any(isinstance(y, ast.Name) and y.id == name for y in ast.walk(x.value)))
                or (isinstance(x, ast.Call) and isinstance(x.func, ast.Attribute) and x.func.attr in ("append", "extend", "insert")
                    and any(isinstance(y, ast.Name) and y.id == name for a in x.args for y in ast.walk(a)))
                for x in walk_no_nested(f.node))
            if stored and readded:
                n_alias += 1
                ctx.saw(f)
                ctx.check(is_copy, "R12.6", f.qualname, st, loc(f, st),
                          "`%s` is an element of `%s` itself (no copy), is modified and is put into a list again: the same dict is then "
                          "listed twice, its code is overwritten for both entries, and context decoration appends the location suffix "
                          "to its message twice" % (name, lst), desc="%s: re-listed issue variant `%s` is a copy" % (f.short, name))
    ctx.floor("R12.6", "issue variants built from a list element", n_alias, 1)

    # ---------------- R12.7: the decoration step is idempotent
    ctx.rule("R12.7", "the step that appends the location suffix to a message skips issues it has already decorated")
    n_suffix = 0
    for f in prog.functions.values():
        if f.module.name != "hed.errors.error_reporter":
            continue
        for st in walk_no_nested(f.node):
            if isinstance(st, ast.AugAssign) and isinstance(st.op, ast.Add) and isinstance(st.target, ast.Subscript) and \
                    isinstance(st.target.slice, ast.Constant) and st.target.slice.value == "message":
                n_suffix += 1
                ctx.saw(f)
                vf = view(ctx, f)
                node = vf.cfg.node_of(st)
                g = vf.guard_for(node, lambda t: any(isinstance(x, ast.Compare) and any(isinstance(o, (ast.NotIn, ast.In)) for o in x.ops)
                                                     and isinstance(x.left, ast.Constant) and x.left.value in ("char_index", "char_index_end")
                                                     for x in ast.walk(t))) if node is not None else None
                ctx.check(g is not None, "R12.7", f.qualname, st, loc(f, st),
                          "`%s` appends the location suffix unconditionally: an issue that passes through context decoration a second "
                          "time (the list returned by one entry point handed to add_context_and_filter again) gets the suffix twice"
                          % norm(st)[:60], desc="suffix appended only to issues without char_index yet")
    ctx.floor("R12.7", "message-suffix appends in the error reporter", n_suffix, 1)

    # ---------------- R12.4+: sort keys are comparable whatever the context values are
    keyf = gk
    if keyf is None:
        raise AnalysisError("R12.4 anchor: the key function of sort_issues cannot be resolved")
    ctx.saw(keyf)
    n_key = 0
    pm12 = {id(ch): p_ for p_ in ast.walk(keyf.node) for ch in ast.iter_child_nodes(p_)}
    from sa.dataflow import ReachingDefs as _RD12
    rd12k = None
    for inner in ast.walk(keyf.node):
        if isinstance(inner, ast.Call) and call_name(inner) == "get" and len(inner.args) == 2 and isinstance(inner.args[1], ast.Constant) \
                and isinstance(inner.args[1].value, str):
            n_key += 1
            par = pm12.get(id(inner))
            wrapped = isinstance(par, ast.Call) and isinstance(par.func, ast.Name) and par.func.id == "str" and inner in par.args
            if not wrapped and isinstance(par, ast.Assign) and len(par.targets) == 1 and isinstance(par.targets[0], ast.Name):
                # bound to a local first: every use of that local must be str(local)
                nm = par.targets[0].id
                uses = [x for x in ast.walk(keyf.node) if isinstance(x, ast.Name) and x.id == nm and isinstance(x.ctx, ast.Load)]
                wrapped = bool(uses) and all(isinstance(pm12.get(id(u)), ast.Call) and isinstance(pm12[id(u)].func, ast.Name)
                                             and pm12[id(u)].func.id == "str" for u in uses)
            ctx.check(wrapped, "R12.4", keyf.qualname, inner, loc(keyf, inner),
                      "a textual sort key is taken as it comes (`%s`): a spreadsheet without column names pushes integer column "
                      "contexts, which cannot be compared with the '' default of issues that have no column — sort_issues raises "
                      "TypeError and the table entry point returns nothing" % norm(inner)[:40], desc="textual sort keys compared as str")
    ctx.floor("R12.4", "textual sort keys in the key function of sort_issues", n_key, 1)

    # ---------------- R12.8: what callers pass for locating / coding an issue is used
    ctx.rule("R12.8", "every parameter of a validator function is used (an offset or an override code that is accepted but ignored mislocates or miscodes the issue)")
    UNUSED_OK = {
        ("DefValidator._validate_def_contents", "hed_validator"): "kept for call compatibility; the content test needs no validator",
        ("DefValidator.validate_def_value_units", "allow_placeholders"): "placeholders are screened by the tag validator before this point",
        ("SpreadsheetValidator._run_onset_nan_checks", "onsets"): "stub (returns immediately)",
        ("SpreadsheetValidator._run_onset_nan_checks", "error_handler"): "stub (returns immediately)",
        ("SpreadsheetValidator._run_onset_nan_checks", "row_adj"): "stub (returns immediately)",
        ("is_text_value_class", "text_string"): "value-class predicate that accepts everything by definition",
    }
    n_par = 0
    for f in prog.functions.values():
        if not f.module.name.startswith("hed.validator"):
            continue
        body = [b for b in f.node.body if not (isinstance(b, ast.Expr) and isinstance(b.value, ast.Constant))]
        if all(isinstance(b, (ast.Pass, ast.Raise)) for b in body):
            continue
        used = {x.id for x in ast.walk(f.node) if isinstance(x, ast.Name) and isinstance(x.ctx, ast.Load)}
        for p_ in f.params():
            if p_ in ("self", "cls") or p_.startswith("_"):
                continue
            n_par += 1
            if p_ in used:
                continue
            if (f.short, p_) in UNUSED_OK:
                ctx.ok("R12.8", "%s(%s) unused on purpose — %s" % (f.short, p_, UNUSED_OK[(f.short, p_)]), loc(f, f.node))
                continue
            ctx.saw(f)
            ctx.violation("R12.8", f.qualname, "parameter %s" % p_, loc(f, f.node),
                          "%s accepts `%s` and never reads it: callers pass it to place the issue inside a longer tag (the value of "
                          "`Def/MyDef/ab$c`) or to give it the Def code, so the offsets select the wrong characters / the code is lost" % (f.short, p_))
    ctx.floor("R12.8", "parameters of validator functions", n_par, 150)

    # ---------------- R12.9: parameters are handed on to same-named parameters of repository callees
    from sa.forward import check_forwarding
    nfw = check_forwarding(ctx, "R12.9", [f for f in prog.functions.values() if f.module.name.startswith(('hed.errors', 'hed.validator', 'hed.models.sidecar', 'hed.models.base_input', 'hed.models.hed_string'))], 'e.g. the warnings switch, the error handler, the name shown in issues')
    ctx.floor("R12.9", "same-named parameter sites", nfw, 1)
