"""C19 — schema cache: the lock object is acquired and released, every write into the cache
directory is temp-then-rename, cache writers run only under the lock, handlers name their
exception types correctly."""
import ast

from sa.dom import view
from sa.model import AnalysisError, call_name, dotted, loc, norm, walk_no_nested

LEVEL_TEXT = ("Static structural proof of necessary conditions: (R19.1) the portalocker.Lock built in "
              "CacheLock.__enter__ is acquired on every normal path and released in __exit__; (R19.2) every file "
              "write/copy in the cache modules goes to a temporary name that is os.replace()d to the final name in "
              "the same function; (R19.3) functions that write into the cache are reachable only from inside a "
              "`with CacheLock(...)` body; (R19.4) no `except A or B` handler. Mutual exclusion and crash "
              "consistency as properties of executions, timeouts and refresh intervals are NOT decided.")
LEVEL_EXTRA = 'Added after the seeded evaluation: (R19.2) the temporary name cannot equal the final name (callers pass a temporary file); (R19.5) the lock file is never removed or renamed; (R19.6) a lock body that fetches from the network keeps write_time on. (R19.7) looking up a version that is missing from the cache folder (re)runs the local population. (R19.8) only time-recording holders are refused inside the refresh interval; (R19.9) the last-refresh time is read while the lock is held. (R19.10) the lock path is a path join under the folder; (R19.11) an existing cached file is returned only under a comparison with its computed hash. (R19.12) the version-file pattern is anchored at its end wherever it is applied with match/search. (R19.13) the lock waits up to its timeout (no fail_when_locked). (R19.14) a parameter is handed on to every repository callee that takes a parameter of the same name (11 frozen exceptions package-wide). (R19.16) a lock body that only copies the installed files is built with write_time=False; (R19.15) the refresh time is written before the lock is released.'

MODULES = ["hed.schema.hed_cache", "hed.schema.hed_cache_lock"]
HANDLER_MODULES = MODULES + ["hed.schema.hed_schema_io", "hed.schema.schema_io.schema_util"]
WRITE_MODES = ("w", "a", "x", "+")

# Reader-tolerant files: a torn timestamp is read as "never updated" (R19.4 keeps that handler effective).
EXEMPT_WRITERS = {"_write_last_cached_time": "timestamp file; _read_last_cached_time treats unreadable content as 0"}


def write_sinks(fi):
    """[(call, destination expr, kind)] for file-writing calls in fi."""
    out = []
    for n in walk_no_nested(fi.node):
        if not isinstance(n, ast.Call):
            continue
        nm = call_name(n)
        d = dotted(n.func) or ""
        if nm in ("copy", "copyfile", "copy2", "move") and (d.startswith("shutil.") or isinstance(n.func, ast.Name)):
            if len(n.args) >= 2:
                out.append((n, n.args[1], nm))
        elif nm == "rename" and d.startswith("os."):
            if len(n.args) >= 2:
                out.append((n, n.args[1], "os.rename"))
        elif nm == "open" and isinstance(n.func, ast.Name):
            mode = None
            if len(n.args) >= 2:
                mode = n.args[1]
            for kw in n.keywords:
                if kw.arg == "mode":
                    mode = kw.value
            if isinstance(mode, ast.Constant) and isinstance(mode.value, str) and any(c in mode.value for c in WRITE_MODES):
                out.append((n, n.args[0], "open(%r)" % mode.value))
        elif nm in ("write_text", "write_bytes", "dump") and isinstance(n.func, ast.Attribute):
            if nm == "dump":
                continue
            out.append((n, n.func.value, nm))
    return out


def bool_handlers(tree):
    return [h for h in ast.walk(tree) if isinstance(h, ast.ExceptHandler) and isinstance(h.type, ast.BoolOp)]


def run(ctx):
    prog, cg = ctx.prog, ctx.cg
    ctx.rule("R19.1", "a lock object stored in __enter__ is acquired on every normal path before __enter__ returns; "
                      "__exit__ releases it")
    ctx.rule("R19.2", "every copy/write in the cache modules targets a temporary name followed by os.replace to "
                      "the final name in the same function")
    ctx.rule("R19.3", "cache writers are called only inside the body of `with CacheLock(...)`")
    ctx.rule("R19.4", "no `except A or B` (only the first type would be caught)")
    ctx.assume("portalocker.Lock(...) does not lock until acquire()/__enter__ is called (library contract)")
    ctx.assume("os.replace is atomic within one directory (POSIX/Windows contract)")
    mods = [prog.find_module(m.split(".", 1)[1]) for m in MODULES]

    # ---------------- R19.1
    lock_cls = prog.find_class("CacheLock")
    enter = lock_cls.methods.get("__enter__")
    exit_ = lock_cls.methods.get("__exit__")
    if enter is None or exit_ is None:
        raise AnalysisError("CacheLock.__enter__/__exit__ vanished")
    ctx.saw(enter, exit_)
    v = view(ctx, enter)
    stores = []
    for n in v.cfg.nodes:
        a = n.ast
        if n.kind == "stmt" and isinstance(a, ast.Assign) and isinstance(a.value, ast.Call) and \
                (dotted(a.value.func) or "").endswith("Lock") and "portalocker" in (dotted(a.value.func) or ""):
            for t in a.targets:
                if isinstance(t, ast.Attribute) and isinstance(t.value, ast.Name) and t.value.id == "self":
                    stores.append((n, t.attr, a))
    with_items = [n for n in v.cfg.nodes if n.kind == "with" and any(
        "portalocker" in (norm(it.context_expr)) for it in n.ast.items)]
    if not stores and not with_items:
        raise AnalysisError("R19.1 anchor: no portalocker.Lock construction stored on self in CacheLock.__enter__")
    for node, attr, a in stores:
        acq = [n for (n, c) in v.calls(lambda c: isinstance(c.func, ast.Attribute) and c.func.attr in ("acquire", "__enter__")
                                       and norm(c.func.value) == "self." + attr)]
        chained = isinstance(a.value.func, ast.Attribute) and a.value.func.attr == "acquire"
        ok = chained or (bool(acq) and v.every_path_to_exit_passes(node, acq))
        ctx.count_paths(len(v.cfg.nodes))
        ctx.check(ok, "R19.1", enter.qualname, a, loc(enter, a),
                  "the lock object self.%s is constructed but not acquired on every normal path to the return of "
                  "__enter__: two holders can overlap and the lock timeout can never be reported" % attr,
                  desc="self.%s.acquire() post-dominates its construction in __enter__" % attr)
        ve = view(ctx, exit_)
        rel = [n for (n, c) in ve.calls(lambda c: isinstance(c.func, ast.Attribute) and c.func.attr in ("release", "__exit__")
                                        and norm(c.func.value) == "self." + attr)]
        ok = bool(rel) and ve.every_path_to_exit_passes(ve.cfg.entry, rel)
        ctx.check(ok, "R19.1", exit_.qualname, "release of self.%s" % attr, loc(exit_, exit_.node),
                  "__exit__ does not release self.%s on every normal path" % attr,
                  desc="self.%s.release() on every path of __exit__" % attr)
        # nothing releases before acquiring
        # a release inside __enter__ is legitimate only on a path that leaves by raising (giving the lock back before refusing)
        for (n, c) in v.calls(lambda c: isinstance(c.func, ast.Attribute) and c.func.attr == "release"):
            reach = v.cfg.reachable_from(n, True)
            ctx.check(v.cfg.exit not in reach, "R19.1", enter.qualname, c, loc(enter, c),
                      "__enter__ releases the lock on a path that then returns normally: the with-body runs without the lock",
                      desc="release in __enter__ only before raising")

    # ---------------- R19.5: the lock file is never removed (a waiter would lock an unlinked inode)
    ctx.rule("R19.5", "the lock file itself is never deleted or renamed")
    lock_mod = prog.find_module("schema.hed_cache_lock")
    n_rm = 0
    for fi in [f for f in prog.functions.values() if f.module is lock_mod or f.module in mods]:
        for c in walk_no_nested(fi.node):
            if isinstance(c, ast.Call) and (dotted(c.func) or "") in ("os.remove", "os.unlink", "os.rename", "os.replace", "shutil.move") \
                    or (isinstance(c, ast.Call) and call_name(c) == "unlink"):
                n_rm += 1
                if "lock" in norm(c).lower():
                    ctx.violation("R19.5", fi.qualname, c, loc(fi, c),
                                  "the lock file is removed/renamed: a process already waiting on the old file locks an unlinked "
                                  "inode while a newcomer creates and locks a fresh file — two holders overlap")
    ctx.ok("R19.5", "%d remove/rename calls in the cache modules, none targets the lock file" % n_rm, "")

    # ---------------- R19.2
    n_sinks = 0
    writers = set()
    for m in mods:
        for fi in [f for f in prog.functions.values() if f.module is m]:
            sinks = write_sinks(fi)
            if not sinks:
                continue
            ctx.saw(fi)
            fv = view(ctx, fi)
            for call, dest, kind in sinks:
                n_sinks += 1
                ctx.count_sites()
                if fi.name in EXEMPT_WRITERS:
                    ctx.ok("R19.2", "%s: %s exempt — %s" % (fi.short, kind, EXEMPT_WRITERS[fi.name]), loc(fi, call))
                    continue
                writers.add(fi)
                dkey = norm(dest)
                cn = fv.node(call)
                reps = [n for (n, c) in fv.calls(lambda c: (dotted(c.func) or "") == "os.replace" and c.args
                                                 and norm(c.args[0]) == dkey)]
                ok = bool(reps) and cn is not None and fv.every_path_to_exit_passes(cn, reps)
                ctx.check(ok, "R19.2", fi.qualname, call, loc(fi, call),
                          "%s writes directly to %s, which is not followed on every path by os.replace(%s, <final>) "
                          "in this function: an interruption leaves a partially written file under a name readers "
                          "use" % (kind, dkey, dkey),
                          desc="%s: %s to temporary %s then os.replace" % (fi.short, kind, dkey))
    ctx.floor("R19.2", "file-write sinks in cache modules", n_sinks, 2)
    # a helper that derives its temporary name from the *basename of its source argument* is atomic only when callers
    # hand it a temporary file: an installed schema has the same basename as its final cache name
    for m in mods:
        for fi in [f for f in prog.functions.values() if f.module is m]:
            sinks = write_sinks(fi)
            if not sinks or fi.name in EXEMPT_WRITERS:
                continue
            from sa.dataflow import ReachingDefs, depends_on
            rdf = ReachingDefs(fi)
            for call, dest, kind in sinks:
                # which parameter supplies the *file-name part* of the destination?
                name_param = None
                dd = rdf.at(call, dest.id) if isinstance(dest, ast.Name) else None
                for d in dd or []:
                    if d.kind == "assign" and isinstance(d.value, ast.Call) and call_name(d.value) == "join" and d.value.args:
                        last = d.value.args[-1]
                        if isinstance(last, ast.Name):
                            for d2 in rdf.at(d.node, last.id) or []:
                                src = d2.value
                                if d2.kind == "unpack" and d2.index == 1 and isinstance(src, ast.Call) and call_name(src) == "split":
                                    name_param = [x.id for x in ast.walk(src) if isinstance(x, ast.Name) and x.id in fi.params()]
                                elif d2.kind == "assign" and isinstance(src, ast.Call) and call_name(src) == "basename":
                                    name_param = [x.id for x in ast.walk(src) if isinstance(x, ast.Name) and x.id in fi.params()]
                for pi, pn in enumerate(fi.params()):
                    if name_param and pn in name_param:
                        for k, caller, cn in cg.callers.get(fi, []):
                            if k not in ("precise", "name") or not isinstance(cn, ast.Call):
                                continue
                            arg = cn.args[pi] if pi < len(cn.args) else None
                            for kw in cn.keywords:
                                if kw.arg == pn:
                                    arg = kw.value
                            rdc = ReachingDefs(caller)
                            ok = arg is not None and depends_on(rdc, arg, cn, lambda x: isinstance(x, ast.Call) and call_name(x) in (
                                "url_to_file", "mkstemp", "mktemp", "NamedTemporaryFile", "TemporaryDirectory", "mkdtemp"))
                            ctx.count_sites()
                            ctx.check(ok, "R19.2", caller.qualname, cn, loc(caller, cn),
                                      "%s names its temporary file after the basename of `%s`; this caller passes `%s`, which is "
                                      "not a temporary file, so the 'temporary' name can equal the final name and the file is "
                                      "written in place" % (fi.short, pn, norm(arg)[:40] if arg is not None else "?"),
                                      desc="%s receives a temporary file from %s" % (fi.short, caller.short))

    # ---------------- R19.3
    # propagate "must hold the lock" from writers up the call graph until a `with CacheLock` encloses the call
    lock_init = lock_cls

    def under_lock(f, call):
        for w in ast.walk(f.node):
            if isinstance(w, (ast.With, ast.AsyncWith)):
                for it in w.items:
                    ce = it.context_expr
                    if isinstance(ce, ast.Call) and prog.resolve_expr(ce.func, f.module, f.cls, f) is lock_init:
                        if any(x is call for b in w.body for x in ast.walk(b)):
                            return True
        return False
    n_with = 0
    for f in prog.functions.values():
        for w in ast.walk(f.node):
            if isinstance(w, ast.With) and any(isinstance(it.context_expr, ast.Call) and
                                               prog.resolve_expr(it.context_expr.func, f.module, f.cls, f) is lock_init
                                               for it in w.items):
                n_with += 1
    ctx.floor("R19.3", "`with CacheLock` sites", n_with, 3)

    def sites_of(f):
        return [(c, n) for (k, c, n) in cg.callers.get(f, []) if k in ("precise", "name", "ref")]
    # greatest fixpoint: LI = functions all of whose call sites hold the lock (lexically, or because the
    # calling function is itself in LI)
    LI = {f for f in prog.functions.values() if sites_of(f)}
    changed = True
    while changed:
        changed = False
        for f in list(LI):
            for c, n in sites_of(f):
                if isinstance(n, ast.Call) and under_lock(c, n):
                    continue
                if c in LI and c is not f:
                    continue
                LI.discard(f)
                changed = True
                break
    for w in sorted(writers, key=lambda f: f.qualname):
        sites = sites_of(w)
        if not sites:
            ctx.xref("R19.3", loc(w, w.node), "%s writes into the cache and has no caller in the package" % w.short)
        for c, n in sites:
            ctx.count_sites()
            if isinstance(n, ast.Call) and under_lock(c, n):
                ctx.ok("R19.3", "%s called under `with CacheLock` in %s" % (w.short, c.short), loc(c, n))
            elif c in LI:
                ctx.ok("R19.3", "%s called from %s, every call of which holds the lock" % (w.short, c.short), loc(c, n))
            elif c in writers and c is not w:
                ctx.ok("R19.3", "%s called from writer %s (checked at its own call sites)" % (w.short, c.short), loc(c, n))
            else:
                ctx.violation("R19.3", c.qualname, n, loc(c, n),
                              "%s writes into the cache directory but is called from %s outside any "
                              "`with CacheLock(...)` body, and %s is itself reachable without the lock; two "
                              "processes can populate the cache at once" % (w.short, c.short, c.short))

    # ---------------- R19.4
    sample = ast.parse("try:\n    pass\nexcept ValueError or KeyError:\n    pass\n")
    if len(bool_handlers(sample)) != 1:
        raise AnalysisError("R19.4 positive example no longer matches")
    n_handlers = 0
    for mn in HANDLER_MODULES:
        m = prog.find_module(mn.split(".", 1)[1])
        for h in ast.walk(m.tree):
            if isinstance(h, ast.ExceptHandler):
                n_handlers += 1
        for h in bool_handlers(m.tree):
            ctx.violation("R19.4", m.name, "except " + norm(h.type), "%s:%d" % (m.relpath, h.lineno),
                          "`except %s` evaluates the boolean expression first and catches only %s; the other listed "
                          "exceptions escape (e.g. ValueError from an empty timestamp file)" % (
                              norm(h.type), norm(h.type.values[0])))
    ctx.floor("R19.4", "exception handlers inspected", n_handlers, 15)
    ctx.ok("R19.4", "%d exception handlers in %d modules name a type or a tuple of types" % (n_handlers, len(HANDLER_MODULES)), "")

    # ---------------- R19.6: a refresh from the network records its time (so the next one inside the interval is skipped)
    ctx.rule("R19.6", "a `with CacheLock(...)` whose body fetches from the network keeps write_time on (refresh time recorded/tested)")
    from sa.callgraph import STRONG_KINDS
    fetchers = set()
    for f in prog.functions.values():
        if any(isinstance(c, ast.Call) and call_name(c) in ("make_url_request", "urlopen", "url_to_file") for c in walk_no_nested(f.node)):
            fetchers.add(f)
    n_fetch_sites = 0
    n_local_sites = [0]
    ctx.rule("R19.16", "a `with CacheLock(...)` whose body only copies the installed files is built with write_time=False")
    for f in prog.functions.values():
        for w in ast.walk(f.node):
            if not isinstance(w, ast.With):
                continue
            for it in w.items:
                ce = it.context_expr
                if not (isinstance(ce, ast.Call) and prog.resolve_expr(ce.func, f.module, f.cls, f) is lock_cls):
                    continue
                kw = {k.arg: k.value for k in ce.keywords if k.arg}
                wt = kw.get("write_time", ce.args[1] if len(ce.args) > 1 else None)
                fetches = []
                for c in (x for b in w.body for x in ast.walk(b) if isinstance(x, ast.Call)):
                    for k, t in cg.resolve_call(c, f):
                        if k in STRONG_KINDS and (t in fetchers or fetchers & cg.reachable([t], STRONG_KINDS)):
                            fetches.append(c)
                            break
                if not fetches:
                    # R19.16: a body that only populates from the installed package is not a refresh
                    n_local_sites[0] += 1
                    ctx.saw(f)
                    is_off = wt is not None and isinstance(wt, ast.Constant) and wt.value is False
                    ctx.check(is_off, "R19.16", f.qualname, ce, loc(f, ce),
                              "the lock around a population from the installed package (no network fetch in the body) is built with "
                              "write_time on: the copy is then refused inside the refresh interval and records a refresh time even when "
                              "it was interrupted, so after an interrupted first use a later load cannot complete the cache and fails",
                              desc="local population in %s is not subject to the refresh interval" % f.short)
                    continue
                n_fetch_sites += 1
                ctx.saw(f)
                off = wt is not None and not (isinstance(wt, ast.Constant) and wt.value is True)
                ctx.check(not off, "R19.6", f.qualname, ce, loc(f, ce),
                          "`%s` fetches from the network under a lock built with write_time=%s: the refresh time is neither "
                          "tested nor recorded, so every request inside the refresh interval fetches again and cached content "
                          "can change within the interval" % (norm(fetches[0])[:50], norm(wt) if wt is not None else "?"),
                          desc="network refresh in %s records its time" % f.short)
    ctx.floor("R19.6", "lock bodies that fetch from the network", n_fetch_sites, 2)
    ctx.floor("R19.16", "lock bodies that populate locally", n_local_sites[0], 2)

    # ---------------- R19.7: an incomplete cache is completed when a bundled version is asked for
    ctx.rule("R19.7", "looking a version up (re)copies the bundled schemas when that version is missing, not only when the folder is empty")
    gvp = prog.find_function("hed_cache.get_hed_version_path")
    ctx.saw(gvp)
    v7 = view(ctx, gvp)
    pops = [(n_, c) for (n_, c) in v7.calls(lambda c: call_name(c) in ("cache_local_versions", "_copy_installed_folder_to_cache"))]
    vparam = gvp.params()[0]
    ok7 = False
    for n_, c in pops:
        g = v7.guard_for(n_, lambda t: any(isinstance(x, ast.Compare) and any(isinstance(o, (ast.In, ast.NotIn)) for o in x.ops)
                                           and any(isinstance(y, ast.Name) and y.id == vparam for y in ast.walk(x)) for x in ast.walk(t)))
        if g is not None:
            ok7 = True
    ctx.check(ok7, "R19.7", gvp.qualname, "population on a missing version", loc(gvp, gvp.node),
              "the bundled schemas are copied into the cache only when the folder listing is empty (get_hed_versions); a population "
              "that was interrupted leaves a non-empty folder (the lock file, some of the schemas, a stale .tmp), and from then on "
              "every load of a version that is not there yet fails with fileNotFound instead of returning the bundled schema",
              desc="missing version triggers (re)population from the bundled schemas")

    # ---------------- R19.8 / R19.9: the refresh-interval test belongs to time-recording holders and is made under the lock
    ctx.rule("R19.8", "only a holder that records the refresh time (write_time) is refused for being inside the refresh interval")
    ctx.rule("R19.9", "the last-refresh time is read while the lock is held (acquire dominates the read)")
    ve = view(ctx, enter)
    reads = [n_ for (n_, c) in ve.calls(lambda c: call_name(c) == "_read_last_cached_time")]
    ctx.floor("R19.9", "reads of the last-refresh time in CacheLock.__enter__", len(reads), 1)
    acqs = [n_ for (n_, c) in ve.calls(lambda c: isinstance(c.func, ast.Attribute) and c.func.attr in ("acquire", "__enter__"))]
    for r in reads:
        ctx.check(bool(acqs) and any(ve.dominates(a, r) and a is not r for a in acqs), "R19.9", enter.qualname, r.ast, loc(enter, r.ast),
                  "the last-refresh time is read before the lock is acquired: a second refresher that passes the test while the first "
                  "still holds the lock refreshes again as soon as it gets the lock — two refreshes inside one interval",
                  desc="timestamp read under the lock")
    # the raise of the interval test
    thr = [n_ for n_ in ve.cfg.nodes if n_.kind == "cond" and any(isinstance(x, ast.Attribute) and x.attr == "time_threshold" for x in ast.walk(n_.ast))]
    ctx.floor("R19.8", "refresh-interval tests in CacheLock.__enter__", len(thr), 1)
    for t_ in thr:
        same = any(isinstance(x, ast.Attribute) and x.attr == "write_time" for x in ast.walk(t_.ast))
        g = ve.guard_for(t_, lambda t: any(isinstance(x, ast.Attribute) and x.attr == "write_time" for x in ast.walk(t)))
        ctx.check(same or (g is not None and g[1] is True), "R19.8", enter.qualname, t_.ast, loc(enter, t_.ast),
                  "the 'too recent' refusal is applied to every holder, also to the local population from the bundled schemas "
                  "(write_time=False): after any refresh attempt (even a failed, offline one) an empty or incomplete cache cannot be "
                  "populated for the whole interval and every load fails with fileNotFound", desc="interval refusal only for write_time holders")

    # ---------------- R19.10: the lock file lives inside the cache folder
    ctx.rule("R19.10", "the lock path is a path join under the folder, so every spelling of the folder names the same lock file")
    cl_init = prog.find_class("CacheLock").methods.get("__init__")
    if cl_init is None:
        raise AnalysisError("anchor CacheLock.__init__ vanished")
    ctx.saw(cl_init)
    fpar = cl_init.params()[1]
    n_lockpath = 0
    for a in walk_no_nested(cl_init.node):
        if isinstance(a, ast.Assign) and any(isinstance(t, ast.Attribute) and "lock" in t.attr and "name" in t.attr for t in a.targets):
            n_lockpath += 1
            val = a.value
            ok = isinstance(val, ast.Call) and call_name(val) == "join" and val.args and \
                any(isinstance(x, ast.Name) and x.id == fpar for x in ast.walk(val.args[0])) and \
                all(not any(isinstance(x, ast.Name) and x.id == fpar for x in ast.walk(r)) for r in val.args[1:])
            ctx.check(ok, "R19.10", cl_init.qualname, a, loc(cl_init, a),
                      "the lock file name is built from the folder text instead of joined under the folder: 'cache' and 'cache/' (or a "
                      "relative and an absolute spelling) then lock different files, so two processes refresh the same folder at once",
                      desc="lock path = os.path.join(folder, constant)")
    ctx.floor("R19.10", "lock path definitions in CacheLock.__init__", n_lockpath, 1)

    # ---------------- R19.11: an existing cached file is handed back only after its hash was compared with the published one
    ctx.rule("R19.11", "_cache_hed_version returns the existing file only under a comparison with its computed hash")
    from sa.dataflow import ReachingDefs, depends_on
    chv = prog.find_function("hed_cache._cache_hed_version")
    ctx.saw(chv)
    v11 = view(ctx, chv)
    rd11 = ReachingDefs(chv)
    n_ret = 0
    for n_ in v11.cfg.nodes:
        if n_.kind != "stmt" or not isinstance(n_.ast, ast.Return) or n_.ast.value is None:
            continue
        if isinstance(n_.ast.value, ast.Call) or (isinstance(n_.ast.value, ast.Constant) and n_.ast.value.value is None):
            continue        # the download path / nothing cached
        n_ret += 1

        def hash_test(t):
            return any(isinstance(x, ast.Compare) and isinstance(x.ops[0], (ast.Eq, ast.NotEq)) for x in ast.walk(t)) and \
                depends_on(rd11, t, t, lambda x: isinstance(x, ast.Call) and "sha" in (call_name(x) or "").lower())
        g = v11.guard_for(n_, hash_test)

        def when_equal(t):
            if isinstance(t, ast.UnaryOp) and isinstance(t.op, ast.Not):
                return {not x for x in when_equal(t.operand)}
            if isinstance(t, ast.Compare) and len(t.ops) == 1:
                return {True} if isinstance(t.ops[0], ast.Eq) else {False} if isinstance(t.ops[0], ast.NotEq) else {True, False}
            return {True, False}
        ctx.check(g is not None and when_equal(g[0].ast) == {g[1]}, "R19.11", chv.qualname, n_.ast, loc(chv, n_.ast),
                  "the cached file is returned on a path that does not compare its hash with the published one: a torn or stale file "
                  "under the final name is never replaced by a refresh", desc="existing file returned only when its hash matches")
    ctx.floor("R19.11", "returns of the existing file in _cache_hed_version", n_ret, 1)

    # ---------------- R19.12: only a complete file name counts as a cached version
    ctx.rule("R19.12", "the pattern that recognises cached version files is anchored at its end (or applied with fullmatch)")
    hc = prog.find_module("hed.schema.hed_cache")
    consts = {}
    for st in hc.tree.body:
        if isinstance(st, ast.Assign) and len(st.targets) == 1 and isinstance(st.targets[0], ast.Name):
            def fold19(e):
                if isinstance(e, ast.Constant) and isinstance(e.value, str):
                    return e.value
                if isinstance(e, ast.Name):
                    return consts.get(e.id)
                if isinstance(e, ast.BinOp) and isinstance(e.op, ast.Add):
                    a_, b_ = fold19(e.left), fold19(e.right)
                    return None if a_ is None or b_ is None else a_ + b_
                if isinstance(e, ast.Call) and call_name(e) == "compile" and e.args:
                    return fold19(e.args[0])
                return None
            val = fold19(st.value)
            if val is not None:
                consts[st.targets[0].id] = val
    n_pat19 = 0
    import re._parser as _sre
    from re._constants import AT, AT_END, AT_END_STRING
    for f in prog.functions.values():
        if f.module is not hc:
            continue
        for c in walk_no_nested(f.node):
            if isinstance(c, ast.Call) and isinstance(c.func, ast.Attribute) and c.func.attr in ("match", "search", "fullmatch") \
                    and isinstance(c.func.value, ast.Name) and c.func.value.id in consts and "version" in c.func.value.id.lower():
                n_pat19 += 1
                ctx.saw(f)
                parsed = list(_sre.parse(consts[c.func.value.id]))
                ok = c.func.attr == "fullmatch" or (bool(parsed) and parsed[-1][0] is AT and parsed[-1][1] in (AT_END, AT_END_STRING))
                ctx.check(ok, "R19.12", f.qualname, c, loc(f, c),
                          "`%s.%s` accepts a name that merely starts like a version file: a temporary file left by an interrupted "
                          "population (`HED8.3.0.xml.<pid>.tmp`) counts as version 8.3.0, so the version is believed cached and the "
                          "load fails with fileNotFound" % (c.func.value.id, c.func.attr), desc="%s: version pattern anchored at the end" % f.short)
    ctx.floor("R19.12", "uses of the version-file pattern", n_pat19, 2)

    # ---------------- R19.13: a second holder waits for the lock (up to the timeout) instead of failing at once
    ctx.rule("R19.13", "the lock is constructed without fail_when_locked=True")
    n1913 = 0
    for f in prog.functions.values():
        if f.module.name != "hed.schema.hed_cache_lock":
            continue
        for c in walk_no_nested(f.node):
            if isinstance(c, ast.Call) and norm(c.func).endswith("portalocker.Lock"):
                n1913 += 1
                ctx.saw(f)
                fw = [kw.value for kw in c.keywords if kw.arg == "fail_when_locked"]
                to = [kw.value for kw in c.keywords if kw.arg == "timeout"]
                ok = not (fw and isinstance(fw[0], ast.Constant) and fw[0].value is True) and \
                    not (to and isinstance(to[0], ast.Constant) and to[0].value in (0, None))
                ctx.check(ok, "R19.13", f.qualname, c, loc(f, c),
                          "the lock fails at once when another process holds it (no retry up to the timeout): a load that coincides with "
                          "another process populating the cache raises fileNotFound instead of waiting", desc="lock waits up to its timeout")
    ctx.floor("R19.13", "lock constructions", n1913, 1)

    # ---------------- R19.14: parameters are handed on to same-named parameters of repository callees
    from sa.forward import check_forwarding
    nfw = check_forwarding(ctx, "R19.14", [f for f in prog.functions.values() if f.module.name.startswith(('hed.schema.hed_cache', 'hed.schema.hed_cache_lock', 'hed.schema.schema_io.schema_util'))], 'e.g. the cache folder, the prerelease switch')
    ctx.floor("R19.14", "same-named parameter sites", nfw, 1)

    # ---------------- R19.15: the refresh time is recorded while the lock is still held
    ctx.rule("R19.15", "in CacheLock.__exit__ the refresh time is written before the lock is released")
    ex15 = lock_cls.methods.get("__exit__")
    if ex15 is None:
        raise AnalysisError("anchor CacheLock.__exit__ vanished")
    ctx.saw(ex15)
    v15 = view(ctx, ex15)
    writes15 = [n for (n, c) in v15.calls(lambda c: call_name(c) == "_write_last_cached_time")]
    rel15 = [n for (n, c) in v15.calls(lambda c: isinstance(c.func, ast.Attribute) and c.func.attr in ("release", "close", "unlock"))]
    ctx.floor("R19.15", "timestamp writes in __exit__", len(writes15), 1)
    ctx.floor("R19.15", "lock releases in __exit__", len(rel15), 1)
    for w15 in writes15:
        before = [r for r in rel15 if w15 in v15.cfg.reachable_from(r, True)]
        ctx.check(not before, "R19.15", ex15.qualname, w15.ast, loc(ex15, w15.ast),
                  "the refresh time is written after the lock has been released: a second refresher can take the lock in between, "
                  "read the old time and refresh again inside the interval (two holders' critical work overlaps)",
                  desc="timestamp written before release")
