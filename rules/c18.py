"""C18 — backups: copy before record, never overwrite, selective restore, remodel reads the
backup, listing is guarded by the consistency checks."""
import ast

from sa.dataflow import ReachingDefs, depends_on
from sa.dom import view, mentions
from sa.model import AnalysisError, call_name, dotted, loc, norm, walk_no_nested

LEVEL_TEXT = ("Static structural proof of necessary conditions: (R18.1) in create_backup every directory creation and "
              "file copy precedes the write of the backup record and the record write dominates the success return; "
              "(R18.2) the same-name refusal dominates all I/O; (R18.3) the restore copy is guarded by the task filter; "
              "(R18.4) the dispatcher reads the backup path whenever a backup manager exists and the CLI restores "
              "before any run; (R18.5) a backup becomes listed only past the two-entry test and both consistency "
              "raises. Byte identity, interruption at arbitrary I/O steps (the record write itself is not atomic) and "
              "idempotence of re-running are NOT decided.")
LEVEL_EXTRA = 'Added after the seeded evaluation: (R18.2) the name tested by the same-name refusal is the name used by every write (no re-definition in between); (R18.4) the data tree is scanned (file list, task parsing) only after the restore. The same-name refusal also consults the file system; the task filter is not a substring test. (R18.5) a backup key is the relative path joined unchanged. (R18.6) no case normalisation of path components in get_path_components / get_file_key. (R18.7) every caller of the consistency check tests both discrepancy lists and raises. (R18.8) every restore in the CLI passes the task names. (R18.9) a parameter is handed on to every repository callee that takes a parameter of the same name (11 frozen exceptions package-wide). (R18.10) get_task matches the task entity against the base name of the path.'

COPY_NAMES = ("copy", "copy2", "copyfile", "copytree", "move")


def io_nodes(v):
    """CFG nodes performing file-system writes: (node, kind)."""
    out = []
    for n in v.cfg.nodes:
        for c in v.node_calls(n):
            d = dotted(c.func) or ""
            nm = call_name(c)
            if nm in COPY_NAMES and ("shutil" in d or isinstance(c.func, ast.Name)):
                out.append((n, c, "copy"))
            elif d in ("os.makedirs", "os.mkdir"):
                out.append((n, c, "mkdir"))
            elif nm == "open" and isinstance(c.func, ast.Name):
                mode = c.args[1] if len(c.args) > 1 else None
                for kw in c.keywords:
                    if kw.arg == "mode":
                        mode = kw.value
                if isinstance(mode, ast.Constant) and isinstance(mode.value, str) and \
                        any(ch in mode.value for ch in "wax+"):
                    out.append((n, c, "write"))
    return out


def run(ctx):
    prog, cg = ctx.prog, ctx.cg
    ctx.rule("R18.1", "every copy/mkdir of create_backup precedes the record write; the record write dominates success")
    ctx.rule("R18.2", "the same-name test with an early return dominates every I/O sink of create_backup")
    ctx.rule("R18.3", "inside the restore loop the copy is guarded by the task filter")
    ctx.rule("R18.4", "the dispatcher reads from the backup path when a backup manager exists; the CLI restores first")
    ctx.rule("R18.5", "a backup is listed only past the two-entry test and both consistency raises")
    ctx.assume("file-system calls are recognised by name: shutil.copy*/move, os.makedirs/mkdir, open(..., 'w'/'a'/'x')")
    bm = prog.find_class("BackupManager")
    create = bm.methods.get("create_backup")
    restore = bm.methods.get("restore_backup")
    getb = bm.methods.get("_get_backups")
    for nm, f in (("create_backup", create), ("restore_backup", restore), ("_get_backups", getb)):
        if f is None:
            raise AnalysisError("anchor BackupManager.%s vanished" % nm)
    ctx.saw(create, restore, getb)

    # ---------------- R18.1 / R18.2
    v = view(ctx, create)
    sinks = io_nodes(v)
    rd = ReachingDefs(create)
    records = [(n, c) for (n, c, k) in sinks if k == "write" and depends_on(
        rd, c.args[0], c, lambda x: isinstance(x, ast.Attribute) and x.attr == "BACKUP_DICTIONARY")]
    if not records:
        records = [(n, c) for (n, c, k) in sinks if k == "write"]
    copies = [(n, c, k) for (n, c, k) in sinks if k in ("copy", "mkdir")]
    ctx.floor("R18.1", "copy/mkdir sinks in create_backup", len(copies), 2)
    if not records:
        ctx.violation("R18.1", create.qualname, "record write", loc(create, create.node),
                      "create_backup no longer writes the backup record (backup_lock.json)")
    for rn, rc in records:
        after = v.cfg.reachable_from(rn, True) - {rn}
        for n, c, k in copies:
            ctx.count_paths()
            ctx.check(n not in after, "R18.1", create.qualname, c, loc(create, c),
                      "this %s can execute after the backup record has been written: an interruption here leaves a "
                      "listed backup whose recorded files are missing or incomplete" % k,
                      desc="%s precedes the record write" % norm(c)[:60])
        # success returns dominated by the record write
        for n in v.cfg.nodes:
            if n.kind == "stmt" and isinstance(n.ast, ast.Return) and not (
                    isinstance(n.ast.value, ast.Constant) and n.ast.value.value in (False, None)):
                ctx.check(v.dominates(rn, n), "R18.1", create.qualname, n.ast, loc(create, n.ast),
                          "create_backup can report success without having written the backup record",
                          desc="record write dominates `%s`" % norm(n.ast))
    # R18.2
    def same_name_test(t):
        return mentions(t, "backups_dict") and mentions(t, "backup_name")
    n_guarded = 0
    for n, c, k in sinks:
        g = v.guard_for(n, same_name_test, want_leave=("return", "raise"))
        n_guarded += 1
        ctx.check(g is not None, "R18.2", create.qualname, c, loc(create, c),
                  "this %s is not dominated by the existing-backup test with its early return: an existing backup of "
                  "the same name can be overwritten" % k,
                  desc="%s only after the same-name refusal" % norm(c)[:60])
    ctx.floor("R18.2", "I/O sinks in create_backup", n_guarded, 3)
    # the in-memory listing too
    for n in v.cfg.nodes:
        if n.kind == "stmt" and isinstance(n.ast, ast.Assign) and any(
                isinstance(t, ast.Subscript) and norm(t.value) == "self.backups_dict" for t in n.ast.targets):
            g = v.guard_for(n, same_name_test, want_leave=("return", "raise"))
            ctx.check(g is not None, "R18.2", create.qualname, n.ast, loc(create, n.ast),
                      "the in-memory backup table entry is overwritten without the same-name refusal",
                      desc="table store only after the same-name refusal")

    # the name that is tested is the name that is used: some refusal that dominates the write tests the very value that is written
    def guard_keys(gnode):
        keys = set()
        for x in ast.walk(gnode.ast):
            if isinstance(x, ast.Compare) and any(isinstance(o, (ast.In, ast.NotIn)) for o in x.ops) and \
                    "backups_dict" in norm(x.comparators[0]):
                keys |= {y.id for y in ast.walk(x.left) if isinstance(y, ast.Name)}
            if isinstance(x, ast.Call) and isinstance(x.func, ast.Attribute) and x.func.attr in ("get", "__contains__") and x.args \
                    and "backups_dict" in norm(x.func.value):
                keys |= {y.id for y in ast.walk(x.args[0]) if isinstance(y, ast.Name)}
            if isinstance(x, ast.Subscript) and "backups_dict" in norm(x.value):
                keys |= {y.id for y in ast.walk(x.slice) if isinstance(y, ast.Name)}
            if isinstance(x, ast.Call) and (dotted(x.func) or "") in ("os.path.exists", "os.path.isdir", "os.path.isfile", "os.path.lexists"):
                keys |= {y.id for y in ast.walk(x) if isinstance(y, ast.Name) and y.id in create.params()}
        return keys
    refusals = [c_ for c_ in v.conds(lambda t: True) if ("return" in v.leaves(c_, True) or "raise" in v.leaves(c_, True)) and guard_keys(c_)]
    name_keys = set()
    for g_ in refusals:
        name_keys |= guard_keys(g_)
    name_keys &= set(create.params())
    users = [(n, c) for (n, c, k) in sinks] + [(n, n.ast) for n in v.cfg.nodes if n.kind == "stmt" and isinstance(n.ast, ast.Assign)
                                               and any(isinstance(t, ast.Subscript) and norm(t.value) == "self.backups_dict"
                                                       for t in n.ast.targets)]
    n_same = 0
    for kname in sorted(name_keys):
        for n, c in users:
            stmt = n.ast
            if not depends_on(rd, c if isinstance(c, ast.Call) else stmt, stmt, lambda y, kn=kname: isinstance(y, ast.Name) and y.id == kn):
                continue
            n_same += 1
            at_use = {id(d) for d in (rd.at(stmt, kname) or [])}
            ok_same = any(v.dominates(g_, n) and kname in guard_keys(g_) and
                          {id(d) for d in (rd.at(g_.ast, kname) or [])} == at_use for g_ in refusals)
            ctx.check(ok_same, "R18.2", create.qualname, c, loc(create, c),
                      "`%s` is given a new value between every existing-backup test and this use: the name that was tested "
                      "is not the name that is written, so an existing backup (e.g. the default one, for an empty name) "
                      "is overwritten" % kname, desc="`%s` at `%s` is a value some dominating refusal tested" % (kname, norm(c)[:40]))
    if refusals:
        ctx.floor("R18.2", "uses of the tested backup name", n_same, 1)

    # the refusal looks at the disk, not only at the table this object loaded when it was built
    fs_tests = [c_ for c_ in v.conds(lambda t: any(isinstance(x, ast.Call) and (dotted(x.func) or "") in (
        "os.path.exists", "os.path.isdir", "os.path.isfile", "os.path.lexists") for x in ast.walk(t)))]
    ok_fs = False
    for c_ in fs_tests:
        if "return" in v.leaves(c_, True) or "raise" in v.leaves(c_, True):
            if all(v.dominates(c_, n) for (n, c, k) in sinks):
                ok_fs = True
    ctx.check(ok_fs, "R18.2", create.qualname, "refusal consults the file system", loc(create, create.node),
              "the same-name refusal only consults the in-memory table (loaded when this manager was constructed, keyed by the literal "
              "name): `create_backup(files, './x')`, `'x/'` or a manager built before backup `x` existed all overwrite the existing "
              "backup `x`, whose directory is created with exist_ok=True", desc="existing backup directory refused on disk")

    # ---------------- R18.3
    vr = view(ctx, restore)
    rsinks = [(n, c) for (n, c, k) in io_nodes(vr) if k == "copy"]
    ctx.floor("R18.3", "copy sinks in restore_backup", len(rsinks), 1)
    for n, c in rsinks:
        g = vr.guard_for(n, lambda t: mentions(t, "get_task") or mentions(t, "task_names"),
                         want_leave=("continue", "return", "break"))
        ctx.check(g is not None, "R18.3", restore.qualname, c, loc(restore, c),
                  "the restore copy is not guarded by the task filter: restoring selected tasks would overwrite "
                  "files of other tasks", desc="restore copy guarded by the task filter")
        # the filter must actually consult the requested task names
    filt = vr.conds(lambda t: mentions(t, "get_task"))
    ctx.check(bool(filt) and all(mentions(c.ast, "task_names") for c in filt), "R18.3", restore.qualname,
              "task filter", loc(restore, restore.node), "the task filter no longer consults the requested task names",
              desc="task filter consults task_names")

    # the task filter compares a whole task name, not a substring of the file name
    gt = bm.methods.get("get_task")
    if gt is None:
        raise AnalysisError("anchor BackupManager.get_task vanished")
    ctx.saw(gt)
    n_sub = 0
    for x in walk_no_nested(gt.node):
        if isinstance(x, ast.Compare) and len(x.ops) == 1 and isinstance(x.ops[0], (ast.In, ast.NotIn)):
            n_sub += 1
            concat = isinstance(x.left, (ast.BinOp, ast.JoinedStr))
            ctx.check(not concat, "R18.3", gt.qualname, x, loc(gt, x),
                      "`%s` is a substring test on the file name: restoring task `go` also rewrites `..._task_gonogo_...` files "
                      "(restoring only the requested tasks must touch only those files)" % norm(x)[:50],
                      desc="task membership is not a substring test")
    ctx.ok("R18.3", "get_task: %d membership tests, none a substring test of a built-up text" % n_sub, "")

    # ---------------- R18.4
    disp = prog.find_class("Dispatcher")
    gdf = disp.methods.get("get_data_file")
    if gdf is None:
        raise AnalysisError("anchor Dispatcher.get_data_file vanished")
    ctx.saw(gdf)
    vg = view(ctx, gdf)
    rdg = ReachingDefs(gdf)
    reads = [(n, c) for (n, c) in vg.calls(lambda c: call_name(c) in ("read_csv", "read_table", "open", "read_excel")
                                           and c.args)]
    ctx.floor("R18.4", "file reads in get_data_file", len(reads), 1)

    def from_backup(x):
        return isinstance(x, ast.Call) and call_name(x) == "get_backup_path"

    def bm_test(t):
        return mentions(t, "backup_man")
    for n, c in reads:
        arg = c.args[0]
        ok = True
        why = ""
        if isinstance(arg, ast.Name):
            defs = rdg.at(c, arg.id) or []
            if not defs:
                ok = False
            for d in defs:
                if d.kind != "param" and d.value is not None and depends_on(rdg, d.value, d.node, from_backup):
                    continue
                # a definition that is not the backup path: allowed only on the no-backup-manager edge
                dn = vg.node(d.node) if d.kind != "param" else n
                g = vg.guard_for(dn, bm_test) if dn is not None else None
                if g is None or not _no_backup_edge(g):
                    ok = False
                    why = "definition `%s` of the path that is read is not restricted to the no-backup-manager case" % (
                        norm(d.node)[:60] if d.kind != "param" else arg.id)
        else:
            ok = depends_on(rdg, arg, c, from_backup)
        ctx.check(ok, "R18.4", gdf.qualname, c, loc(gdf, c),
                  "the file that is read does not derive from the backup path whenever a backup manager exists (%s): "
                  "re-running the remodeler would start from already remodelled data" % why,
                  desc="get_data_file reads the backup copy when a backup manager exists")
    # CLI: restore dominates the runs
    main = prog.try_function("run_remodel.main")
    hb = prog.try_function("run_remodel.handle_backup")
    if main is None or hb is None:
        raise AnalysisError("anchor run_remodel.main/handle_backup vanished")
    ctx.saw(main, hb)
    vm = view(ctx, main)
    hb_nodes = [n for (n, c) in vm.calls(lambda c: call_name(c) == "handle_backup")]
    runs = [(n, c) for (n, c) in vm.calls(lambda c: call_name(c) in ("Dispatcher", "run_bids_ops", "run_direct_ops"))]
    ctx.floor("R18.4", "dispatcher constructions/runs in main", len(runs), 2)
    for n, c in runs:
        ctx.check(bool(hb_nodes) and any(vm.dominates(h, n) for h in hb_nodes), "R18.4", main.qualname, c, loc(main, c),
                  "the remodeler can run before the backup has been restored",
                  desc="handle_backup dominates `%s`" % norm(c)[:50])
    # the data tree is inspected only after the restore (a file deleted since the backup must be in the list)
    scans = [(n, c) for (n, c) in vm.calls(lambda c: call_name(c) in ("get_file_list", "parse_tasks", "get_dir_dictionary"))]
    for n, c in scans:
        ctx.check(bool(hb_nodes) and any(vm.dominates(h, n) for h in hb_nodes), "R18.4", main.qualname, c, loc(main, c),
                  "the data tree is scanned before the backup has been restored: a file that was deleted or renamed since the "
                  "backup is restored afterwards but is missing from the list of files to remodel",
                  desc="handle_backup dominates `%s`" % norm(c)[:50])
    vh = view(ctx, hb)
    cons = [n for (n, c) in vh.calls(lambda c: call_name(c) == "BackupManager")]
    rest = [n for (n, c) in vh.calls(lambda c: call_name(c) == "restore_backup")]
    for cn in cons:
        ctx.check(bool(rest) and vh.every_path_to_exit_passes(cn, rest), "R18.4", hb.qualname, cn.ast, loc(hb, cn.ast),
                  "handle_backup can return a backup name without having restored the backup",
                  desc="restore_backup on every normal path after the backup manager is built")

    # ---------------- R18.5
    vb = view(ctx, getb)
    stores = [n for n in vb.cfg.nodes if n.kind == "stmt" and isinstance(n.ast, ast.Assign) and any(
        isinstance(t, ast.Subscript) and isinstance(t.value, ast.Name) for t in n.ast.targets)]
    returned = {x.id for r in walk_no_nested(getb.node) if isinstance(r, ast.Return) and r.value is not None
                for x in ast.walk(r.value) if isinstance(x, ast.Name)}
    stores = [n for n in stores if any(isinstance(t, ast.Subscript) and t.value.id in returned for t in n.ast.targets)]
    sites = [(getb, vb, n) for n in stores]
    if not sites:
        # the listing written as a dict display over the directory: the entry's value comes from a helper of the class,
        # and the helper's value-returning exits are the listing points
        for dc in ast.walk(getb.node):
            if isinstance(dc, ast.DictComp) and isinstance(dc.value, ast.Call):
                for k, h in cg.resolve_call(dc.value, getb):
                    if k == "precise" and h.cls is bm:
                        vh_ = view(ctx, h)
                        ctx.saw(h)
                        sites += [(h, vh_, n) for n in vh_.cfg.nodes if n.kind == "stmt" and isinstance(n.ast, ast.Return)
                                  and n.ast.value is not None]
    ctx.floor("R18.5", "listing points of _get_backups", len(sites), 1)
    for fn, vfn, s in sites:
        # names unpacked from the consistency check
        unpack = None
        for n in walk_no_nested(fn.node):
            if isinstance(n, ast.Assign) and isinstance(n.value, ast.Call) and call_name(n.value) == "_check_backup_consistency" \
                    and isinstance(n.targets[0], ast.Tuple):
                unpack = [e.id for e in n.targets[0].elts if isinstance(e, ast.Name)]
        if not unpack or len(unpack) < 3:
            raise AnalysisError("R18.5 anchor: tuple result of _check_backup_consistency not unpacked in %s" % fn.short)
        reqs = [("two-entry test", lambda t: mentions(t, "listdir") and any(
                    isinstance(x, ast.Constant) and x.value == 2 for x in ast.walk(t))),
                ("files-not-in-record test", lambda t, nm=unpack[1]: mentions(t, nm)),
                ("record-entries-not-on-disk test", lambda t, nm=unpack[2]: mentions(t, nm))]
        for label, pred in reqs:
            g = vfn.guard_for(s, pred, want_leave=("raise", "continue"))
            ctx.check(g is not None, "R18.5", fn.qualname, "%s before %s" % (label, norm(s.ast)), loc(fn, s.ast),
                      "a backup becomes listed without passing the %s: the manager can list a backup whose recorded "
                      "files are missing" % label, desc="listing dominated by the %s" % label)
    # the consistency check itself refuses a missing record / root
    chk = bm.methods.get("_check_backup_consistency")
    if chk is None:
        raise AnalysisError("anchor _check_backup_consistency vanished")
    vc = view(ctx, chk)
    opens = [n for (n, c) in vc.calls(lambda c: call_name(c) == "open")]
    for o in opens:
        g = vc.guard_for(o, lambda t: mentions(t, "exists") or mentions(t, "isfile"), want_leave=("raise",))
        ctx.check(g is not None, "R18.5", chk.qualname, o.ast if o.kind != "with" else "open record", loc(chk, o.ast),
                  "the record is opened without the existence test that turns a half-created backup into the "
                  "documented error", desc="record existence test dominates reading it")

    # ---------------- R18.5: a backup key is the file's own relative path (restore joins it back under the data root)
    ctx.rule("R18.5", "get_file_key joins the path components unchanged")
    from sa.dataflow import ReachingDefs as _RD18
    gfk = prog.find_class("BackupManager").methods.get("get_file_key")
    if gfk is None:
        raise AnalysisError("anchor BackupManager.get_file_key vanished")
    ctx.saw(gfk)
    rd18 = _RD18(gfk)
    ALLOWED18 = {"get_path_components", "basename", "join", "relpath", "realpath", "normpath", "split", "replace", "list", "dirname"}
    n_key = 0
    for r in walk_no_nested(gfk.node):
        if not (isinstance(r, ast.Return) and r.value is not None):
            continue
        n_key += 1
        seen, todo, foreign = set(), [(r.value, r)], []
        while todo:
            e, at = todo.pop()
            for x in ast.walk(e):
                if isinstance(x, ast.Call) and call_name(x) not in ALLOWED18:
                    foreign.append(x)
                if isinstance(x, ast.Name) and isinstance(x.ctx, ast.Load):
                    for d in rd18.at(at, x.id) or []:
                        if id(d) not in seen and d.value is not None:
                            seen.add(id(d))
                            todo.append((d.value, d.node))
        ctx.check(not foreign, "R18.5", gfk.qualname, r, loc(gfk, r),
                  "the key is no longer the file's own relative path (components pass through %s): restore_backup joins the key back "
                  "under the data root, so a file whose name is changed by that step is restored to a different path and the original "
                  "stays as it was" % ", ".join(sorted({call_name(x) or "?" for x in foreign})),
                  desc="key = relative path components joined unchanged")
    ctx.floor("R18.5", "key constructions in get_file_key", n_key, 1)

    # ---------------- R18.6: path components keep their own spelling (restore joins them back under the data root)
    ctx.rule("R18.6", "get_path_components / get_file_key apply no case or character normalisation to path components")
    gpc = prog.find_function("io_util.get_path_components")
    n_path = 0
    for fn in (gpc, gfk):
        ctx.saw(fn)
        for c in walk_no_nested(fn.node):
            if isinstance(c, ast.Call) and isinstance(c.func, ast.Attribute):
                n_path += 1
                ctx.check(c.func.attr not in ("lower", "upper", "casefold", "title", "capitalize", "swapcase", "normcase", "translate"),
                          "R18.6", fn.qualname, c, loc(fn, c),
                          "path components are case-normalised: the copy and its key are stored under `sub-a02` while the data lives under "
                          "`sub-A02`, so restore writes a new tree and leaves the modified files as they are",
                          desc="%s: %s keeps the spelling" % (fn.short, c.func.attr))
    ctx.floor("R18.6", "path calls in get_path_components/get_file_key", n_path, 4)

    # ---------------- R18.7: a backup is listed only after both discrepancy lists of the consistency check were tested
    ctx.rule("R18.7", "every caller of _check_backup_consistency tests both discrepancy lists and raises")
    bm18 = prog.find_class("BackupManager")
    n_cc = 0
    for m in bm18.methods.values():
        if m.name == "_check_backup_consistency":
            continue
        pm18 = {id(ch): p for p in ast.walk(m.node) for ch in ast.iter_child_nodes(p)}
        for c in walk_no_nested(m.node):
            if not (isinstance(c, ast.Call) and call_name(c) == "_check_backup_consistency"):
                continue
            n_cc += 1
            ctx.saw(m)
            par = pm18.get(id(c))
            names = []
            if isinstance(par, ast.Assign) and par.value is c and len(par.targets) == 1 and isinstance(par.targets[0], ast.Tuple):
                names = [e.id if isinstance(e, ast.Name) else None for e in par.targets[0].elts]
            tested = 0
            for nm in names[1:3]:
                if nm and any(isinstance(i, ast.If) and any(isinstance(x, ast.Name) and x.id == nm for x in ast.walk(i.test))
                              and any(isinstance(b, ast.Raise) for b in i.body) for i in walk_no_nested(m.node)):
                    tested += 1
            ctx.check(len(names) == 3 and tested == 2, "R18.7", m.qualname, c, loc(m, c),
                      "the result of the consistency check is used without testing both discrepancy lists (files not recorded / recorded "
                      "files missing): a backup whose recorded files are missing gets listed", desc="%s tests both discrepancy lists" % m.short)
    ctx.floor("R18.7", "callers of _check_backup_consistency", n_cc, 1)

    # ---------------- R18.8: the CLI hands its task selection on to every restore
    ctx.rule("R18.8", "every restore_backup call in the remodeling CLI passes the task names taken from the arguments")
    n_rest = 0
    for f in prog.functions.values():
        if not f.module.name.startswith("hed.tools.remodeling.cli"):
            continue
        for c in walk_no_nested(f.node):
            if isinstance(c, ast.Call) and call_name(c) == "restore_backup":
                n_rest += 1
                ctx.saw(f)
                a = cg.arg(c, "task_names")
                if a is None and id(c) not in cg.param_order and len(c.args) > 1:
                    a = c.args[1]
                ctx.check(a is not None and "task" in norm(a), "R18.8", f.qualname, c, loc(f, c),
                          "the restore is made without the task selection: a run restricted to one task restores every backed-up file "
                          "first, silently reverting files of the other tasks", desc="%s: restore receives the task names" % f.short)
    ctx.floor("R18.8", "restore_backup calls in the CLI", n_rest, 2)

    # ---------------- R18.9: parameters are handed on to same-named parameters of repository callees
    from sa.forward import check_forwarding
    nfw = check_forwarding(ctx, "R18.9", [f for f in prog.functions.values() if f.module.name.startswith(('hed.tools.remodeling.backup_manager', 'hed.tools.remodeling.cli'))], 'e.g. the backup name, the task names')
    ctx.floor("R18.9", "same-named parameter sites", nfw, 1)

    # ---------------- R18.10: the task of a file is read from its own name, not from the directories above it
    ctx.rule("R18.10", "BackupManager.get_task matches the task entity against the base name of the path")
    gt = bm.methods.get("get_task")
    if gt is None:
        raise AnalysisError("anchor BackupManager.get_task vanished")
    ctx.saw(gt)
    from sa.dataflow import ReachingDefs as _RD1810, depends_on as _dep1810
    rd1810 = _RD1810(gt)
    n1810 = 0
    subjects = []       # (node, expression in which the task entity is looked for)
    for c in walk_no_nested(gt.node):
        if isinstance(c, ast.Call) and isinstance(c.func, ast.Attribute) and c.func.attr in ("search", "match", "fullmatch", "findall", "finditer") \
                and isinstance(c.func.value, ast.Name) and c.func.value.id == "re" and len(c.args) >= 2:
            subjects.append((c, c.args[1]))
        elif isinstance(c, ast.Compare) and len(c.ops) == 1 and isinstance(c.ops[0], (ast.In, ast.NotIn)) and "task" in norm(c.left):
            subjects.append((c, c.comparators[0]))
        elif isinstance(c, ast.Call) and isinstance(c.func, ast.Attribute) and c.func.attr in ("find", "startswith", "endswith", "count", "index") \
                and c.args and "task" in norm(c.args[0]):
            subjects.append((c, c.func.value))
    for c, subj in subjects:
        n1810 += 1
        ok1810 = _dep1810(rd1810, subj, c, lambda y: isinstance(y, ast.Call) and call_name(y) in ("basename", "split", "name") or (
            isinstance(y, ast.Attribute) and y.attr in ("name", "stem")))
        ctx.check(ok1810, "R18.10", gt.qualname, c, loc(gt, c),
                  "the task entity is looked for in `%s`, the whole path: a directory, data-root or backup name that contains "
                  "`task_<name>` makes every file below it count as that task, so a restore limited to some tasks also overwrites "
                  "files of other tasks" % norm(subj)[:40], desc="task matched on the file's base name")
    ctx.floor("R18.10", "task pattern searches in get_task", n1810, 1)


def _negated(test):
    return isinstance(test, ast.UnaryOp) and isinstance(test.op, ast.Not)


def _no_backup_edge(g):
    """(cond, label): is this the edge on which there is NO backup manager?"""
    cond, lab = g
    t = cond.ast
    neg = False
    while isinstance(t, ast.UnaryOp) and isinstance(t.op, ast.Not):
        neg = not neg
        t = t.operand
    if isinstance(t, ast.Compare) and len(t.ops) == 1 and isinstance(t.comparators[0], ast.Constant) \
            and t.comparators[0].value is None:
        if isinstance(t.ops[0], (ast.Is, ast.Eq)):
            neg = not neg
    # truthy test: backup exists on True edge (unless negated)
    exists_label = not neg
    return lab is (not exists_label)
