"""C02 — parsing is total: no explicit raise escapes the annotation constructor; unbalanced
parentheses give empty contents and the mismatch rule is wired."""
import ast
import builtins

from sa import wiring
from sa.callgraph import STRONG_KINDS
from sa.dom import view, mentions
from sa.model import AnalysisError, ClassInfo, FunctionInfo, call_name, loc, norm, walk_no_nested

LEVEL_TEXT = ("Static structural proof of necessary conditions: (R2.1) the set of exception classes raised by explicit "
              "`raise` statements anywhere in the call closure of HedString.__init__ (precise and unique-name edges) and "
              "not caught by a matching handler on the way up is empty; (R2.2) the handler that catches the group "
              "splitter's exception binds the contents to an empty list display, both parenthesis faults raise the "
              "exception that is caught, and PARENTHESES_MISMATCH is registered and reachable from string validation. "
              "Implicit exceptions (index/attribute/type errors from values), the tokenizer's span arithmetic, nesting = "
              "parenthesis nesting and print/re-parse equality are NOT decided.")
LEVEL_EXTRA = 'Added after the seeded evaluation: (R2.3) every printer of a group visits every child, unfiltered; (R2.4) nothing returns before the parenthesis-count check. (R2.5) equality of tree objects never tests the other operand for truthiness. (R2.6) the validator decides parenthesis balance by a running depth over the text, not by comparing counts. (R2.7) HedGroup.append attaches its argument on every path.'


def exc_name(node):
    """Name of the exception class in `raise X(...)` / `raise X` / handler type."""
    if node is None:
        return None
    if isinstance(node, ast.Call):
        node = node.func
    if isinstance(node, ast.Attribute):
        return node.attr
    if isinstance(node, ast.Name):
        return node.id
    return None


def catches(prog, handler_types, exc, module):
    """Does a handler with these type names catch exception class `exc`?"""
    for h in handler_types:
        if h is None or h in ("BaseException",):
            return True
        if h == exc:
            return True
        if h == "Exception" and exc not in ("KeyboardInterrupt", "SystemExit", "GeneratorExit", "BaseException"):
            return True
        b_exc, b_h = getattr(builtins, exc, None), getattr(builtins, h, None)
        if isinstance(b_exc, type) and isinstance(b_h, type) and issubclass(b_exc, b_h):
            return True
        # repo exception classes
        ce = [c for c in prog.by_class_name.get(exc, [])]
        for c in ce:
            if any(m.name == h for m in c.mro()):
                return True
            # base is a builtin: walk its base expressions
            for m in c.mro():
                for be in m.base_exprs:
                    bn = exc_name(be)
                    bb = getattr(builtins, bn, None) if bn else None
                    if isinstance(bb, type) and isinstance(b_h, type) and issubclass(bb, b_h):
                        return True
    return False


def handler_types(h):
    if h.type is None:
        return [None]
    if isinstance(h.type, ast.Tuple):
        return [exc_name(e) for e in h.type.elts]
    if isinstance(h.type, ast.BoolOp):
        return [exc_name(h.type.values[0])]      # `except A or B` catches only A
    return [exc_name(h.type)]


class Escapes:
    def __init__(self, ctx):
        self.ctx = ctx
        self.prog, self.cg = ctx.prog, ctx.cg
        self.memo = {}
        self.active = set()

    def handlers_for(self, f, node):
        """Handler type lists of every try statement of f whose *body* lexically contains node."""
        cur_lists = []
        for t in ast.walk(f.node):
            if isinstance(t, ast.Try) and any(x is node for b in t.body for x in ast.walk(b)):
                cur_lists.append([ty for h in t.handlers for ty in handler_types(h)])
        return cur_lists

    def escapes(self, f):
        """-> dict exc_name -> witness chain [(function, node)]"""
        if f in self.memo:
            return self.memo[f]
        if f in self.active:
            return {}
        self.active.add(f)
        out = {}
        for n in walk_no_nested(f.node):
            if isinstance(n, ast.Raise):
                if n.exc is None:
                    continue       # bare re-raise: the caught types, already accounted for at their origin
                e = exc_name(n.exc)
                if e is None:
                    continue
                if isinstance(n.exc, ast.Name) and not isinstance(getattr(builtins, e, None), type) and \
                        not self.prog.by_class_name.get(e):
                    continue       # `raise e` of a caught variable
                hs = self.handlers_for(f, n)
                if not any(catches(self.prog, h, e, f.module) for h in hs):
                    out.setdefault(e, [(f, n)])
            elif isinstance(n, ast.Call):
                res = self.cg.resolve_call(n, f)
                prec = [c for (k, c) in res if k == "precise"]
                cands = [c for c in (prec or [c for (k, c) in res if k == "name"]) if not c.is_abstract]
                if not prec and len(cands) > 3:
                    continue
                hs = self.handlers_for(f, n)
                for g in cands:
                    if g.is_abstract:
                        continue
                    for e, chain in self.escapes(g).items():
                        if not any(catches(self.prog, h, e, f.module) for h in hs):
                            out.setdefault(e, [(f, n)] + chain)
        # property reads on typed receivers
        for k, c, n in self.cg.edges.get(f, []):
            if k == "prop" and not c.is_abstract:
                hs = self.handlers_for(f, n)
                for e, chain in self.escapes(c).items():
                    if not any(catches(self.prog, h, e, f.module) for h in hs):
                        out.setdefault(e, [(f, n)] + chain)
        self.active.discard(f)
        self.memo[f] = out
        return out


def run(ctx):
    prog, cg = ctx.prog, ctx.cg
    ctx.rule("R2.1", "no exception class raised explicitly in the closure of HedString.__init__ escapes it")
    ctx.rule("R2.2", "unbalanced parentheses: caught, contents bound to an empty list display, mismatch rule wired")
    ctx.assume("every explicit raise in the closure is treated as feasible; implicit exceptions are out of scope")
    hs = prog.find_class("HedString")
    init = hs.methods.get("__init__")
    split = hs.methods.get("split_into_groups")
    if init is None or split is None:
        raise AnalysisError("anchor HedString.__init__/split_into_groups vanished")
    esc = Escapes(ctx)
    result = esc.escapes(init)
    closure = cg.reachable([init], ("precise", "prop", "name"))
    ctx.saw(*[f for f in closure if f.module.name.startswith("hed.models") or f.module.name.startswith("hed.schema")])
    raises = [(f, n) for f in closure for n in walk_no_nested(f.node) if isinstance(n, ast.Raise) and n.exc is not None]
    ctx.floor("R2.1", "explicit raises in the closure of the constructor", len(raises), 3)
    ctx.count_sites(len(raises))
    if not result:
        ctx.ok("R2.1", "%d explicit raises in %d functions reachable from HedString.__init__; every one is caught by a "
                       "matching handler before it could leave the constructor" % (len(raises), len(closure)), loc(init, init.node))
    for e, chain in sorted(result.items()):
        f0, n0 = chain[-1]
        ctx.violation("R2.1", f0.qualname, n0, loc(f0, n0),
                      "%s raised here can leave HedString.__init__ (no matching handler on the way up): constructing an "
                      "annotation object from some text raises instead of yielding a tree" % e,
                      witness=["%s:%d %s" % (f.file, n.lineno, f.short) for f, n in chain])

    # ---------------- R2.2
    tries = [t for t in walk_no_nested(init.node) if isinstance(t, ast.Try) and any(
        isinstance(c, ast.Call) and call_name(c) == split.name for b in t.body for c in ast.walk(b))]
    # helper form: the try may live in a helper called by __init__
    holder = init
    if not tries:
        for k, c, n in cg.edges.get(init, []):
            if k == "precise":
                ts = [t for t in walk_no_nested(c.node) if isinstance(t, ast.Try) and any(
                    isinstance(x, ast.Call) and call_name(x) == split.name for b in t.body for x in ast.walk(b))]
                if ts:
                    tries, holder = ts, c
    ctx.check(bool(tries), "R2.2", init.qualname, "try around the splitter", loc(init, init.node),
              "the group splitter is no longer called inside a try block of the constructor",
              desc="splitter called inside try")
    split_raises = sorted({exc_name(n.exc) for n in walk_no_nested(split.node) if isinstance(n, ast.Raise) and n.exc is not None})
    ctx.floor("R2.2", "raises in the group splitter", len([n for n in walk_no_nested(split.node) if isinstance(n, ast.Raise)]), 1)
    for t in tries:
        # the name bound in the try body
        bound = [tg.id for b in t.body for a in ast.walk(b) if isinstance(a, ast.Assign) for tg in a.targets if isinstance(tg, ast.Name)]
        for h in t.handlers:
            hts = handler_types(h)
            for e in split_raises:
                ctx.check(catches(prog, hts, e, holder.module) or any(
                    catches(prog, handler_types(h2), e, holder.module) for h2 in t.handlers), "R2.2", holder.qualname,
                    "handler for " + str(e), loc(holder, h),
                    "the splitter raises %s for unbalanced parentheses but the constructor's handler catches %s" % (e, hts),
                    desc="handler catches the splitter's %s" % e)
            empties = [a for b in h.body for a in ast.walk(b) if isinstance(a, ast.Assign) and any(
                isinstance(tg, ast.Name) and tg.id in bound for tg in a.targets)]
            ok = bool(empties) and all(isinstance(a.value, (ast.List, ast.Tuple)) and not a.value.elts for a in empties)
            if isinstance(h.body[-1], ast.Return) and not empties:
                ok = False
            ctx.check(ok, "R2.2", holder.qualname, h.body[0] if h.body else h, loc(holder, h),
                      "the handler for unbalanced parentheses does not bind the contents to an empty list display (a partial "
                      "or non-empty tree would be kept)", desc="unbalanced text => contents = []")
    # both parenthesis faults raise
    v_cond = [n for n in walk_no_nested(split.node) if isinstance(n, ast.Raise)]
    texts = " ".join(norm(n) for n in v_cond)
    ctx.check("Closing" in texts or len(v_cond) >= 2, "R2.2", split.qualname, "raises", loc(split, split.node),
              "the splitter no longer raises for both an unmatched closing and an unmatched opening parenthesis",
              desc="both parenthesis faults raise in the splitter")
    hv = prog.find_method("HedValidator", "validate")
    wiring.check_wiring(ctx, "R2.2", [{"key": "ValidationErrors.PARENTHESES_MISMATCH", "code": "PARENTHESES_MISMATCH"}], hv,
                        phases={"basic": prog.find_method("HedValidator", "run_basic_checks")})
    ctx.rule("R2.4", "the parenthesis count check runs for every string (nothing returns before it)")
    string_checks_always_run(ctx, "R2.4")
    ctx.rule("R2.3", "the printers (str / short / long / original form) visit every child of a group, unfiltered")
    print_all_children(ctx, "R2.3")
    ctx.rule("R2.6", "the validator decides parenthesis balance like the parser does: by a running depth over the text, not by comparing counts")
    sv_ = prog.find_class("StringValidator")
    pc = sv_.methods.get("check_count_tag_group_parentheses")
    if pc is None:
        raise AnalysisError("anchor StringValidator.check_count_tag_group_parentheses vanished")
    ctx.saw(pc)
    vpc = view(ctx, pc)
    from sa.dataflow import ReachingDefs as _RD2
    rdp = _RD2(pc)
    text_params = set(pc.params())
    emits = [(n_, c) for (n_, c) in vpc.calls(lambda c: call_name(c).startswith("format_error") and "PARENTHESES_MISMATCH" in norm(c))]
    ctx.floor("R2.6", "PARENTHESES_MISMATCH emissions in the count check", len(emits), 1)
    loops = [lp for lp in walk_no_nested(pc.node) if isinstance(lp, ast.For) and any(isinstance(x, ast.Name) and x.id in text_params for x in ast.walk(lp.iter))]
    loop_aug = set()
    for lp in loops:
        for x in ast.walk(lp):
            if isinstance(x, ast.AugAssign) and isinstance(x.target, ast.Name) and isinstance(x.op, (ast.Add, ast.Sub)):
                loop_aug.add(x.target.id)
            if isinstance(x, ast.Call) and isinstance(x.func, ast.Attribute) and x.func.attr in ("append", "pop") and isinstance(x.func.value, ast.Name):
                loop_aug.add(x.func.value.id)
    delegated = any(isinstance(c, ast.Call) and call_name(c) in ("split_into_groups", "split_hed_string") for c in walk_no_nested(pc.node))
    for n_, c in emits:
        g = vpc.guard_for(n_, lambda t: True)
        names = {x.id for x in ast.walk(g[0].ast) if isinstance(x, ast.Name)} if g is not None else set()
        ok = bool(names & loop_aug) or delegated
        if not ok and g is not None:
            # the running depth may be kept by a helper predicate the test calls
            for hc in [x for x in ast.walk(g[0].ast) if isinstance(x, ast.Call)]:
                for k_, h in cg.resolve_call(hc, pc):
                    if k_ != "precise":
                        continue
                    hp = set(h.params())
                    for lp in [l_ for l_ in walk_no_nested(h.node) if isinstance(l_, ast.For)
                               and any(isinstance(x, ast.Name) and x.id in hp for x in ast.walk(l_.iter))]:
                        ctr = {x.target.id for x in ast.walk(lp) if isinstance(x, ast.AugAssign) and isinstance(x.target, ast.Name)
                               and isinstance(x.op, (ast.Add, ast.Sub))}
                        rets = [r for r in walk_no_nested(h.node) if isinstance(r, ast.Return) and r.value is not None]
                        if ctr and any({x.id for x in ast.walk(r.value) if isinstance(x, ast.Name)} & ctr for r in rets):
                            ok = True
        ctx.check(ok, "R2.6", pc.qualname, c, loc(pc, c),
                  "PARENTHESES_MISMATCH is decided by comparing the numbers of '(' and ')' only; the parser rejects by nesting depth, so "
                  "`Red),(Blue` (equal counts, a ')' before its '(') parses to an empty tree and validates with no issue at all",
                  desc="mismatch decided by a running depth over the text")
    ctx.rule("R2.5", "equality of tree objects never tests the other operand for truthiness (an empty group is falsy but is a tree)")
    n_eq = 0
    for c_ in prog.classes.values():
        if not c_.module.name.startswith("hed.models"):
            continue
        if not any(any(m.name in ("__bool__", "__len__") for m in k.all_methods) for k in c_.mro()):
            continue
        eq = c_.methods.get("__eq__")
        if eq is None or len(eq.params()) < 2:
            continue
        n_eq += 1
        ctx.saw(eq)
        oname = eq.params()[1]

        def truthy(t):
            if isinstance(t, ast.Name):
                return [t]
            if isinstance(t, ast.BoolOp):
                return [y for v_ in t.values for y in truthy(v_)]
            if isinstance(t, ast.UnaryOp) and isinstance(t.op, ast.Not):
                return truthy(t.operand)
            return []
        for x in walk_no_nested(eq.node):
            tests = [x.test] if isinstance(x, (ast.If, ast.While, ast.IfExp)) else \
                ([x.value] if isinstance(x, ast.Return) and isinstance(x.value, (ast.BoolOp, ast.UnaryOp)) else [])
            for t in tests:
                for nm in truthy(t):
                    if nm.id == oname:
                        ctx.violation("R2.5", eq.qualname, t, loc(eq, x),
                                      "`%s` tests `%s` for truthiness; %s defines __bool__/__len__, so an empty group / empty annotation is "
                                      "falsy and compares unequal to an equal empty tree: printing and re-parsing `()` or `` no longer yields "
                                      "an equal tree" % (norm(t)[:50], oname, c_.name))
        ctx.ok("R2.5", "%s.__eq__ does not test `%s` for truthiness" % (c_.name, oname), loc(eq, eq.node))
    ctx.floor("R2.5", "__eq__ of tree classes that define __bool__/__len__", n_eq, 1)

    # ---------------- R2.7: whatever the parser appends to a group becomes a child (also an empty group)
    ctx.rule("R2.7", "HedGroup.append attaches its argument on every path")
    gap = prog.find_class("HedGroup").methods.get("append")
    if gap is None:
        raise AnalysisError("anchor HedGroup.append vanished")
    ctx.saw(gap)
    v27 = view(ctx, gap)
    adds = [n_ for (n_, c) in v27.calls(lambda c: call_name(c) in ("append", "insert", "extend") and "children" in norm(c.func))]
    ctx.floor("R2.7", "child insertions in HedGroup.append", len(adds), 1)
    r27 = v27.reachable_from_entry(avoid=set(adds))
    ctx.check(v27.cfg.exit not in r27, "R2.7", gap.qualname, "path without insertion", loc(gap, gap.node),
              "HedGroup.append can return without attaching its argument: an empty group `()` inside another group is falsy and would be "
              "dropped, so the tree no longer mirrors the parentheses of the text", desc="every path through append inserts the child")


def print_all_children(ctx, rule):
    """R2.3: printing visits every child: loops/comprehensions over self.children in the printers have no filter."""
    prog = ctx.prog
    hg = prog.find_class("HedGroup")
    printers = [hg.methods.get(n) for n in ("__str__", "get_as_form")]
    if any(p is None for p in printers):
        raise AnalysisError("anchor HedGroup.__str__/get_as_form vanished")
    n = 0
    for p in printers:
        ctx.saw(p)
        for x in walk_no_nested(p.node):
            gens = []
            if isinstance(x, (ast.ListComp, ast.GeneratorExp, ast.SetComp)):
                gens = [g for g in x.generators if "children" in norm(g.iter)]
                for g in gens:
                    n += 1
                    ctx.check(not g.ifs, rule, p.qualname, x, loc(p, x),
                              "%s skips some children when printing (filter `%s`): printing the tree and re-parsing it no "
                              "longer gives an equal tree (e.g. empty groups vanish)" % (p.short, norm(g.ifs[0]) if g.ifs else ""),
                              desc="%s prints every child" % p.short)
            elif isinstance(x, ast.For) and "children" in norm(x.iter):
                n += 1
                skips = [y for y in ast.walk(x) if isinstance(y, ast.Continue)]
                ctx.check(not skips, rule, p.qualname, x.iter, loc(p, x),
                          "%s skips some children when printing (continue in the loop over children)" % p.short,
                          desc="%s prints every child" % p.short)
    ctx.floor(rule, "child iterations in the printers", n, 2)


def string_checks_always_run(ctx, rule):
    """Must-pass-through: in HedValidator._run_hed_string_validators every normal path reaches the call of the string
    validator, and in StringValidator.run_string_validator every path reaches the parenthesis count and the delimiter
    scan (an early `return` on earlier issues would hide PARENTHESES_MISMATCH / TAG_EMPTY for that string)."""
    from sa.dom import view
    prog = ctx.prog
    hv = prog.find_class("HedValidator")
    sv = prog.find_class("StringValidator")
    plan = [(hv.methods.get("_run_hed_string_validators"), ["run_string_validator", "check_invalid_character_issues"]),
            (sv.methods.get("run_string_validator"), ["check_count_tag_group_parentheses", "check_delimiter_issues_in_hed_string"])]
    for f, needs in plan:
        if f is None:
            raise AnalysisError("anchor for %s vanished" % rule)
        ctx.saw(f)
        v = view(ctx, f)
        for need in needs:
            nodes = [n for (n, c) in v.calls(lambda c, need=need: call_name(c) == need)]
            ok = bool(nodes) and v.every_path_to_exit_passes(v.cfg.entry, nodes)
            ctx.count_paths()
            ctx.check(ok, rule, f.qualname, "call of " + need, loc(f, f.node),
                      "%s can finish without calling %s (an earlier return or branch skips it): for such strings that "
                      "check's errors (e.g. PARENTHESES_MISMATCH for an unbalanced text that also contains a bad character) "
                      "are never reported" % (f.short, need), desc="%s always calls %s" % (f.short, need))
