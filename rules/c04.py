"""C04 — validation outcome independent of how an annotation is written: the ordering used for
adjacent-duplicate detection is computed from the canonical (recursively sorted, case-insensitive)
form that is compared; full-string validator decisions never branch on spelling-dependent accessors."""
import ast

from sa.callgraph import STRONG_KINDS
from sa.dataflow import ReachingDefs, depends_on
from sa.dom import view, mentions
from sa.model import AnalysisError, FunctionInfo, call_name, loc, norm, walk_no_nested

LEVEL_TEXT = ("Static structural proof of necessary conditions: (R4.1) in the function that produces the nested sorted "
              "view consumed by the adjacent-equality scan of the duplicate check, the primary sort key of every ordering "
              "is computed from the element that is returned and compared (the recursively sorted form), and is "
              "case-folded like tag equality is; (R4.2) in the closure of the full-string validators and the temporal "
              "validators no branch condition or comparison depends on a spelling-dependent accessor (org_tag, "
              "org_base_tag, tag, the original string), which may flow only into messages and index arithmetic. "
              "Invariance itself (a relation between two runs) and blank-insensitivity of the delimiter scan are NOT decided.")
LEVEL_EXTRA = "Added after the seeded evaluation: (R4.3) blank-stripped delimiter scan; (R4.4) the validators' sibling loops carry no conditionally assigned state from one sibling to the next (one frozen exception); (R4.5) 'is a top-level group' is decided by identity, not order-sensitive equality; (R4.6) a reporting loop is left by `break` only after a report in the same iteration. (R4.7) HedTag.__eq__ folds case on every form it compares, as __hash__ does. (R4.8) the string-level validators store nothing on self outside their constructors. (R4.9) an issue list that is being accumulated is never plainly re-assigned before it was read. R4.2 also covers the find_* searches of HedString/HedGroup the validators rely on; R4.9 also reports an issue list that a loop plainly re-assigns without it having been read."

SPELLING_ATTRS = {"org_tag", "org_base_tag", "_hed_string", "_org_tag"}
SPELLING_CALLS = {"get_original_hed_string", "get_as_original"}


def key_functions(fi, call, prog=None, live=None):
    """The key= argument of a sort call -> (param name, body expr, node) or None.  A named key is looked up among the
    function's nested defs (the one that is live for the analysed arguments when several branches define it) and then
    among the module's functions."""
    for kw in call.keywords:
        if kw.arg == "key":
            k = kw.value
            if isinstance(k, ast.Lambda) and k.args.args:
                return k.args.args[0].arg, k.body, k
            if isinstance(k, ast.Name):
                cands = [d for d in ast.walk(fi.node) if isinstance(d, (ast.FunctionDef,)) and d.name == k.id and d is not fi.node]
                if live is not None:
                    cands = [d for d in cands if live(d)] or cands
                for d in cands:
                    rets = [r.value for r in ast.walk(d) if isinstance(r, ast.Return) and r.value is not None]
                    if len(rets) == 1 and d.args.args:
                        return d.args.args[0].arg, rets[0], d
                if prog is not None:
                    r = prog.resolve_expr(k, fi.module, fi.cls, fi)
                    if isinstance(r, FunctionInfo) and r.params():
                        rets = [x.value for x in walk_no_nested(r.node) if isinstance(x, ast.Return) and x.value is not None]
                        if len(rets) == 1:
                            return r.params()[0], rets[0], r.node
    return None


def expands(fi, expr, depth=0, prog=None):
    """expr plus the return expressions of local / module-level helper functions it calls (for 'depends on' questions)."""
    out = [expr]
    if depth > 3:
        return out
    for c in ast.walk(expr):
        if isinstance(c, ast.Call) and isinstance(c.func, ast.Name):
            nf = fi.nested.get(c.func.id)
            node = nf.node if nf is not None else None
            if node is None and prog is not None:
                r = prog.resolve_expr(c.func, fi.module, fi.cls, fi)
                node = r.node if isinstance(r, FunctionInfo) else None
            if node is None:
                continue
            for r in ast.walk(node):
                if isinstance(r, ast.Return) and r.value is not None:
                    out += expands(fi, r.value, depth + 1, prog)
    return out


def _sound_memo(cls, mth, st, mutators):
    """`self.A[key] = value` that cannot make a result depend on history: the same function tests/reads self.A, the value depends
    on no parameter the key does not depend on, every other self attribute the function reads is written only by constructors,
    and no other method of the class touches self.A."""
    from sa.memo import memo_sites, missing_key_params
    site = [x for x in memo_sites(mth) if x[0] is st]
    if not site or missing_key_params(mth, site[0]):
        return False
    attr = site[0][1]

    def self_attr(e):
        return e.attr if isinstance(e, ast.Attribute) and isinstance(e.value, ast.Name) and e.value.id == "self" else None
    read_here = {self_attr(x) for x in ast.walk(mth.node) if self_attr(x) and isinstance(x.ctx, ast.Load)} - {attr}
    for other in cls.all_methods:
        ctor = other.name == "__init__"
        for x in ast.walk(other.node):
            a = self_attr(x)
            if a is None:
                continue
            if a == attr and other is not mth and not ctor and getattr(other.node, "name", None) != mth.name:
                return False        # the memo is visible to another method
            if a in read_here and not ctor:
                # written (assigned, subscript-assigned or mutated) outside a constructor?
                if isinstance(x.ctx, (ast.Store, ast.Del)):
                    return False
        if not ctor:
            for x in ast.walk(other.node):
                if isinstance(x, (ast.Assign, ast.AugAssign, ast.Delete)):
                    for t in (x.targets if not isinstance(x, ast.AugAssign) else [x.target]):
                        b = t
                        while isinstance(b, ast.Subscript):
                            b = b.value
                        if b is not t and self_attr(b) in read_here:
                            return False
                if isinstance(x, ast.Call) and isinstance(x.func, ast.Attribute) and x.func.attr in mutators and \
                        self_attr(x.func.value) in read_here:
                    return False
    return True


def run(ctx):
    prog, cg = ctx.prog, ctx.cg
    ctx.rule("R4.1", "the ordering that feeds adjacent-duplicate detection is keyed on the canonical form that is compared")
    ctx.rule("R4.2", "full-string / temporal validator decisions never branch on spelling-dependent accessors")
    gv = prog.find_class("GroupValidator")
    dup = gv.methods.get("_check_for_duplicate_groups")
    rec = gv.methods.get("_check_for_duplicate_groups_recursive")
    if dup is None or rec is None:
        raise AnalysisError("anchor GroupValidator._check_for_duplicate_groups(_recursive) vanished")
    # the scan compares neighbours with ==
    scan_ok = any(isinstance(c, ast.Compare) and isinstance(c.ops[0], ast.Eq) and "prev" in norm(c) for c in ast.walk(rec.node))
    if not scan_ok:
        raise AnalysisError("R4.1 anchor: the duplicate scan no longer compares neighbours with ==")
    # the producer of the sorted view
    producers = []
    true_params = set()       # boolean parameters the scan switches on in the producer (e.g. canonical=True)
    for c in walk_no_nested(dup.node):
        if isinstance(c, ast.Call) and isinstance(c.func, ast.Attribute):
            for k, t in cg.resolve_call(c, dup):
                if k in ("precise", "name") and t.cls is not None and t.cls.name == "HedGroup":
                    producers.append(t)
                    for pn in t.params()[1:]:
                        a_ = cg.arg(c, pn)
                        if isinstance(a_, ast.Constant) and a_.value is True:
                            true_params.add(pn)
    if not producers:
        raise AnalysisError("R4.1 anchor: producer of the sorted view not found")
    prod = producers[0]
    ctx.saw(dup, rec, prod)
    # which tuple element is returned (= compared)?
    ret_idx = None
    for r in walk_no_nested(prod.node):
        if isinstance(r, ast.Return) and isinstance(r.value, ast.ListComp) and isinstance(r.value.elt, ast.Subscript) and \
                isinstance(r.value.elt.slice, ast.Constant):
            ret_idx = r.value.elt.slice.value
        elif isinstance(r, ast.Return) and isinstance(r.value, ast.ListComp) and isinstance(r.value.elt, ast.Name) and \
                r.value.generators and isinstance(r.value.generators[0].target, ast.Tuple):
            names = [e.id if isinstance(e, ast.Name) else None for e in r.value.generators[0].target.elts]
            if r.value.elt.id in names:
                ret_idx = names.index(r.value.elt.id)      # `[view for _, view in pairs]`
    if ret_idx is None:
        raise AnalysisError("R4.1 anchor: %s no longer returns [x[i] for x in ...]" % prod.short)
    # does tag equality fold case?
    tag = prog.find_class("HedTag")
    eq = tag.methods.get("__eq__")
    folds = eq is not None and any(isinstance(c, ast.Call) and call_name(c) in ("casefold", "lower") for c in ast.walk(eq.node))
    sorts = [c for c in walk_no_nested(prod.node) if isinstance(c, ast.Call) and call_name(c) in ("sort", "sorted")]
    # orderings that are switched off by the arguments the scan passes are not the ones it sees
    pm_prod = {id(ch): p_ for p_ in ast.walk(prod.node) for ch in ast.iter_child_nodes(p_)}

    def live(node):
        """Not inside an `if <bool parameter>` branch that the scan's arguments switch off."""
        cur = node
        while id(cur) in pm_prod:
            par = pm_prod[id(cur)]
            if isinstance(par, ast.If):
                t = par.test
                neg = isinstance(t, ast.UnaryOp) and isinstance(t.op, ast.Not)
                nm = t.operand if neg else t
                if isinstance(nm, ast.Name) and nm.id in prod.params():
                    val = (nm.id in true_params) != neg
                    in_body = any(cur is b for b in par.body)
                    in_else = any(cur is b for b in par.orelse)
                    if (in_body and not val) or (in_else and val):
                        return False
            cur = par
        return True
    live_sorts = [c for c in sorts if live(c)]
    # the recursion must hand the switch on
    for pn in sorted(true_params):
        recs = [c for c in walk_no_nested(prod.node) if isinstance(c, ast.Call) and call_name(c) == prod.name]
        for c in recs:
            a_ = cg.arg(c, pn)
            if a_ is None and len(c.args) >= prod.params().index(pn):
                a_ = c.args[prod.params().index(pn) - 1]
            ctx.check(isinstance(a_, ast.Name) and a_.id == pn, "R4.1", prod.qualname, c, loc(prod, c),
                      "the recursive call does not hand `%s` on: sub-groups are ordered in the other order, so equal sub-groups "
                      "written differently need not become neighbours" % pn, desc="recursion forwards `%s`" % pn)
    sorts = live_sorts
    ctx.floor("R4.1", "orderings in the sorted-view producer", len(sorts), 1)
    for c in sorts:
        kf = key_functions(prod, c, prog, live)
        ctx.count_sites()
        if kf is None:
            ctx.violation("R4.1", prod.qualname, c, loc(prod, c),
                          "this ordering has no key function: elements are ordered by object comparison, not by the "
                          "canonical form that the duplicate scan compares")
            continue
        pname, body, _ = kf
        primary = body.elts[0] if isinstance(body, ast.Tuple) and body.elts else body
        exprs = expands(prod, primary, 0, prog)

        def uses_compared(e):
            return any(isinstance(x, ast.Subscript) and isinstance(x.value, ast.Name) and x.value.id == pname and
                       isinstance(x.slice, ast.Constant) and x.slice.value == ret_idx for x in ast.walk(e))
        # for the tag list both tuple elements are the same object: accept either index there
        recv = norm(c.func.value) if isinstance(c.func, ast.Attribute) else ""
        same_obj = False
        for n in walk_no_nested(prod.node):
            if isinstance(n, ast.Call) and call_name(n) == "append" and isinstance(n.func, ast.Attribute) and \
                    norm(n.func.value) == recv and n.args and isinstance(n.args[0], ast.Tuple) and len(n.args[0].elts) == 2 \
                    and norm(n.args[0].elts[0]) == norm(n.args[0].elts[1]):
                same_obj = True
        ok = uses_compared(primary) or (same_obj and any(isinstance(x, ast.Name) and x.id == pname for x in ast.walk(primary)))
        ctx.check(ok, "R4.1", prod.qualname, c, loc(prod, c),
                  "the primary sort key `%s` of `%s` is not computed from element [%d] of the pair — the recursively "
                  "sorted form that is returned and compared — so two equal groups written with their members in a "
                  "different order need not become neighbours and the repeat goes unreported" % (norm(primary)[:60], recv, ret_idx),
                  desc="ordering of `%s` keyed on the compared form" % recv)
        if folds:
            cf = any(isinstance(x, ast.Call) and call_name(x) in ("casefold", "lower") for e in exprs for x in ast.walk(e))
            ctx.check(cf, "R4.1", prod.qualname, "case folding of key for " + recv, loc(prod, c),
                      "tag equality ignores letter case but the primary sort key `%s` of `%s` does not: equal values that "
                      "differ in case (Label/a, Label/A) can be separated by another item and go unreported" % (
                          norm(primary)[:60], recv), desc="ordering of `%s` case-folded like tag equality" % recv)

    # ---------------- R4.2
    hv = prog.find_class("HedValidator")
    ov = prog.find_class("OnsetValidator")
    entries = [hv.methods.get("run_full_string_checks"), ov.methods.get("validate_temporal_relations"),
               ov.methods.get("check_for_banned_tags")]
    if any(e is None for e in entries):
        raise AnalysisError("R4.2 anchors vanished")
    closure = cg.reachable(entries, ("precise", "prop"))
    scope = [f for f in closure if f.module.name.startswith("hed.validator")]
    # the searches the validators rely on to find anchors / tags by name decide on the resolved node as well
    scope += sorted((f for f in prog.functions.values() if f.module.name in ("hed.models.hed_string", "hed.models.hed_group")
                     and f.name.startswith(("find_", "_find")) and f not in scope), key=lambda f: f.qualname)
    ctx.floor("R4.2", "validator functions in the full-phase closure", len(scope), 10)

    def spelling(x):
        if isinstance(x, ast.Attribute) and x.attr in SPELLING_ATTRS:
            return True
        if isinstance(x, ast.Call) and call_name(x) in SPELLING_CALLS:
            return True
        return False

    def strip_index_uses(e):
        """Sub-expressions whose value is only an integer derived from the spelling (len/find/count) do not count."""
        out = []
        skip = set()
        for x in ast.walk(e):
            if isinstance(x, ast.Call) and call_name(x) in ("len", "find", "index", "count", "rfind"):
                for y in ast.walk(x):
                    skip.add(id(y))
        for x in ast.walk(e):
            if id(x) not in skip:
                out.append(x)
        return out
    n_tests = 0
    for f in scope:
        ctx.saw(f)
        rd = None
        tests = []
        for n in walk_no_nested(f.node):
            if isinstance(n, (ast.If, ast.While)):
                tests.append(n.test)
            elif isinstance(n, ast.IfExp):
                tests.append(n.test)
            elif isinstance(n, ast.comprehension):
                tests += n.ifs
            elif isinstance(n, ast.Compare):
                tests.append(n)
        for t in tests:
            n_tests += 1
            direct = [x for x in strip_index_uses(t) if spelling(x)]
            via = None
            if not direct:
                names = [x for x in strip_index_uses(t) if isinstance(x, ast.Name)]
                if names:
                    rd = rd or ReachingDefs(f)
                    for nm in names:
                        for d in rd.at(t, nm.id) or []:
                            if d.kind == "assign" and d.value is not None and any(spelling(x) for x in strip_index_uses(d.value)):
                                via = d
            ctx.check(not direct and via is None, "R4.2", f.qualname, t, loc(f, t),
                      "a validation decision depends on how the tag is spelled (`%s`%s) instead of on the resolved schema "
                      "node: the same annotation in another valid spelling gets a different verdict" % (
                          norm(direct[0])[:40] if direct else (norm(via.value)[:40] if via is not None else ""),
                          "" if direct else " through a local"),
                      desc="%s: `%s` is spelling-independent" % (f.short, norm(t)[:40]))
    ctx.floor("R4.2", "branch conditions / comparisons inspected", n_tests, 40)

    ctx.rule("R4.5", "whether a group is a top-level group is decided by object identity, not by (order-sensitive) group equality")
    hgc = prog.find_class("HedGroup")
    gag = hgc.methods.get("get_all_groups")
    if gag is None:
        raise AnalysisError("anchor HedGroup.get_all_groups vanished")
    ctx.saw(gag)
    n_flag = 0
    for x in walk_no_nested(gag.node):
        if isinstance(x, ast.Tuple) and len(x.elts) == 2 and isinstance(x.ctx, ast.Load):
            flag = x.elts[1]
            if isinstance(flag, ast.Constant):
                continue
            n_flag += 1
            def _on_ids(c):     # `id(g) in <ids>` / `id(g) == id(h)`: comparisons of identities
                return isinstance(c.left, ast.Call) and isinstance(c.left.func, ast.Name) and c.left.func.id == "id"
            by_eq = [c for c in ast.walk(flag) if isinstance(c, ast.Compare) and any(
                isinstance(o, (ast.In, ast.NotIn, ast.Eq, ast.NotEq)) for o in c.ops) and not _on_ids(c)]
            by_id = [c for c in ast.walk(flag) if isinstance(c, ast.Compare) and (any(isinstance(o, (ast.Is, ast.IsNot)) for o in c.ops)
                                                                                   or _on_ids(c))]
            helper_id = False
            for c in ast.walk(flag):
                if isinstance(c, ast.Call):
                    for k, t in cg.resolve_call(c, gag):
                        if k == "precise" and any(isinstance(y, ast.Compare) and any(isinstance(o, (ast.Is, ast.IsNot)) for o in y.ops)
                                                  for y in ast.walk(t.node)) and not any(
                                isinstance(y, ast.Compare) and any(isinstance(o, (ast.In, ast.NotIn)) for o in y.ops) for y in ast.walk(t.node)):
                            helper_id = True
            ctx.check(not by_eq and (by_id or helper_id), "R4.5", gag.qualname, x, loc(gag, x),
                      "the 'is a top-level group' flag `%s` is computed with equality/membership: a nested group that equals a "
                      "top-level group (same members in the same order) is treated as top-level and its placement errors vanish, "
                      "while the same group with its members reordered is still reported" % norm(flag)[:50],
                      desc="top-level flag `%s` decided by identity" % norm(flag)[:40])
    ctx.floor("R4.5", "depth flags computed in get_all_groups", n_flag, 1)
    # the same for every validator: a *group* is never looked up in a list of groups with `in` (group equality is order-sensitive)
    GROUP_ITERS = ("get_all_groups", "groups", "get_first_group")
    n_gl = 0
    for f in prog.functions.values():
        if not f.module.name.startswith("hed.validator"):
            continue
        gvars = set()
        for lp in ast.walk(f.node):
            if isinstance(lp, (ast.For, ast.comprehension)) and isinstance(lp.iter, ast.Call) and call_name(lp.iter) in GROUP_ITERS \
                    and isinstance(lp.target, ast.Name):
                gvars.add(lp.target.id)
        n_gl += len(gvars)
        for c in walk_no_nested(f.node):
            if isinstance(c, ast.Compare) and len(c.ops) == 1 and isinstance(c.ops[0], (ast.In, ast.NotIn)) and \
                    isinstance(c.left, ast.Name) and c.left.id in gvars:
                ctx.saw(f)
                ctx.violation("R4.5", f.qualname, c, loc(f, c),
                              "`%s` looks a group up in a collection of groups by equality: a group elsewhere in the annotation that has "
                              "the same members in the same order as a group inside a Definition is taken for that group (and skips its "
                              "placeholder check), while the same group with its members reordered is not" % norm(c)[:50])
    ctx.ok("R4.5", "%d loop variables over groups in the validators: none is looked up with `in`" % n_gl, "")
    ctx.floor("R4.5", "loop variables over groups in the validators", n_gl, 1)
    ctx.rule("R4.4", "sibling loops of the validators keep no conditional state from one sibling to the next")
    from sa.stale import check_no_stale_state
    sib = [f for f in prog.functions.values() if f.module.name in (
        "hed.validator.util.group_util", "hed.validator.def_validator", "hed.validator.onset_validator",
        "hed.validator.hed_validator", "hed.validator.util.tag_util", "hed.validator.util.class_util")]
    nl = check_no_stale_state(ctx, "R4.4", sib, {
        "GroupValidator._check_for_duplicate_groups_recursive":
            (1, "`prev_child`: adjacent-equality scan over the canonically sorted view (R4.1 makes the order canonical)")},
        "The verdict for one tag or group then depends on which siblings were visited before it, i.e. on sibling order.")
    ctx.floor("R4.4", "loops in the validator modules", nl, 20)
    ctx.rule("R4.7", "tag equality folds case on every form it compares, like the tag's hash does (one notion of 'same tag')")
    tag_cls = prog.find_class("HedTag")
    teq, thash = tag_cls.methods.get("__eq__"), tag_cls.methods.get("__hash__")
    if teq is None or thash is None:
        raise AnalysisError("anchor HedTag.__eq__/__hash__ vanished")
    ctx.saw(teq, thash)
    hash_folds = any(isinstance(c, ast.Call) and isinstance(c.func, ast.Attribute) and c.func.attr == "casefold"
                     for c in ast.walk(thash.node))
    if not hash_folds:
        raise AnalysisError("R4.7 anchor: HedTag.__hash__ no longer case-folds (the reference for equality changed)")
    n_cmp = 0
    oname = teq.params()[1] if len(teq.params()) > 1 else "other"
    for c in walk_no_nested(teq.node):
        if isinstance(c, ast.Compare) and len(c.ops) == 1 and isinstance(c.ops[0], (ast.Eq, ast.NotEq)):
            l, r = c.left, c.comparators[0]
            sides = (l, r)
            if not (any(isinstance(x, ast.Name) and x.id == "self" for x in ast.walk(l) ) and
                    any(isinstance(x, ast.Name) and x.id == oname for x in ast.walk(r))) and not (
                    any(isinstance(x, ast.Name) and x.id == oname for x in ast.walk(l)) and
                    any(isinstance(x, ast.Name) and x.id == "self" for x in ast.walk(r))):
                continue
            n_cmp += 1
            folded = all(isinstance(e, ast.Call) and isinstance(e.func, ast.Attribute) and e.func.attr == "casefold" for e in sides)
            ctx.check(folded, "R4.7", teq.qualname, c, loc(teq, c),
                      "`%s` compares a form of the two tags without folding case, while the hash and the other comparison fold it: "
                      "two spellings of one tag that differ in letter case *and* in path form (`Label/abc` vs "
                      "`Property/Informational-property/Label/ABC`) are unequal, so the repeat is not reported" % norm(c)[:70],
                      desc="tag equality compares `%s` case-folded" % norm(l)[:30])
    ctx.floor("R4.7", "form comparisons in HedTag.__eq__", n_cmp, 2)
    ctx.rule("R4.8", "the string-level validators keep no state between calls (nothing is stored on self outside the constructors)")
    MUT = ("add", "append", "update", "pop", "clear", "extend", "remove", "setdefault", "discard", "insert", "popitem")
    n_meth = 0
    for cn in ("TagValidator", "GroupValidator", "UnitValueValidator", "CharValidator", "CharRexValidator", "StringValidator",
               "HedValidator", "DefValidator"):
        vc = prog.find_class(cn)
        for mth in vc.all_methods:
            if mth.name == "__init__":
                continue
            n_meth += 1
            for st in walk_no_nested(mth.node):
                bad = None
                if isinstance(st, (ast.Assign, ast.AugAssign)):
                    for t in (st.targets if isinstance(st, ast.Assign) else [st.target]):
                        b = t
                        while isinstance(b, ast.Subscript):
                            b = b.value
                        if isinstance(b, ast.Attribute) and isinstance(b.value, ast.Name) and b.value.id == "self":
                            bad = "stores to self.%s" % b.attr
                if isinstance(st, ast.Call) and isinstance(st.func, ast.Attribute) and st.func.attr in MUT and \
                        isinstance(st.func.value, ast.Attribute) and isinstance(st.func.value.value, ast.Name) and st.func.value.value.id == "self":
                    bad = "mutates self.%s (.%s)" % (st.func.value.attr, st.func.attr)
                if bad and isinstance(st, ast.Assign) and _sound_memo(vc, mth, st, MUT):
                    ctx.ok("R4.8", "%s keeps a memo of a computation that depends on its key and on constructor-time state only" % mth.short,
                           loc(mth, st))
                    bad = None
                if bad:
                    ctx.saw(mth)
                    ctx.violation("R4.8", mth.qualname, st, loc(mth, st),
                                  "%s %s while validating: what is reported for one tag then depends on which tags (or strings) were "
                                  "validated before it, i.e. on sibling order and on validation history" % (mth.short, bad))
    ctx.ok("R4.8", "%d methods of the string-level validators store nothing on self" % n_meth, "")
    ctx.floor("R4.8", "methods of the string-level validators", n_meth, 40)
    ctx.rule("R4.6", "a per-item validator loop is left early only after a report for the current item")
    from sa.stale import check_no_silent_break
    allv = [f for f in prog.functions.values() if f.module.name.startswith("hed.validator.") or f.module.name == "hed.models.hed_group"]
    nb = check_no_silent_break(ctx, "R4.6", allv, "Whether a sibling is validated then depends on whether it comes before or "
                               "after this item, i.e. on sibling order.")
    ctx.floor("R4.6", "breaks in reporting loops of the validators", nb, 1)
    ctx.rule("R4.9", "an issue list that is being accumulated is never plainly re-assigned before it was read")
    from sa.issues import check_no_overwritten_accumulator
    nacc = check_no_overwritten_accumulator(ctx, "R4.9", allv, view)
    ctx.floor("R4.9", "accumulating `+=` statements in the validators", nacc, 60)
    ctx.ok("R4.9", "%d accumulating statements, none overwritten unread" % nacc, "")
    ctx.rule("R4.3", "the delimiter scan decides on the blank-stripped form of the accumulated text")
    delimiter_scan_rule(ctx, "R4.3")


def delimiter_scan_rule(ctx, rule):
    """R4.3 (also serves C01): in the delimiter scanner every decision that looks at the accumulated token text
    looks at its blank-stripped form (blank-insensitive scan)."""
    prog = ctx.prog
    sv = prog.find_class("StringValidator")
    f = sv.methods.get("check_delimiter_issues_in_hed_string")
    if f is None:
        raise AnalysisError("anchor StringValidator.check_delimiter_issues_in_hed_string vanished")
    ctx.saw(f)
    loopvars = set()
    for lp in walk_no_nested(f.node):
        if isinstance(lp, ast.For):
            loopvars |= {x.id for x in ast.walk(lp.target) if isinstance(x, ast.Name)}
    buffers = set()
    guarded_appends = {}
    for n in walk_no_nested(f.node):
        if isinstance(n, ast.AugAssign) and isinstance(n.op, ast.Add) and isinstance(n.target, ast.Name) and \
                isinstance(n.value, ast.Name) and n.value.id in loopvars:
            buffers.add(n.target.id)
    if not buffers:
        raise AnalysisError("R4.3 anchor: no accumulated token buffer (`buf += char`) in the delimiter scanner")
    # a scanner that never appends blanks needs no stripping
    from sa.dom import view
    v = view(ctx, f)
    never_blank = set()
    for b in buffers:
        apps = [n for n in v.cfg.nodes if n.kind == "stmt" and isinstance(n.ast, ast.AugAssign) and
                isinstance(n.ast.target, ast.Name) and n.ast.target.id == b]
        if apps and all(v.guard_for(a, lambda t: "isspace" in norm(t) or ".strip()" in norm(t)) is not None for a in apps):
            never_blank.add(b)
    n_cmp = 0
    # locals holding the stripped text
    stripped_names = set()
    for n in walk_no_nested(f.node):
        if isinstance(n, ast.Assign) and isinstance(n.targets[0], ast.Name) and isinstance(n.value, ast.Call) and \
                isinstance(n.value.func, ast.Attribute) and n.value.func.attr == "strip" and \
                isinstance(n.value.func.value, ast.Name) and n.value.func.value.id in buffers:
            stripped_names.add(n.targets[0].id)
    for n in walk_no_nested(f.node):
        tests = []
        if isinstance(n, ast.Compare) and any(isinstance(o, (ast.Eq, ast.NotEq)) for o in n.ops):
            tests = [n.left] + list(n.comparators)
        elif isinstance(n, (ast.If, ast.While)) and isinstance(n.test, (ast.Name, ast.UnaryOp)):
            t = n.test.operand if isinstance(n.test, ast.UnaryOp) else n.test
            tests = [t]
        for t in tests:
            if isinstance(t, ast.Name) and t.id in buffers and t.id not in never_blank:
                n_cmp += 1
                ctx.violation(rule, f.qualname, n if isinstance(n, ast.Compare) else n.test, loc(f, n),
                              "the delimiter scan compares the accumulated text `%s` as written (blanks included) instead "
                              "of its blank-stripped form: an empty tag written with blanks around it (`Red, ,Blue`, "
                              "`( , Red)`) is judged differently from the same text without blanks" % t.id)
            elif (isinstance(t, ast.Name) and t.id in stripped_names) or (
                    isinstance(t, ast.Call) and isinstance(t.func, ast.Attribute) and t.func.attr == "strip" and
                    isinstance(t.func.value, ast.Name) and t.func.value.id in buffers):
                n_cmp += 1
                ctx.ok(rule, "scanner decision on `%s` uses the blank-stripped text" % norm(t), loc(f, n))
    ctx.floor(rule, "scanner decisions on the accumulated text", n_cmp, 1)
