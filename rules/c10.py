"""C10 — Onset/Offset/Inset bookkeeping: the open-scope table and the per-row name set are keyed
uniformly case-folded, a fresh table is created per file validation, the temporal rules are wired."""
import ast

from sa import wiring
from sa.callgraph import STRONG_KINDS
from sa.dom import view
from sa.model import AnalysisError, ClassInfo, FunctionInfo, call_name, loc, norm, walk_no_nested
from sa.norm import check_uniform, mapping_accesses

LEVEL_TEXT = ("Static structural proof of necessary conditions: (R10.1) every insert, membership test and delete on the "
              "open-scope table, and every add/membership test on the per-time-point used-name set, case-folds its key "
              "the same way; (R10.2) the temporal validator (and with it the open-scope table) is constructed inside "
              "the table validator's validate() before the onset pass, and the table is created only in the temporal "
              "validator's constructor; (R10.3) the temporal rules are registered as TEMPORAL_TAG_ERROR and reachable "
              "from BaseInput.validate. The transition semantics over histories, equal-onset merging and Delay "
              "shifting are NOT decided.")
LEVEL_EXTRA = 'Added after the seeded evaluation: (R10.4) every Delay-shifted group is appended under an index computed afresh for that group; (R10.5) already-failed rows are skipped by original_index. (R10.6) rows are ordered by onset with a stable sort. (R10.7) an open scope is closed only under an Offset test; (R10.8) a NaN onset leaves the grouping loop before any ordering comparison. (R10.9) the Duration/Delay check skips groups anchored by any temporal key; (R10.10) no join over a de-duplicated collection of row texts. (R10.11) a tag form compared with a DefTagNames key is short_base_tag.'

ROWS = [{"key": "TemporalErrors." + k, "code": "TEMPORAL_TAG_ERROR"} for k in (
    "OFFSET_BEFORE_ONSET", "INSET_BEFORE_ONSET", "ONSET_SAME_DEFS_ONE_ROW", "TEMPORAL_TAG_NO_TIME",
    "ONSET_DEF_UNMATCHED", "ONSET_NO_DEF_TAG_FOUND", "ONSET_PLACEHOLDER_WRONG", "ONSET_TAG_OUTSIDE_OF_GROUP",
    "ONSET_TOO_MANY_DEFS", "ONSET_WRONG_NUMBER_GROUPS")]


def _is_original_index(y):
    """`row.original_index`, or the column itself: `df["original_index"]` / `df.original_index`"""
    return (isinstance(y, ast.Attribute) and y.attr == "original_index") or (
        isinstance(y, ast.Subscript) and isinstance(y.slice, ast.Constant) and y.slice.value == "original_index")


def run(ctx):
    prog, cg = ctx.prog, ctx.cg
    ctx.rule("R10.1", "all accessors of the open-scope table / used-name set case-fold the key identically")
    ctx.rule("R10.2", "a fresh temporal validator (fresh table) per file validation, built before the onset pass")
    ctx.rule("R10.3", "temporal rules registered as TEMPORAL_TAG_ERROR and reachable from BaseInput.validate")
    ov = prog.find_class("OnsetValidator")
    init = ov.methods.get("__init__")
    if init is None:
        raise AnalysisError("anchor OnsetValidator.__init__ vanished")
    # the table: the dict attribute created in the constructor
    tables = [t.attr for n in walk_no_nested(init.node) if isinstance(n, ast.Assign)
              for t in n.targets if isinstance(t, ast.Attribute) and isinstance(t.value, ast.Name) and t.value.id == "self"
              and any(isinstance(x, ast.Dict) or (isinstance(x, ast.Call) and call_name(x) in ("dict", "set", "defaultdict"))
                      for x in ast.walk(n.value))]
    if not tables:
        raise AnalysisError("R10 anchor: OnsetValidator.__init__ creates no table attribute")
    acc = []
    for m in ov.all_methods:
        if m is init:
            continue
        for t in tables:
            acc += mapping_accesses(m, lambda e, t=t: isinstance(e, ast.Attribute) and e.attr == t
                                    and isinstance(e.value, ast.Name) and e.value.id == "self")
    ctx.floor("R10.1", "accessors of the open-scope table", len(acc), 2)
    check_uniform(ctx, "R10.1", acc, {"casefold"}, "the open-scope table self.%s" % "/".join(tables),
                  "an Offset/Inset whose name differs from its Onset only in letter case is reported as unmatched "
                  "(or a stale scope stays open)")
    # the used-name set(s): local sets in the validating method
    vt = ov.methods.get("validate_temporal_relations")
    if vt is None:
        raise AnalysisError("anchor OnsetValidator.validate_temporal_relations vanished")
    local_sets = [n.targets[0].id for n in walk_no_nested(vt.node) if isinstance(n, ast.Assign) and
                  isinstance(n.targets[0], ast.Name) and isinstance(n.value, ast.Call) and call_name(n.value) == "set"]
    acc2 = []
    for s in local_sets:
        acc2 += mapping_accesses(vt, lambda e, s=s: isinstance(e, ast.Name) and e.id == s)
    ctx.floor("R10.1", "accessors of the used-name set", len(acc2), 2)
    check_uniform(ctx, "R10.1", acc2, {"casefold"}, "the per-time-point used-name set",
                  "the same definition name used twice in one time point in different letter case is not reported")
    # only the constructor creates the table
    for m in ov.all_methods:
        for n in walk_no_nested(m.node):
            if isinstance(n, ast.Assign) and m is not init:
                for t in n.targets:
                    if isinstance(t, ast.Attribute) and t.attr in tables and isinstance(t.value, ast.Name) and t.value.id == "self":
                        ctx.violation("R10.2", m.qualname, n, loc(m, n),
                                      "the open-scope table is re-created outside the constructor: open scopes are forgotten "
                                      "in the middle of a file")
    for t in tables:
        ctx.check(t not in ov.attrs, "R10.2", ov.qualname, "class attribute " + t, loc(ov.module, ov.node),
                  "the open-scope table is a class attribute shared by every validator instance (scopes leak between files)",
                  desc="table %s is per instance" % t)

    # ---------------- R10.2
    sv = prog.find_class("SpreadsheetValidator")
    val = sv.methods.get("validate")
    if val is None:
        raise AnalysisError("anchor SpreadsheetValidator.validate vanished")
    ctx.saw(val)
    v = view(ctx, val)

    def fresh_validator(expr):
        if not isinstance(expr, ast.Call):
            return False
        r = prog.resolve_expr(expr.func, val.module, val.cls, val)
        if r is ov:
            return True
        res = [t for (k, t) in cg.resolve_call(expr, val) if k == "precise"]
        for t in res:
            rets = [x for x in walk_no_nested(t.node) if isinstance(x, ast.Return) and x.value is not None]
            if rets and all(isinstance(x.value, ast.Call) and prog.resolve_expr(x.value.func, t.module, t.cls, t) is ov for x in rets):
                return True
        return False
    builds = [n for n in v.cfg.nodes if n.kind == "stmt" and isinstance(n.ast, ast.Assign) and fresh_validator(n.ast.value)
              and any(isinstance(t, ast.Attribute) for t in n.ast.targets)]
    attr_names = {t.attr for n in builds for t in n.ast.targets if isinstance(t, ast.Attribute)}
    runs = [(n, c) for (n, c) in v.calls(lambda c: call_name(c) == "_run_onset_checks")]
    ctx.floor("R10.2", "onset-pass calls in validate", len(runs), 1)
    # every assignment of that attribute in validate: a fresh construction or a falsy constant
    assigns = [n for n in v.cfg.nodes if n.kind == "stmt" and isinstance(n.ast, ast.Assign) and any(
        isinstance(t, ast.Attribute) and t.attr in attr_names and isinstance(t.value, ast.Name) and t.value.id == "self"
        for t in n.ast.targets)]
    stale = [a for a in assigns if a not in builds and not (isinstance(a.ast.value, ast.Constant) and not a.ast.value.value)]
    has_none = any(a not in builds for a in assigns)
    for n, c in runs:
        ok = bool(builds) and not stale and v.must_pass(assigns, n)
        if ok and has_none:
            # the run must then be guarded by the truthiness of the attribute
            g = v.guard_for(n, lambda t: any(isinstance(x, ast.Attribute) and x.attr in attr_names for x in ast.walk(t)))
            ok = g is not None and g[1] is True
        ctx.check(ok, "R10.2", val.qualname, c, loc(val, c),
                  "the onset pass can run with a temporal validator that was not freshly built in this validate() call: "
                  "scopes left open by a previous file make an Offset/Inset legal that should be reported",
                  desc="every path to the onset pass builds a fresh OnsetValidator() first")
    # the onset pass uses exactly that attribute
    roc = sv.methods.get("_run_onset_checks")
    if roc is not None and attr_names:
        uses = {x.attr for x in ast.walk(roc.node) if isinstance(x, ast.Attribute) and isinstance(x.value, ast.Name)
                and x.value.id == "self" and "onset" in x.attr}
        ctx.check(bool(uses & attr_names), "R10.2", roc.qualname, "validator attribute", loc(roc, roc.node),
                  "_run_onset_checks does not use the validator built in validate (%s)" % sorted(attr_names),
                  desc="_run_onset_checks uses self.%s" % "/".join(sorted(attr_names)))
    sinit = sv.methods.get("__init__")
    if sinit is not None:
        for n in walk_no_nested(sinit.node):
            if isinstance(n, ast.Assign) and fresh_validator(n.value):
                # allowed only if validate rebuilds it (checked above); still a smell: cross reference
                ctx.xref("R10.2", loc(sinit, n), "temporal validator also constructed in __init__")

    # ---------------- R10.5: the onset pass maps time points back to file rows by original_index
    ctx.rule("R10.5", "rows that already failed are skipped by their original_index")
    roc2 = sv.methods.get("_run_onset_checks")
    if roc2 is not None:
        for x in walk_no_nested(roc2.node):
            if isinstance(x, ast.Compare) and any(isinstance(o, (ast.In, ast.NotIn)) for o in x.ops) and \
                    "invalid_original_rows" in norm(x.comparators[0]):
                from sa.dataflow import ReachingDefs as _RD105, depends_on as _dep105
                by_index = (isinstance(x.left, ast.Attribute) and x.left.attr == "original_index") or _dep105(
                    _RD105(roc2), x.left, x, _is_original_index)
                ctx.check(by_index, "R10.5", roc2.qualname, x, loc(roc2, x),
                          "the failed-row skip tests `%s` instead of the row's original_index: a valid Onset row is dropped (its "
                          "Offset is then reported as unmatched) or a broken row is not skipped" % norm(x.left),
                          desc="failed-row skip uses original_index")

    # ---------------- R10.4: every Delay-shifted group gets its own time point
    ctx.rule("R10.4", "each Delay-shifted group is appended under an index computed afresh for that group")
    delay_split_rule(ctx, "R10.4")

    # ---------------- R10.6: rows sharing an onset keep their file order
    ctx.rule("R10.6", "ordering rows by onset uses a stable sort (rows of one time point keep their file order)")
    n_sorts = 0
    for f in prog.find_module("models.df_util").functions.values():
        for c in walk_no_nested(f.node):
            if isinstance(c, ast.Call) and isinstance(c.func, ast.Attribute) and c.func.attr in ("sort_values", "argsort", "sort_index") \
                    and ("onset" in norm(c).lower() or "onset" in f.name.lower() or any(
                        isinstance(prog.try_const(a_, f.module, f.cls), str) and "onset" in prog.try_const(a_, f.module, f.cls).lower()
                        for a_ in list(c.args) + [k.value for k in c.keywords])):
                n_sorts += 1
                ctx.saw(f)
                kw = {k.arg: k.value for k in c.keywords if k.arg}
                kind = kw.get("kind")
                ok = isinstance(kind, ast.Constant) and kind.value in ("stable", "mergesort")
                ctx.check(ok, "R10.6", f.qualname, c, loc(f, c),
                          "`%s` sorts with pandas' default (quicksort, not stable): rows that share an onset can come out in another "
                          "order than in the file, so within one time point an Offset can be processed before the Onset written above "
                          "it (spurious or missing unmatched-Offset reports)" % norm(c)[:60],
                          desc="%s: onset sort is stable" % f.short)
    ctx.floor("R10.6", "onset sorts in df_util", n_sorts, 1)

    # ---------------- R10.3
    bi = prog.find_class("BaseInput")
    entry = bi.methods.get("validate")
    if entry is None:
        raise AnalysisError("anchor BaseInput.validate vanished")
    n = wiring.check_wiring(ctx, "R10.3", ROWS, entry)
    ctx.floor("R10.3", "temporal keys", n, 10)
    ctx.check(vt in cg.reachable([entry], STRONG_KINDS), "R10.3", entry.qualname, "reach temporal pass", loc(entry, entry.node),
              "validate_temporal_relations is not reachable from BaseInput.validate", desc="BaseInput.validate reaches validate_temporal_relations")

    # ---------------- R10.7: only an Offset closes an open scope
    ctx.rule("R10.7", "an entry leaves the open-scope table only under a test that the tag is an Offset")
    from sa.dataflow import ReachingDefs as _RD10, depends_on as _dep10
    hoo = prog.find_class("OnsetValidator").methods.get("_handle_onset_or_offset")
    if hoo is None:
        raise AnalysisError("anchor OnsetValidator._handle_onset_or_offset vanished")
    ctx.saw(hoo)
    v7 = view(ctx, hoo)
    rd7 = _RD10(hoo)
    closers = []
    for n_ in v7.cfg.nodes:
        if n_.kind != "stmt" or n_.ast is None:
            continue
        a = n_.ast
        if isinstance(a, ast.Delete) and any(isinstance(t, ast.Subscript) and norm(t.value).startswith("self._onsets") for t in a.targets):
            closers.append(n_)
        elif isinstance(a, (ast.Expr, ast.Assign)) and isinstance(a.value, ast.Call) and isinstance(a.value.func, ast.Attribute) \
                and a.value.func.attr in ("pop", "popitem", "clear") and norm(a.value.func.value).startswith("self._onsets"):
            closers.append(n_)
    ctx.floor("R10.7", "scope-closing statements in _handle_onset_or_offset", len(closers), 1)
    for n_ in closers:
        def offset_test(t):
            return _dep10(rd7, t, t, lambda x: isinstance(x, ast.Attribute) and x.attr == "OFFSET_KEY")
        g = v7.guard_for(n_, offset_test)
        ctx.check(g is not None and g[1] is True, "R10.7", hoo.qualname, n_.ast, loc(hoo, n_.ast),
                  "the open scope is closed on a path that is not conditional on the tag being an Offset: an Inset of an open "
                  "definition closes it too, so a second Inset or the real Offset is reported as unmatched",
                  desc="scope closed only under the Offset test")

    # ---------------- R10.8: rows without a time are left out before onsets are compared
    ctx.rule("R10.8", "in the time-point grouping a NaN onset leaves the iteration before any ordering comparison of the onset")
    ido = prog.find_function("df_util._indexed_dict_from_onsets")
    ctx.saw(ido)
    v8 = view(ctx, ido)
    loopvars = set()
    for lp in walk_no_nested(ido.node):
        if isinstance(lp, ast.For):
            loopvars |= {x.id for x in ast.walk(lp.target) if isinstance(x, ast.Name)}
    cmps = [c for c in v8.conds(lambda t: any(isinstance(x, ast.Compare) and isinstance(x.ops[0], (ast.Lt, ast.LtE, ast.Gt, ast.GtE))
                                              and any(isinstance(y, ast.Name) and y.id in loopvars for y in ast.walk(x)) for x in ast.walk(t)))]
    ctx.floor("R10.8", "ordering comparisons of the onset in the grouping loop", len(cmps), 1)
    for c in cmps:
        def nan_test(t):
            return any(isinstance(x, ast.Call) and call_name(x) in ("isnan", "isna", "isnull") and x.args
                       and any(isinstance(y, ast.Name) and y.id in loopvars for y in ast.walk(x.args[0])) for x in ast.walk(t)) or \
                any(isinstance(x, ast.Compare) and isinstance(x.ops[0], ast.NotEq) and isinstance(x.left, ast.Name)
                    and x.left.id in loopvars and norm(x.left) == norm(x.comparators[0]) for x in ast.walk(t))
        g = v8.guard_for(c, nan_test)
        if g is not None:
            t_ = g[0].ast
            neg = False
            while isinstance(t_, ast.UnaryOp) and isinstance(t_.op, ast.Not):
                neg, t_ = not neg, t_.operand
            nan_label = not neg         # the edge a NaN onset takes at this test
            g = (g[0], False) if g[1] is not nan_label else None
        ctx.check(g is not None and g[1] is False, "R10.8", ido.qualname, c.ast, loc(ido, c.ast),
                  "a NaN onset reaches the tolerance comparison, which is false for NaN: the row without a time is appended to the "
                  "current time point, so its Onset/Offset markers act at the last timed row", desc="NaN onsets skipped before the comparison")

    # ---------------- R10.9: the Duration/Delay check steps aside for every temporal marker
    ctx.rule("R10.9", "validate_duration_tags skips groups anchored by any member of DefTagNames.TEMPORAL_KEYS")
    vdt = prog.find_class("GroupValidator").methods.get("validate_duration_tags")
    dtn = prog.find_class("DefTagNames")
    if vdt is None:
        raise AnalysisError("anchor GroupValidator.validate_duration_tags vanished")
    ctx.saw(vdt)
    tk = dtn.assigns.get("TEMPORAL_KEYS") if hasattr(dtn, "assigns") else None
    members = set()
    for st in dtn.node.body:
        if isinstance(st, ast.Assign) and any(isinstance(t, ast.Name) and t.id == "TEMPORAL_KEYS" for t in st.targets):
            members = {x.id for x in ast.walk(st.value) if isinstance(x, ast.Name)}
    if len(members) < 3:
        raise AnalysisError("R10.9: DefTagNames.TEMPORAL_KEYS is no longer a display of at least three key names")
    v109 = view(ctx, vdt)
    skips = [c for c in v109.conds(lambda t: "DefTagNames." in norm(t)) if {"continue", "break"} & (v109.leaves(c, True) | v109.leaves(c, False))]
    ctx.floor("R10.9", "temporal-marker skip tests in validate_duration_tags", len(skips), 1)
    for c in skips:
        used = {x.attr for x in ast.walk(c.ast) if isinstance(x, ast.Attribute) and norm(x.value).endswith("DefTagNames")}
        ok = "TEMPORAL_KEYS" in used or members <= used
        ctx.check(ok, "R10.9", vdt.qualname, c.ast, loc(vdt, c.ast),
                  "the skip names %s but not every temporal marker (%s): a group anchored by the missing one (e.g. a delayed Inset) is "
                  "checked as a Duration/Delay group and reported" % (sorted(used), sorted(members)), desc="skip covers all temporal keys")

    # ---------------- R10.10: rows that share a time point are all kept when their texts are joined
    from rules.c20 import join_dedupe_rule
    join_dedupe_rule(ctx, "R10.10", ("hed.models.df_util",), 1)

    # ---------------- R10.11: a tag is recognised as Onset/Offset/Delay/Def… by its short BASE tag (the form without value)
    ctx.rule("R10.11", "a tag form compared with a DefTagNames key is short_base_tag (never a form that carries the value/extension)")
    FORMS1011 = {"short_tag", "org_tag", "tag", "long_tag", "org_base_tag", "base_tag", "short_base_tag", "extension", "tag_terms"}
    n1011 = 0
    from sa.dataflow import ReachingDefs as _RD1011
    rds1011 = {}
    for f in prog.functions.values():
        for c in walk_no_nested(f.node):
            if not (isinstance(c, ast.Compare) and len(c.ops) == 1 and isinstance(c.ops[0], (ast.Eq, ast.NotEq, ast.In, ast.NotIn))):
                continue
            sides = [c.left, c.comparators[0]]
            keyside = [x for x in sides if any(isinstance(y, ast.Attribute) and y.attr.endswith("_KEY") and isinstance(y.value, ast.Name)
                                               and y.value.id == "DefTagNames" for y in ast.walk(x))]
            if len(keyside) != 1:
                continue
            other = sides[0] if keyside[0] is sides[1] else sides[1]
            while isinstance(other, ast.Call) and isinstance(other.func, ast.Attribute) and other.func.attr in ("casefold", "lower") and not other.args:
                other = other.func.value
            if isinstance(other, ast.Name):
                # a local the form was read into (`short_base = tag.short_base_tag`)
                rd1011 = rds1011[f] if f in rds1011 else rds1011.setdefault(f, _RD1011(f))
                forms_ = set()
                for d_ in rd1011.at(c, other.id) or []:
                    v_ = d_.value if d_.kind == "assign" else None
                    while isinstance(v_, ast.Call) and isinstance(v_.func, ast.Attribute) and v_.func.attr in ("casefold", "lower") and not v_.args:
                        v_ = v_.func.value
                    forms_.add(v_.attr if isinstance(v_, ast.Attribute) and v_.attr in FORMS1011 else None)
                if len(forms_) != 1 or None in forms_:
                    continue
                other = ast.Attribute(value=ast.Name(id=other.id, ctx=ast.Load()), attr=forms_.pop(), ctx=ast.Load())
            if not (isinstance(other, ast.Attribute) and other.attr in FORMS1011):
                continue
            n1011 += 1
            ctx.saw(f)
            ctx.check(other.attr == "short_base_tag", "R10.11", f.qualname, c, loc(f, c),
                      "`%s` compares the form `%s` with a temporal/definition key: that form includes the value (`Delay/1 s`) or depends "
                      "on how the tag was written, so a valued or long-form Onset/Offset/Delay/Def tag is not recognised as one"
                      % (norm(c)[:60], other.attr), desc="%s: key comparison on short_base_tag" % f.short)
    ctx.floor("R10.11", "tag-form comparisons with DefTagNames keys", n1011, 10)


def delay_split_rule(ctx, rule):
    """In split_delay_tags a row is appended with `table.loc[index] = row`; the index variable must be computed inside
    the innermost loop that performs the store (one fresh index per appended group)."""
    from sa.dom import loop_fresh
    f = ctx.prog.find_function("df_util.split_delay_tags")
    ctx.saw(f)
    v = view(ctx, f)
    n_st = 0
    for n in v.cfg.nodes:
        a = n.ast
        if n.kind == "stmt" and isinstance(a, ast.Assign) and isinstance(a.targets[0], ast.Subscript) and \
                isinstance(a.targets[0].value, ast.Attribute) and a.targets[0].value.attr in ("loc", "at") and \
                isinstance(a.targets[0].slice, ast.Name) and isinstance(a.value, ast.Dict):
            n_st += 1
            nm = a.targets[0].slice.id
            ctx.check(loop_fresh(v, n, nm), rule, f.qualname, a, loc(f, a),
                      "the row index `%s` used to append a Delay-shifted group is not recomputed for every group: two delayed "
                      "groups in one row are written to the same new row, so only the last one takes effect" % nm,
                      desc="append index `%s` is fresh for every appended group" % nm)
    if n_st == 0:
        ctx.xref(rule, loc(f, f.node), "split_delay_tags no longer appends rows through `.loc[name] = {...}`")
