"""C17 — remodeling operations: do_op writes neither operation state nor its input table,
parameter schema / constructor reads / optional-parameter uses agree, validation dominates
execution, registry complete, n/a<->NaN conversion brackets every step."""
import ast

from sa.dataflow import ReachingDefs, depends_on
from sa.dom import view, mentions
from sa.effects import check_no_mutation, get_effects
from sa.model import AnalysisError, ClassInfo, call_name, loc, norm, walk_no_nested
from sa.null import check_nullable

LEVEL_TEXT = ("Static structural proof of necessary conditions: (R17.1/R17.2) alias-based effect analysis shows that do_op "
              "of the eight operations the property names (and every self method it calls) mutates neither self.* — "
              "directly or through a local alias — nor its input table; (R17.3) per operation, keys subscripted in "
              "__init__ are required by PARAMS, keys read are declared, and an attribute initialised from an optional "
              "parameter with a None default is None-guarded before any None-intolerant use in do_op; (R17.4) in the CLI "
              "the validator call with its raise dominates dispatcher construction; (R17.5) every registered class defines "
              "PARAMS, do_op and validate_input_data; (R17.6) in the dispatcher loop each do_op is bracketed by the "
              "n/a->NaN and NaN->n/a conversions. What each operation computes is NOT decided.")
LEVEL_EXTRA = 'Added after the seeded evaluation: (R17.3) optional keys of nested item parameters are not subscripted unguarded. Added after the hunting pass: (R17.7) in the operations the first row of a boolean-mask selection is taken only under an emptiness test. (R17.8) operation constructors never mutate their parameters; (R17.9) a do_op that selects rows returns through reset_index(drop=True). (R17.10) a parameter is handed on to every repository callee that takes a parameter of the same name (11 frozen exceptions package-wide).'

NAMED = ["remove_rows", "remove_columns", "rename_columns", "reorder_columns", "factor_column", "remap_columns",
         "merge_consecutive", "split_rows"]
OTHER_NON_SUMMARY = ["factor_hed_tags", "factor_hed_type", "number_groups", "number_rows"]


def registry(prog):
    mod = prog.find_module("operations.valid_operations")
    e = mod.assigns.get("valid_operations")
    if not isinstance(e, ast.Dict):
        raise AnalysisError("anchor valid_operations is no longer a dict display")
    out = {}
    for k, v in zip(e.keys, e.values):
        if isinstance(k, ast.Constant):
            r = prog.resolve_expr(v, mod)
            out[k.value] = r if isinstance(r, ClassInfo) else None
    return mod, out


def param_reads(init):
    """(subscripted keys, .get keys with default node) of the `parameters` dict in __init__."""
    sub, get = set(), {}
    pname = None
    ps = init.params()
    if len(ps) >= 2:
        pname = ps[1]
    for n in walk_no_nested(init.node):
        if isinstance(n, ast.Subscript) and isinstance(n.value, ast.Name) and n.value.id == pname and \
                isinstance(n.slice, ast.Constant) and isinstance(n.ctx, ast.Load):
            sub.add(n.slice.value)
        if isinstance(n, ast.Call) and isinstance(n.func, ast.Attribute) and n.func.attr == "get" and \
                isinstance(n.func.value, ast.Name) and n.func.value.id == pname and n.args and isinstance(n.args[0], ast.Constant):
            get[n.args[0].value] = n.args[1] if len(n.args) > 1 else None
    return sub, get


def run(ctx):
    prog, cg = ctx.prog, ctx.cg
    ctx.rule("R17.1", "do_op (and the self methods it calls) never mutates self.*, directly or through an alias")
    ctx.rule("R17.2", "do_op never mutates its input table parameter or an alias of it")
    ctx.rule("R17.3", "PARAMS / constructor reads / optional-parameter uses agree")
    ctx.rule("R17.4", "in the CLI, operation-list validation with its raise dominates dispatcher construction")
    ctx.rule("R17.5", "every registered operation class defines PARAMS, do_op and validate_input_data")
    ctx.rule("R17.6", "each do_op in the dispatcher loop is preceded by prep_data and followed by post_proc_data")
    ctx.assume("pandas methods without inplace=True return new objects; df.copy() is a deep copy")
    mod, reg = registry(prog)
    ctx.floor("R17.5", "registered operations", len(reg), 15)

    # ---------------- R17.5
    for name, cls in sorted(reg.items()):
        if cls is None:
            ctx.violation("R17.5", mod.name, "valid_operations[%r]" % name, mod.relpath,
                          "registry entry %r does not resolve to an operation class of the package" % name)
            continue
        for member in ("PARAMS", "do_op", "validate_input_data"):
            have = False
            for c in cls.mro():
                if member in c.attrs:
                    have = True
                    break
                m = c.methods.get(member)
                if m is not None and not m.is_abstract:
                    have = True
                    break
            ctx.check(have, "R17.5", cls.qualname, "member " + member, loc(cls.module, cls.node),
                      "registered operation %s (%s) does not define %s, which the remodeler %s" % (
                          name, cls.name, member, "reads to build the validation schema" if member == "PARAMS"
                          else "calls through the registry"), desc="%s defines %s" % (cls.name, member))

    # ---------------- R17.1 / R17.2
    named = []
    for nm in NAMED:
        cls = reg.get(nm)
        if cls is None:
            raise AnalysisError("operation %s named by the property is not registered" % nm)
        do = cls.find_method("do_op")
        if do is None or do.is_abstract:
            raise AnalysisError("%s has no do_op" % cls.name)
        named.append((nm, cls, do))
    eff = get_effects(ctx)

    def forbid_self(fi, o):
        return o[0] == "S" or o == ("P", "self")

    def forbid_df(fi, o):
        ps = fi.params()
        return o[0] == "P" and len(ps) >= 3 and o[1] == ps[2]
    check_no_mutation(ctx, "R17.1", [d for _, _, d in named], forbid_self, "the operation's own state (self.*)",
                      "the operation's parameters change while tables are processed, so the result depends on which "
                      "tables were processed before")
    check_no_mutation(ctx, "R17.2", [d for _, _, d in named], forbid_df, "the input table",
                      "the caller's DataFrame is changed by applying the operation")
    for nm in OTHER_NON_SUMMARY:
        cls = reg.get(nm)
        do = cls.find_method("do_op") if cls else None
        if do is None:
            continue
        for e in eff.events(do):
            if any(forbid_self(do, o) or forbid_df(do, o) for o in e.origins):
                ctx.xref("R17.1", loc(do, e.node), "%s.do_op (not quantified over by the property): %s" % (cls.name, e.how))

    # ---------------- R17.3
    n_opt = 0
    for nm, cls, do in named:
        init = cls.find_method("__init__")
        params = None
        for c in cls.mro():
            if "PARAMS" in c.attrs:
                params = prog.try_const(c.attrs["PARAMS"], c.module, c)
                break
        if init is None or not isinstance(params, dict):
            raise AnalysisError("%s: __init__ or evaluable PARAMS missing" % cls.name)
        ctx.saw(init, do)
        props = set(params.get("properties", {}))
        required = set(params.get("required", []))
        sub, get = param_reads(init)
        for k in sorted(sub):
            ctx.check(k in required, "R17.3", init.qualname, "parameters[%r]" % k, loc(init, init.node),
                      "%s.__init__ subscripts parameters[%r], which PARAMS does not list as required: a validated "
                      "operation without it raises KeyError" % (cls.name, k), desc="%s: subscripted key %r is required" % (cls.name, k))
        for k in sorted(sub | set(get)):
            ctx.check(k in props, "R17.3", init.qualname, "parameter key %r" % k, loc(init, init.node),
                      "%s.__init__ reads parameter %r which PARAMS.properties does not declare (additionalProperties is "
                      "false: it can never be given)" % (cls.name, k), desc="%s: key %r is declared" % (cls.name, k))
        for k in sorted(required):
            ctx.check(k in sub or k in get, "R17.3", init.qualname, "required key %r" % k, loc(init, init.node),
                      "required parameter %r of %s is never read by the constructor" % (k, cls.name),
                      desc="%s: required key %r is read" % (cls.name, k))
        # attributes holding an optional parameter with a None default
        nullable_attrs = {}
        for n in walk_no_nested(init.node):
            if isinstance(n, ast.Assign) and isinstance(n.value, ast.Call) and isinstance(n.value.func, ast.Attribute) and \
                    n.value.func.attr == "get" and n.value.args and isinstance(n.value.args[0], ast.Constant):
                k = n.value.args[0].value
                dflt = n.value.args[1] if len(n.value.args) > 1 else None
                if k in required:
                    continue
                if dflt is None or (isinstance(dflt, ast.Constant) and dflt.value is None):
                    for t in n.targets:
                        if isinstance(t, ast.Attribute) and isinstance(t.value, ast.Name) and t.value.id == "self":
                            nullable_attrs[t.attr] = k
        n_opt += len(nullable_attrs)
        if nullable_attrs:
            scope = [do] + [m for m in cls.methods.values() if m is not do and m.name != "__init__" and
                            m in cg.reachable([do], ("precise", "prop"))]

            def pred(fi, node, na=nullable_attrs):
                if isinstance(node, ast.Attribute) and isinstance(node.ctx, ast.Load) and isinstance(node.value, ast.Name) \
                        and node.value.id == "self" and node.attr in na:
                    return "optional parameter %r defaults to None" % na[node.attr]
                return None
            check_nullable(ctx, "R17.3", scope, pred, "optional parameters of %s" % cls.name)
    ctx.notes.append("R17.3: optional-None attributes over the 8 operations = %d" % n_opt)
    # nested object parameters (a map of per-item settings): optional keys of an item are not subscripted unguarded
    n_nested = 0
    for nm, cls, do in named:
        params = None
        for c in cls.mro():
            if "PARAMS" in c.attrs:
                params = prog.try_const(c.attrs["PARAMS"], c.module, c)
                break
        for pname, pschema in (params or {}).get("properties", {}).items():
            if not isinstance(pschema, dict):
                continue
            items = list((pschema.get("patternProperties") or {}).values()) + ([pschema["items"]] if isinstance(pschema.get("items"), dict) else [])
            for item in items:
                if not (isinstance(item, dict) and item.get("type") == "object" and "properties" in item):
                    continue
                optional = set(item["properties"]) - set(item.get("required", []))
                if not optional:
                    continue
                for m in cls.all_methods:
                    # variables bound to one item: `for k, v in self.<pname>.items()` / `for v in self.<pname>.values()` / `for v in self.<pname>`
                    itemvars = set()
                    for lp in walk_no_nested(m.node):
                        if isinstance(lp, ast.For) and any(isinstance(x, ast.Attribute) and x.attr == pname for x in ast.walk(lp.iter)):
                            tg = lp.target
                            if isinstance(tg, ast.Tuple) and len(tg.elts) == 2 and isinstance(tg.elts[1], ast.Name):
                                itemvars.add(tg.elts[1].id)
                            elif isinstance(tg, ast.Name) and not (isinstance(lp.iter, ast.Call) and call_name(lp.iter) in ("keys",)):
                                itemvars.add(tg.id)
                    if not itemvars:
                        continue
                    vm = None
                    for x in walk_no_nested(m.node):
                        if isinstance(x, ast.Subscript) and isinstance(x.ctx, ast.Load) and isinstance(x.value, ast.Name) and \
                                x.value.id in itemvars and isinstance(x.slice, ast.Constant) and x.slice.value in optional:
                            n_nested += 1
                            ctx.saw(m)
                            vm = vm or view(ctx, m)
                            key = x.slice.value
                            # innermost statement whose own expressions (not its nested blocks) hold the subscript
                            par, node = None, None
                            for st in walk_no_nested(m.node):
                                if not isinstance(st, ast.stmt):
                                    continue
                                heads = [st.iter, st.target] if isinstance(st, ast.For) else [st.test] if isinstance(st, (ast.If, ast.While)) else \
                                    [i.context_expr for i in st.items] if isinstance(st, ast.With) else [] if isinstance(st, ast.Try) else [st]
                                if any(y is x for h in heads for y in ast.walk(h)):
                                    par = st
                            if par is not None:
                                node = vm.cfg.node_of(par)
                            g = vm.guard_for(node, lambda t, key=key, v_=x.value.id: isinstance(t, ast.expr) and any(
                                isinstance(y, ast.Compare) and isinstance(y.ops[0], ast.In) and isinstance(y.left, ast.Constant) and y.left.value == key
                                and isinstance(y.comparators[0], ast.Name) and y.comparators[0].id == v_ for y in ast.walk(t))) if node is not None else None
                            same_test = par is not None and isinstance(par, ast.If) and any(
                                isinstance(y, ast.Compare) and isinstance(y.ops[0], ast.In) and isinstance(y.left, ast.Constant) and y.left.value == key
                                for y in ast.walk(par.test))
                            ctx.check((g is not None and g[1] is True) or same_test, "R17.3", m.qualname, x, loc(m, x),
                                      "`%s` subscripts the optional key %r of an item of parameter %r (not in that item's `required` list): a "
                                      "validated operation that omits it raises KeyError while running" % (norm(x), key, pname),
                                      desc="%s: optional item key %r guarded" % (cls.name, key))
    ctx.notes.append("R17.3: subscripts of optional keys of nested item parameters = %d" % n_nested)

    # ---------------- R17.7: the first row of a mask selection is taken only when the selection has rows
    ctx.rule("R17.7", "in the operations, the first/last row of a boolean-mask selection is taken under an emptiness test")
    from sa.firstelem import check_first_row
    opmods = {cls.module.name for _, cls, _ in named}
    scope7 = [f for f in prog.functions.values() if f.module.name in opmods or f.module.name == "hed.tools.analysis.key_map"]
    n7 = check_first_row(ctx, "R17.7", scope7, view,
                         "a validated operation raises IndexError on a table that has the named columns")
    ctx.floor("R17.7", "first-row accesses on mask selections in the operations", n7, 1)

    # ---------------- R17.4
    cli = prog.find_module("remodeling.cli.run_remodel")
    main = cli.functions.get("main")
    pa = cli.functions.get("parse_arguments")
    if main is None or pa is None:
        raise AnalysisError("R17.4 anchors run_remodel.main/parse_arguments vanished")
    ctx.saw(main, pa)
    vp = view(ctx, pa)
    rdp = ReachingDefs(pa)
    val_calls = [(n, c) for (n, c) in vp.calls(lambda c: call_name(c) == "validate" and "alidator" in norm(c.func))]
    ctx.check(bool(val_calls), "R17.4", pa.qualname, "validator call", loc(pa, pa.node),
              "parse_arguments no longer validates the operation list", desc="parse_arguments calls the remodeler validator")
    rets = [n for n in vp.cfg.nodes if n.kind == "stmt" and isinstance(n.ast, ast.Return)]
    for r in rets:
        def tests_result(t):
            return depends_on(rdp, t, t, lambda x: isinstance(x, ast.Call) and call_name(x) == "validate")
        g = vp.guard_for(r, tests_result, want_leave=("raise",))
        ctx.check(g is not None, "R17.4", pa.qualname, r.ast, loc(pa, r.ast),
                  "parse_arguments can return the operation list without the validation errors having been tested "
                  "(with a raise): an invalid list would be partially executed", desc="validation result tested with a raise before returning")
    vm = view(ctx, main)
    pnodes = [n for (n, c) in vm.calls(lambda c: call_name(c) == "parse_arguments")]
    dnodes = [(n, c) for (n, c) in vm.calls(lambda c: call_name(c) == "Dispatcher")]
    ctx.floor("R17.4", "Dispatcher constructions in main", len(dnodes), 1)
    for n, c in dnodes:
        ok = bool(pnodes) and any(vm.dominates(p, n) for p in pnodes)
        # the operations handed to the dispatcher are the validated ones
        rdm = ReachingDefs(main)
        ok = ok and c.args and depends_on(rdm, c.args[0], c, lambda x: isinstance(x, ast.Call) and call_name(x) == "parse_arguments")
        ctx.check(ok, "R17.4", main.qualname, c, loc(main, c),
                  "the dispatcher is constructed with operations that did not come out of the validating parse_arguments",
                  desc="Dispatcher built from the validated operation list")

    # ---------------- R17.6
    disp = prog.find_class("Dispatcher")
    ro = disp.methods.get("run_operations")
    if ro is None:
        raise AnalysisError("anchor Dispatcher.run_operations vanished")
    ctx.saw(ro)
    v = view(ctx, ro)
    rd = ReachingDefs(ro)
    dos = [(n, c) for (n, c) in v.calls(lambda c: call_name(c) == "do_op")]
    ctx.floor("R17.6", "do_op calls in run_operations", len(dos), 1)
    for n, c in dos:
        loops = [lp for lp in v.cfg.nodes if lp.kind == "loop" and any(x is c for b in lp.ast.body for x in ast.walk(b))]
        if not loops:
            ctx.violation("R17.6", ro.qualname, c, loc(ro, c), "do_op is no longer applied in the per-operation loop")
            continue
        lp = loops[-1]
        # the table argument (2nd positional) comes only from prep_data inside the loop
        arg = c.args[1] if len(c.args) > 1 else None
        ok_pre = False
        if isinstance(arg, ast.Name):
            defs = rd.at(c, arg.id) or []
            ok_pre = bool(defs) and all(d.kind == "assign" and isinstance(d.value, ast.Call) and call_name(d.value) == "prep_data"
                                        and any(x is d.node for b in lp.ast.body for x in ast.walk(b)) for d in defs)
        elif isinstance(arg, ast.Call) and call_name(arg) == "prep_data":
            ok_pre = True
        ctx.check(ok_pre, "R17.6", ro.qualname, c, loc(ro, c),
                  "the table handed to do_op is not (only) the result of prep_data in the same iteration: n/a cells reach "
                  "the operation as text instead of NaN", desc="do_op input comes from prep_data in the same iteration")
        posts = [m for (m, cc) in v.calls(lambda cc: call_name(cc) == "post_proc_data")
                 if any(x is cc for b in lp.ast.body for x in ast.walk(b))]
        ok_post = bool(posts)
        if ok_post:
            seen, stack = set(), [m for (m, l) in v.cfg.succ[n] if l != "exc"]
            if n in posts:
                stack = []
            while stack and ok_post:
                x = stack.pop()
                if x in seen or x in posts:
                    continue
                if x is lp or x is v.cfg.exit:
                    ok_post = False
                seen.add(x)
                stack.extend(m for (m, l) in v.cfg.succ[x] if l != "exc")
        ctx.check(ok_post, "R17.6", ro.qualname, "post_proc_data after " + norm(c)[:40], loc(ro, c),
                  "post_proc_data does not follow do_op on every path of the iteration: NaN cells are handed to the next "
                  "operation / returned instead of n/a", desc="post_proc_data follows do_op in every iteration")

    # ---------------- R17.8: an operation's constructor leaves the caller's parameter dictionary as it is
    ctx.rule("R17.8", "the constructors of the registered operations never mutate their parameters argument")

    def forbid_params(fi, o):
        ps = fi.params()
        return o[0] == "P" and len(ps) >= 2 and o[1] == ps[1]
    inits = [cls.find_method("__init__") for _, cls, _ in named if cls.find_method("__init__") is not None]
    ctx.floor("R17.8", "operation constructors", len(inits), 8)
    check_no_mutation(ctx, "R17.8", inits, forbid_params, "the caller's parameter dictionary",
                      "the operation list the caller validated is changed by building the dispatcher (an added default can make the same "
                      "list fail validation next time)")

    # ---------------- R17.9: an operation that selects rows hands back a table with a fresh row index
    ctx.rule("R17.9", "a do_op that selects rows by a mask returns the table through reset_index(drop=True)")
    n_sel = 0
    for nm, cls, do in named:
        sels = [x for x in walk_no_nested(do.node) if isinstance(x, ast.Subscript) and isinstance(x.value, ast.Attribute)
                and x.value.attr == "loc" and isinstance(x.slice, ast.Tuple) and len(x.slice.elts) == 2
                and isinstance(x.slice.elts[1], ast.Slice) and isinstance(x.ctx, ast.Load)]
        if not sels:
            continue
        n_sel += 1
        ctx.saw(do)
        resets = [x for x in walk_no_nested(do.node) if isinstance(x, ast.Call) and call_name(x) == "reset_index"
                  and any(kw.arg == "drop" and isinstance(kw.value, ast.Constant) and kw.value.value is True for kw in x.keywords)]
        vdo = view(ctx, do)
        rets = [n for n in vdo.cfg.nodes if n.kind == "stmt" and isinstance(n.ast, ast.Return) and n.ast.value is not None]
        sel_nodes = [vdo.node(x) for x in sels]
        reset_nodes = [vdo.node(x) for x in resets]
        bad = []
        for r in rets:
            # a return reachable from a row selection without passing a reset_index
            for sn in sel_nodes:
                if sn is None:
                    continue
                if any(x is r.ast.value or any(x is y for y in ast.walk(r.ast.value)) for x in resets):
                    continue
                if r in vdo.cfg.reachable_from(sn, True, avoid={rn for rn in reset_nodes if rn is not None and rn is not sn}) and \
                        not (sn in [rn for rn in reset_nodes if rn is not None]):
                    bad.append(r)
        ctx.check(not bad, "R17.9", do.qualname, "row selection -> return", loc(do, do.node),
                  "rows are selected by a mask and the table is returned with the old row labels: the next operation in the list "
                  "(merge_consecutive reads labels as positions) raises IndexError/KeyError or merges the wrong rows",
                  desc="%s: returned through reset_index(drop=True)" % cls.name)
    ctx.floor("R17.9", "row-selecting operations", n_sel, 2)

    # ---------------- R17.10: parameters are handed on to same-named parameters of repository callees
    from sa.forward import check_forwarding
    nfw = check_forwarding(ctx, "R17.10", [f for f in prog.functions.values() if f.module.name.startswith(('hed.tools.remodeling.operations', 'hed.tools.remodeling.dispatcher', 'hed.tools.remodeling.remodeler_validator'))], 'e.g. the sidecar, the file name')
    ctx.floor("R17.10", "same-named parameter sites", nfw, 1)
