"""C11 — units: the validation path and the conversion path normalise unit text identically when
indexing the derived-unit table; no float()/arithmetic/dereference on a possibly absent entry."""
import ast

from sa.callgraph import STRONG_KINDS
from sa.dataflow import ReachingDefs
from sa.model import AnalysisError, call_name, loc, norm, walk_no_nested
from sa.norm import mapping_accesses, normalisation
from sa.null import check_nullable, named_sources

LEVEL_TEXT = ("Static structural proof of necessary conditions: (R11.1) every function that looks a unit text up in a "
              "derived-unit table (validation: UnitClassEntry.get_derivative_unit_entry; conversion: "
              "UnitEntry.get_conversion_factor) probes with the same normalisation set (exact, then case-folded) and "
              "applies the unit-symbol exception; (R11.2) in the closure of HedTag.value_as_default_unit no possibly "
              "absent table entry or conversion result is passed to float(), used arithmetically or dereferenced "
              "without a dominating None test. Which spellings are accepted, numeric values, linearity and prefix "
              "units are NOT decided.")


def run(ctx):
    prog, cg = ctx.prog, ctx.cg
    ctx.rule("R11.1", "validation and conversion look units up with the same normalisation set and the symbol exception")
    ctx.rule("R11.2", "no float()/arithmetic/dereference on a possibly absent unit entry or conversion factor")
    uce = prog.find_class("UnitClassEntry")
    ue = prog.find_class("UnitEntry")
    val = uce.methods.get("get_derivative_unit_entry")
    conv = ue.methods.get("get_conversion_factor")
    if val is None or conv is None:
        raise AnalysisError("C11 anchors get_derivative_unit_entry/get_conversion_factor vanished")

    def is_table(e):
        return isinstance(e, ast.Attribute) and e.attr == "derivative_units"
    readers = {}
    for f in prog.functions.values():
        acc = [a for a in mapping_accesses(f, is_table) if a.kind in ("get", "load", "in", "__getitem__", "__contains__")]
        if acc:
            readers[f] = acc
    if val not in readers or conv not in readers:
        raise AnalysisError("R11.1 anchor: the anchored functions no longer read derivative_units by key")
    ctx.floor("R11.1", "functions reading the derived-unit table by key", len(readers), 2)
    sets = {}
    for f, acc in readers.items():
        ctx.saw(f)
        rd = ReachingDefs(f)
        s = set()
        for a in acc:
            ctx.count_sites()
            s |= normalisation(rd, a.key, a.node)
        sets[f] = s
    ref = sets[val]
    for f, s in sets.items():
        if f is val:
            ctx.ok("R11.1", "%s (validation path) probes with %s" % (f.short, sorted(s)), loc(f, f.node))
            continue
        ctx.check(s == ref, "R11.1", f.qualname, readers[f][0].node, loc(f, readers[f][0].node),
                  "%s indexes the derived-unit table with normalisation %s but the validation path (%s) accepts %s: a unit "
                  "spelling that validates (e.g. 'Seconds') is not found when converting" % (f.short, sorted(s), val.short, sorted(ref)),
                  desc="%s probes with the validation path's normalisation set %s" % (f.short, sorted(ref)))
    for f, s in sets.items():
        if "casefold" in s or "lower" in s:
            has_symbol_rule = any(isinstance(x, ast.Attribute) and x.attr == "UnitSymbol" for x in ast.walk(f.node))
            ctx.check(has_symbol_rule, "R11.1", f.qualname, "unit-symbol exception", loc(f, f.node),
                      "%s folds the unit text without the unit-symbol exception: 'M' and 'm' (mega/milli) become the same unit" % f.short,
                      desc="%s applies the unit-symbol exception to the folded probe" % f.short)

    # ---------------- R11.2
    tag = prog.find_class("HedTag")
    entries = [tag.methods.get("value_as_default_unit"), tag.methods.get("default_unit"), conv, val]
    if any(e is None for e in entries):
        raise AnalysisError("R11.2 anchors vanished")
    closure = cg.reachable(entries[:1], ("precise", "prop", "name"))
    scope = [f for f in closure if f.module.name in ("hed.models.hed_tag", "hed.schema.hed_schema_entry")] + \
            [e for e in entries if e not in closure]
    scope = list(dict.fromkeys(scope))
    ctx.floor("R11.2", "functions in the conversion closure", len(scope), 4)
    named = named_sources(ctx, ["UnitEntry.get_conversion_factor", "UnitClassEntry.get_derivative_unit_entry",
                                "HedTag.default_unit", "HedTag.value_as_default_unit"])

    def pred(fi, node):
        r = named(fi, node)
        if r:
            return r
        if isinstance(node, ast.Call) and isinstance(node.func, ast.Attribute) and node.func.attr == "get":
            if len(node.args) == 1 and not node.keywords:
                return "dict.get(key) returns None for a missing key"
            if len(node.args) == 2 and isinstance(node.args[1], ast.Constant) and node.args[1].value is None:
                return "dict.get(key, None) returns None for a missing key"
        return None

    n = check_nullable(ctx, "R11.2", scope, pred, "named nullable results and one-argument dict.get")
    ctx.floor("R11.2", "nullable sources in the conversion closure", n, 4)
