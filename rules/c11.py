"""C11 — units: the validation path and the conversion path normalise unit text identically when
indexing the derived-unit table; no float()/arithmetic/dereference on a possibly absent entry."""
import ast

from sa.callgraph import STRONG_KINDS
from sa.dataflow import ReachingDefs
from sa.model import AnalysisError, call_name, loc, norm, walk_no_nested
from sa.norm import mapping_accesses, normalisation
from sa.null import check_nullable, named_sources

LEVEL_TEXT = ("Static structural proof of necessary conditions: (R11.1) every function that looks a unit text up in a "
              "derived-unit table (validation: UnitClassEntry.get_derivative_unit_entry; conversion: "
              "UnitEntry.get_conversion_factor) probes with the same normalisation set (exact, then case-folded) and "
              "applies the unit-symbol exception; (R11.2) in the closure of HedTag.value_as_default_unit no possibly "
              "absent table entry or conversion result is passed to float(), used arithmetically or dereferenced "
              "without a dominating None test. Which spellings are accepted, numeric values, linearity and prefix "
              "units are NOT decided.")
LEVEL_EXTRA = 'Added after the seeded evaluation: (R11.3) number-then-unit is accepted only for non-prefix units and unit-then-number only for prefix units (complementary tests of unitPrefix); (R11.4) unit and prefix conversion factors are parsed by the same chain; (R11.5) a prefix name is never case-folded. (R11.6) a number obtained with float()/int() is never tested for truthiness. (R11.7) the unit report is reachable when extra words precede a unit; a caret in a conversion factor is read as exponentiation. (R11.8) plural unit forms are derived only on the not-a-unitSymbol branch.'


def _is_prefix_test(prog, x):
    """`...UnitPrefix` itself, or an attribute/method of a repository class that answers with a (non-negated) test of it."""
    if not isinstance(x, ast.Attribute):
        return False
    if x.attr == "UnitPrefix":
        return True
    for h in prog.by_func_name.get(x.attr, []):
        if h.cls is None:
            continue
        rets = [r for r in walk_no_nested(h.node) if isinstance(r, ast.Return) and r.value is not None]
        if len(rets) == 1 and any(isinstance(y, ast.Attribute) and y.attr == "UnitPrefix" for y in ast.walk(rets[0].value)) \
                and not any(isinstance(y, ast.UnaryOp) and isinstance(y.op, ast.Not) for y in ast.walk(rets[0].value)):
            return True
    return False


def run(ctx):
    prog, cg = ctx.prog, ctx.cg
    ctx.rule("R11.1", "validation and conversion look units up with the same normalisation set and the symbol exception")
    ctx.rule("R11.2", "no float()/arithmetic/dereference on a possibly absent unit entry or conversion factor")
    uce = prog.find_class("UnitClassEntry")
    ue = prog.find_class("UnitEntry")
    val = uce.methods.get("get_derivative_unit_entry")
    conv = ue.methods.get("get_conversion_factor")
    if val is None or conv is None:
        raise AnalysisError("C11 anchors get_derivative_unit_entry/get_conversion_factor vanished")

    def is_table(e):
        return isinstance(e, ast.Attribute) and e.attr == "derivative_units"
    readers = {}
    for f in prog.functions.values():
        acc = [a for a in mapping_accesses(f, is_table) if a.kind in ("get", "load", "in", "__getitem__", "__contains__")]
        if acc:
            readers[f] = acc
    if val not in readers or conv not in readers:
        raise AnalysisError("R11.1 anchor: the anchored functions no longer read derivative_units by key")
    ctx.floor("R11.1", "functions reading the derived-unit table by key", len(readers), 2)
    sets = {}
    for f, acc in readers.items():
        ctx.saw(f)
        rd = ReachingDefs(f)
        s = set()
        for a in acc:
            ctx.count_sites()
            s |= normalisation(rd, a.key, a.node)
        sets[f] = s
    ref = sets[val]
    for f, s in sets.items():
        if f is val:
            ctx.ok("R11.1", "%s (validation path) probes with %s" % (f.short, sorted(s)), loc(f, f.node))
            continue
        ctx.check(s == ref, "R11.1", f.qualname, readers[f][0].node, loc(f, readers[f][0].node),
                  "%s indexes the derived-unit table with normalisation %s but the validation path (%s) accepts %s: a unit "
                  "spelling that validates (e.g. 'Seconds') is not found when converting" % (f.short, sorted(s), val.short, sorted(ref)),
                  desc="%s probes with the validation path's normalisation set %s" % (f.short, sorted(ref)))
    for f, s in sets.items():
        if "casefold" in s or "lower" in s:
            has_symbol_rule = any(isinstance(x, ast.Attribute) and x.attr == "UnitSymbol" for x in ast.walk(f.node))
            ctx.check(has_symbol_rule, "R11.1", f.qualname, "unit-symbol exception", loc(f, f.node),
                      "%s folds the unit text without the unit-symbol exception: 'M' and 'm' (mega/milli) become the same unit" % f.short,
                      desc="%s applies the unit-symbol exception to the folded probe" % f.short)

    # ---------------- R11.3: number/unit order is tied to the unit's prefix attribute in both directions
    ctx.rule("R11.3", "`<number> <unit>` is accepted only for non-prefix units and `<unit> <number>` only for prefix units")
    tag = prog.find_class("HedTag")
    gup = tag.methods.get("_get_tag_units_portion")
    if gup is None:
        raise AnalysisError("anchor HedTag._get_tag_units_portion vanished")
    ctx.saw(gup)
    from sa.dom import view
    vg = view(ctx, gup)
    rets = [n for n in vg.cfg.nodes if n.kind == "stmt" and isinstance(n.ast, ast.Return) and isinstance(n.ast.value, ast.Tuple)
            and not all(isinstance(e, ast.Constant) and e.value is None for e in n.ast.value.elts)]
    ctx.floor("R11.3", "accepting returns in _get_tag_units_portion", len(rets), 2)
    pol = []
    from sa.null import parent_map
    pm = parent_map(gup.node)
    for r in rets:
        # the innermost `if` around the return must be the one that tests the unitPrefix attribute
        cur, enclosing, in_body = r.ast, None, True
        while id(cur) in pm:
            par = pm[id(cur)]
            if isinstance(par, ast.If):
                enclosing = par
                in_body = any(cur is x for x in par.body)
                break
            cur = par
        has = enclosing is not None and any(_is_prefix_test(prog, x) for x in ast.walk(enclosing.test))
        if not has:
            ctx.violation("R11.3", gup.qualname, r.ast, loc(gup, r.ast),
                          "this accepting return is not directly guarded by a test of the unit's unitPrefix attribute: a unit is "
                          "accepted on the wrong side of the number (e.g. `Distance/cm 3`)")
            continue
        negated = any(isinstance(x, ast.UnaryOp) and isinstance(x.op, ast.Not) and any(_is_prefix_test(prog, y) for y in ast.walk(x.operand))
                      for x in ast.walk(enclosing.test))
        required = in_body != negated
        pol.append(required)
        ctx.ok("R11.3", "return `%s` requires unitPrefix=%s" % (norm(r.ast.value)[:40], required), loc(gup, r.ast))
    if len(pol) >= 2:
        ctx.check(True in pol and False in pol, "R11.3", gup.qualname, "complementary unitPrefix tests", loc(gup, gup.node),
                  "the two accepting branches do not test the unitPrefix attribute with opposite polarity", desc="branches are complementary")

    # ---------------- R11.4: every conversion-factor text is parsed the same way
    ctx.rule("R11.4", "unit and prefix conversion factors are read and normalised by the same chain before float()")
    gcf = ue.methods.get("_get_conversion_factor")
    if gcf is None:
        raise AnalysisError("anchor UnitEntry._get_conversion_factor vanished")
    ctx.saw(gcf)
    # every expression that reads a declared ConversionFactor, with the way it is turned into a number:
    # signature = (names of the calls wrapped around the read, outermost first; how the attribute is read)
    reads = []
    pmf = {}
    for p_ in ast.walk(gcf.node):
        for ch in ast.iter_child_nodes(p_):
            pmf[id(ch)] = p_
    for x in walk_no_nested(gcf.node):
        if isinstance(x, ast.Attribute) and x.attr == "ConversionFactor":
            # climb to the outermost expression of the statement
            cur, wrappers, reader = x, [], None
            while id(cur) in pmf and not isinstance(pmf[id(cur)], ast.stmt):
                par = pmf[id(cur)]
                if isinstance(par, ast.Call):
                    nm = call_name(par)
                    if any(cur is a_ or any(cur is y for y in ast.walk(a_)) for a_ in list(par.args) + [k.value for k in par.keywords]):
                        if reader is None:
                            reader = (nm, tuple(sorted(k.arg for k in par.keywords if k.arg)),
                                      tuple(a_.value if isinstance(a_, ast.Constant) else "?" for a_ in par.args[1:]))
                        else:
                            wrappers.append(nm)
                    else:
                        wrappers.append(nm)          # a method called on the value read (e.g. .replace(...))
                elif isinstance(par, ast.BoolOp):
                    wrappers.append("or/and")
                cur = par
            reads.append((x, tuple(wrappers), reader))
    ctx.floor("R11.4", "reads of a declared ConversionFactor in _get_conversion_factor", len(reads), 2)
    for x, wr, rd_ in reads:
        ctx.check((wr, rd_) == (reads[0][1], reads[0][2]), "R11.4", gcf.qualname, x, loc(gcf, x),
                  "this conversion factor is read with %s and turned into a number by %s, the other one with %s / %s: a factor written "
                  "`10^6` is understood for one and silently falls back to 1.0 (or another value) for the other" % (
                      rd_, list(wr), reads[0][2], list(reads[0][1])), desc="factor read by %s, parsed by %s" % (rd_, list(wr)))

    # a caret is exponentiation: rewriting it into an `e` turns 10^6 (a million) into 10e6 (ten million)
    n_caret = 0
    for f in ue.all_methods:
        for c in walk_no_nested(f.node):
            if isinstance(c, ast.Call) and isinstance(c.func, ast.Attribute) and c.func.attr == "replace" and len(c.args) >= 2 and \
                    isinstance(c.args[0], ast.Constant) and c.args[0].value == "^":
                n_caret += 1
                ctx.check(not (isinstance(c.args[1], ast.Constant) and str(c.args[1].value).lower() == "e"), "R11.4", f.qualname, c, loc(f, c),
                          "the declared factor `10^6` is rewritten to `10e6` before float(): that is 10·10⁶, ten times the declared value, "
                          "for every prefix from mega up and from micro down (`Distance/3 Mm` = 3e7 m)", desc="caret read as exponentiation")
    ctx.ok("R11.4", "%d textual caret rewrites in the unit entry code" % n_caret, "")

    # ---------------- R11.7: extra words between the number and the unit are a unit fault even when the last word is a unit
    ctx.rule("R11.7", "the unit report is reached whenever the value text has extra words (the `bad_units` flag), not only when no unit was found")
    uvv = prog.find_class("UnitValueValidator")
    ctu = uvv.methods.get("check_tag_unit_class_units_are_valid")
    if ctu is None:
        raise AnalysisError("anchor UnitValueValidator.check_tag_unit_class_units_are_valid vanished")
    ctx.saw(ctu)
    v11 = view(ctx, ctu)
    rd11 = ReachingDefs(ctu)
    # the flag: a local assigned from a blank-membership test (`" " in <value>`)
    flags = [st.targets[0].id for st in walk_no_nested(ctu.node) if isinstance(st, ast.Assign) and isinstance(st.targets[0], ast.Name)
             and isinstance(st.value, ast.Compare) and isinstance(st.value.ops[0], ast.In) and isinstance(st.value.left, ast.Constant)
             and st.value.left.value == " "]
    reports = [(n_, c) for (n_, c) in v11.calls(lambda c: call_name(c) == "_check_units")]
    ctx.floor("R11.7", "unit reports in check_tag_unit_class_units_are_valid", len(reports), 1)
    if not flags:
        raise AnalysisError("R11.7 anchor: no 'value has extra words' flag in check_tag_unit_class_units_are_valid")
    pm11 = {}
    for p_ in ast.walk(ctu.node):
        for ch in ast.iter_child_nodes(p_):
            pm11[id(ch)] = p_
    for n_, c in reports:
        cur, inner = c, None
        while id(cur) in pm11:
            par = pm11[id(cur)]
            if isinstance(par, ast.If) and any(cur is b or any(cur is y for y in ast.walk(b)) for b in par.body):
                inner = par
                break
            cur = par
        # the innermost test that mentions the unit found (or the flag) decides
        tests = []
        cur = c
        while id(cur) in pm11:
            par = pm11[id(cur)]
            if isinstance(par, ast.If):
                tests.append(par.test)
            cur = par
        unit_vars = [st.targets[0].elts[1].id for st in walk_no_nested(ctu.node) if isinstance(st, ast.Assign)
                     and isinstance(st.targets[0], ast.Tuple) and len(st.targets[0].elts) >= 2 and isinstance(st.targets[0].elts[1], ast.Name)
                     and isinstance(st.value, ast.Call) and call_name(st.value) == "get_stripped_unit_value"]
        relevant = [t for t in tests if any(isinstance(x, ast.Name) and x.id in flags + unit_vars for x in ast.walk(t))]
        ok = not relevant or any(isinstance(x, ast.Name) and x.id in flags for t in relevant for x in ast.walk(t))
        ctx.check(ok, "R11.7", ctu.qualname, c, loc(ctu, c),
                  "the unit report is made only under `%s`, which does not consult the extra-words flag `%s`: `Weight/3 xyz g` (junk between "
                  "the number and a valid last word) validates with no issue although `xyz g` is not a unit" % (
                      norm(relevant[0])[:40] if relevant else "", flags[0]), desc="unit report reachable for extra words before a unit")

    # ---------------- R11.5: prefixes are case-sensitive (m = milli, M = mega): their names are never case-folded
    ctx.rule("R11.5", "the name of an SI prefix (unit modifier) is used exactly as declared, never case-folded")
    n_iter = 0
    for f in ue.all_methods:
        targets = set()
        for n in ast.walk(f.node):
            it = None
            if isinstance(n, ast.For):
                it = (n.target, n.iter)
            elif isinstance(n, ast.comprehension):
                it = (n.target, n.iter)
            if it and any(isinstance(x, ast.Attribute) and x.attr == "unit_modifiers" for x in ast.walk(it[1])):
                targets |= {x.id for x in ast.walk(it[0]) if isinstance(x, ast.Name)}
                n_iter += 1
        if not targets:
            continue
        ctx.saw(f)
        for c in ast.walk(f.node):
            if isinstance(c, ast.Call) and isinstance(c.func, ast.Attribute) and c.func.attr in ("lower", "casefold", "upper", "title", "capitalize") \
                    and any(isinstance(x, ast.Attribute) and x.attr == "name" and isinstance(x.value, ast.Name) and x.value.id in targets
                            for x in ast.walk(c.func.value)):
                ctx.violation("R11.5", f.qualname, c, loc(f, c),
                              "a prefix name is case-folded (`%s`): prefixes that differ only in case (`m` milli / `M` mega, "
                              "`p` pico / `P` peta) become the same key, so one of them gets the other's factor or is lost"
                              % norm(c)[:50])
        ctx.ok("R11.5", "%s: prefix names of %s used as declared" % (f.short, sorted(targets)), loc(f, f.node))
    ctx.floor("R11.5", "iterations over a unit's prefixes", n_iter, 1)

    # ---------------- R11.6: zero is a number
    ctx.rule("R11.6", "a value converted with float()/int() is never tested for truthiness (0 is a valid number)")

    def truthy_names(t):
        if isinstance(t, ast.Name):
            return [t]
        if isinstance(t, ast.BoolOp):
            return [y for v_ in t.values for y in truthy_names(v_)]
        if isinstance(t, ast.UnaryOp) and isinstance(t.op, ast.Not):
            return truthy_names(t.operand)
        return []
    n_num = 0
    for f in prog.functions.values():
        if f.module.name not in ("hed.models.hed_tag", "hed.schema.hed_schema_entry", "hed.validator.util.class_util"):
            continue
        convs = [x for x in walk_no_nested(f.node) if isinstance(x, ast.Assign) and isinstance(x.value, ast.Call)
                 and isinstance(x.value.func, ast.Name) and x.value.func.id in ("float", "int")]
        n_num += sum(1 for x in walk_no_nested(f.node) if isinstance(x, ast.Call) and isinstance(x.func, ast.Name) and x.func.id in ("float", "int"))
        if not convs:
            continue
        rdf = ReachingDefs(f)
        for x in walk_no_nested(f.node):
            tests = [x.test] if isinstance(x, (ast.If, ast.While, ast.IfExp, ast.Assert)) else []
            for t in tests:
                for nm in truthy_names(t):
                    defs = rdf.at(x if isinstance(x, ast.stmt) else nm, nm.id) or []
                    if any(d.kind == "assign" and any(d.node is c_ for c_ in convs) for d in defs):
                        ctx.saw(f)
                        ctx.violation("R11.6", f.qualname, t, loc(f, x),
                                      "`%s` holds the result of float()/int() and is tested for truthiness in `%s`: the number 0 takes the "
                                      "'no value' branch, so `Distance/0 m` has no value in default units and the conversion is not linear"
                                      % (nm.id, norm(t)[:50]))
    ctx.ok("R11.6", "%d float()/int() conversions in the unit code: no converted number is tested for truthiness" % n_num, "")
    ctx.floor("R11.6", "numeric conversions in the unit code", n_num, 3)

    # ---------------- R11.2
    entries = [tag.methods.get("value_as_default_unit"), tag.methods.get("default_unit"), conv, val]
    if any(e is None for e in entries):
        raise AnalysisError("R11.2 anchors vanished")
    closure = cg.reachable(entries[:1], ("precise", "prop", "name"))
    scope = [f for f in closure if f.module.name in ("hed.models.hed_tag", "hed.schema.hed_schema_entry")] + \
            [e for e in entries if e not in closure]
    scope = list(dict.fromkeys(scope))
    ctx.floor("R11.2", "functions in the conversion closure", len(scope), 4)
    named = named_sources(ctx, ["UnitEntry.get_conversion_factor", "UnitClassEntry.get_derivative_unit_entry",
                                "HedTag.default_unit", "HedTag.value_as_default_unit"])

    def pred(fi, node):
        r = named(fi, node)
        if r:
            return r
        if isinstance(node, ast.Call) and isinstance(node.func, ast.Attribute) and node.func.attr == "get":
            if len(node.args) == 1 and not node.keywords:
                return "dict.get(key) returns None for a missing key"
            if len(node.args) == 2 and isinstance(node.args[1], ast.Constant) and node.args[1].value is None:
                return "dict.get(key, None) returns None for a missing key"
        return None

    n = check_nullable(ctx, "R11.2", scope, pred, "named nullable results and one-argument dict.get")
    ctx.floor("R11.2", "nullable sources in the conversion closure", n, 4)

    # ---------------- R11.8: only unit NAMES have plural forms; a unit symbol is accepted exactly as declared
    ctx.rule("R11.8", "plural unit forms are derived only on the branch where the unit is not a unitSymbol")
    fe118 = ue.methods.get("finalize_entry")
    if fe118 is None:
        raise AnalysisError("anchor UnitEntry.finalize_entry vanished")
    ctx.saw(fe118)
    from sa.dom import view as _view118, mentions as _m118
    scope118 = [fe118] + sorted((h for h in cg.reachable([fe118], STRONG_KINDS) if h.cls is ue and h is not fe118), key=lambda h: h.qualname)
    plurals = []
    for h in scope118:
        vh = _view118(ctx, h)
        plurals += [(h, vh, n_, c) for (n_, c) in vh.calls(lambda c: call_name(c) in ("plural", "pluralize"))]
    ctx.floor("R11.8", "plural derivations in UnitEntry.finalize_entry", len(plurals), 1)
    for h, vh, n_, c in plurals:
        ctx.saw(h)
        ok118 = False
        for cnd in vh.conds(lambda t: _m118(t, "UnitSymbol")):
            neg = norm(cnd.ast).startswith("not ")
            for lab in (True, False):
                if vh.edge_guards(cnd, lab, n_) and (lab is True) == neg:
                    ok118 = True
        ctx.check(ok118, "R11.8", h.qualname, c, loc(h, c),
                  "a plural form is derived without being on the not-a-unitSymbol branch: pluralised symbols (`ss`, `ms` for metre, "
                  "`gs`) become accepted units of their class, so a wrong unit is no longer reported (and `ms` becomes ambiguous)",
                  desc="plural only for unit names")
