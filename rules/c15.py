"""C15 — search: never writes to annotation objects, the compiled query is immutable during
search, every opening symbol's parse branch closes or raises, trailing tokens are rejected."""
import ast

from sa.dom import view, mentions
from sa.effects import check_no_mutation
from sa.model import AnalysisError, call_name, loc, norm, walk_no_nested

LEVEL_TEXT = ("Static structural proof of necessary conditions: (R15.1) alias-based effect analysis over QueryHandler.search, "
              "every handle_expr implementation, the result-merging helpers and the HedGroup find_*/get_all_* accessors "
              "shows no mutation of the annotation parameter, of its parts, or of the SearchResult inputs; (R15.2) none of "
              "them stores to self.* of an expression, token or handler (the compiled query is immutable while searching); "
              "(R15.3) in the grouping parser each branch taken on an opening symbol reaches its end only through a test "
              "of the matching closing token whose failing edge raises, and _parse raises when tokens remain. Matching "
              "semantics, the algebraic laws and sibling-order invariance are NOT decided.")
LEVEL_EXTRA = 'Added after the seeded evaluation: (R15.3) every opening grouping token, including the exact-match form, tests its closing token and raises, and the token fetcher raises past the end; (R15.4) search results are merged and compared by object identity, never by tag equality. Added after the hunting pass: (R15.4) also the groups of two results are compared by identity; (R15.5) every fixed-text alternative of the tokenizer pattern has a kind in the Token table. (R15.6) the element-wise zip comparison of two results is dominated by a length comparison; (R15.7) the tokenizer builds one Token per occurrence. (R15.8) a bare term is tested against the schema-path terms of the tag. (R15.9) the star prefix is tested on the short form; (R15.10) the batch interface marks a row on the search result of that same row. (R15.11) a parameter is handed on to every repository callee that takes a parameter of the same name (11 frozen exceptions package-wide). (R15.12) no break leaves a loop of the query modules whose body adds to the returned list.'

ACCESSORS = ["find_tags", "find_wildcard_tags", "find_exact_tags", "find_def_tags", "find_tags_with_term",
             "get_all_tags", "get_all_groups", "tags", "groups", "find_placeholder_tag"]


def run(ctx):
    prog, cg = ctx.prog, ctx.cg
    ctx.rule("R15.1", "search never mutates the annotation, its parts or the search results it is handed")
    ctx.rule("R15.2", "nothing reachable from search stores to self.* of expressions, tokens or the handler")
    ctx.rule("R15.3", "each opening grouping symbol's parse branch tests the closing token and raises; trailing tokens rejected")
    qh = prog.find_class("QueryHandler")
    expr = prog.find_class("Expression")
    search = qh.methods.get("search")
    if search is None:
        raise AnalysisError("anchor QueryHandler.search vanished")
    handlers = []
    for c in [expr] + expr.all_subclasses():
        if "handle_expr" in c.methods:
            handlers.append(c.methods["handle_expr"])
    ctx.floor("R15.1", "handle_expr implementations", len(handlers), 6)
    helpers = []
    for c in [expr] + expr.all_subclasses():
        for m in c.methods.values():
            if m.name not in ("handle_expr", "__init__", "__str__") and m not in helpers:
                helpers.append(m)
    sr = prog.find_class("SearchResult")
    for m in sr.methods.values():
        if m.name not in ("__init__", "__str__"):
            helpers.append(m)
    hg = prog.find_class("HedGroup")
    accessors = [hg.methods[a] for a in ACCESSORS if a in hg.methods]
    ctx.floor("R15.1", "HedGroup accessors used by search", len(accessors), 8)
    service = [f for f in prog.functions.values() if f.module.name.endswith("query_service") and f.name == "search_hed_objs"]

    def forbid_annotation(fi, o):
        if o[0] == "P" and o[1] not in ("self", "cls"):
            return True
        return False

    def forbid_self(fi, o):
        return o[0] == "S" or o == ("P", "self")
    n = check_no_mutation(ctx, "R15.1", [search] + handlers + helpers + service, forbid_annotation,
                          "the annotation / search-result objects it is handed",
                          "searching alters the annotation (or the partial results), so repeated searches disagree")
    check_no_mutation(ctx, "R15.1", accessors, forbid_self, "the group it searches",
                      "a find_*/get_all_* accessor used by search changes the annotation tree")
    check_no_mutation(ctx, "R15.2", [search] + handlers + [h for h in helpers if not h.is_static], forbid_self,
                      "the compiled query (self.* of the expression / handler)",
                      "the compiled query changes while searching, so the next search can give a different answer")

    # ---------------- R15.4: partial results are merged by object identity
    ctx.rule("R15.4", "search results are merged / compared by object identity, never by tag equality")
    mergers = [m for m in sr.methods.values() if m.name in ("merge_and_result", "has_same_tags")] + \
        [m for m in helpers if m.name == "merge_and_groups"]
    ctx.floor("R15.4", "result-merging functions", len(mergers), 2)
    n_id = 0
    for m in mergers:
        ctx.saw(m)
        for c in walk_no_nested(m.node):
            if isinstance(c, ast.Compare):
                ops = c.ops
                involved = norm(c)
                if any(isinstance(o, (ast.In, ast.NotIn)) for o in ops) and ".tags" in norm(c.comparators[0]):
                    ctx.violation("R15.4", m.qualname, c, loc(m, c),
                                  "membership in a result's tag list is tested with `in` (tag equality): two distinct but "
                                  "equal-looking tags collapse into one, so `A && A` can be satisfied by a single tag or a "
                                  "distinct sibling is dropped from the merged result")
                elif any(isinstance(o, (ast.Is, ast.IsNot)) for o in ops):
                    n_id += 1
                elif any(isinstance(o, (ast.Eq, ast.NotEq)) for o in ops) and "tag" in involved and "group" not in involved \
                        and "len(" not in involved:
                    ctx.violation("R15.4", m.qualname, c, loc(m, c),
                                  "tags of two results are compared with == (equality) instead of identity")
                elif any(isinstance(o, (ast.Eq, ast.NotEq)) for o in ops) and norm(c.left).endswith(".group") \
                        and norm(c.comparators[0]).endswith(".group") and not _only_guards_raise(m, c):
                    ctx.violation("R15.4", m.qualname, c, loc(m, c),
                                  "the groups of two results are compared with ==/!= (structural, order-sensitive equality) instead "
                                  "of identity: results found in two different but equal-looking sibling groups count as the same "
                                  "result and one is dropped, so the answer changes when siblings are reordered")
    ctx.floor("R15.4", "identity comparisons in the merging functions", n_id, 3)
    ctx.ok("R15.4", "%d identity comparisons, no equality/membership test on tag lists in %d merging functions" % (n_id, len(mergers)), "")

    # ---------------- R15.5: every symbol the tokenizer splits off is a symbol the token table knows
    ctx.rule("R15.5", "every literal alternative of the tokenizer's pattern is a key of the Token kind table")
    tok = qh.methods.get("_tokenize")
    tcls = prog.find_class("Token")
    tinit = tcls.methods.get("__init__")
    if tok is None or tinit is None:
        raise AnalysisError("R15.5 anchors QueryHandler._tokenize / Token.__init__ vanished")
    ctx.saw(tok)
    ctx.saw(tinit)
    keys = set()
    # the table: a dict display in the constructor, or a class / module constant the constructor reads
    cands = [d for d in walk_no_nested(tinit.node) if isinstance(d, ast.Dict)]
    for x in walk_no_nested(tinit.node):
        if isinstance(x, ast.Attribute) and isinstance(x.ctx, ast.Load) and isinstance(tcls.attrs.get(x.attr), ast.Dict):
            cands.append(tcls.attrs[x.attr])
        elif isinstance(x, ast.Name) and isinstance(x.ctx, ast.Load) and isinstance(tinit.module.assigns.get(x.id), ast.Dict):
            cands.append(tinit.module.assigns[x.id])
    for d in cands:
        if d.keys and all(isinstance(k, ast.Constant) and isinstance(k.value, str) for k in d.keys):
            keys |= {k.value for k in d.keys}
    ctx.floor("R15.5", "symbols in the Token kind table", len(keys), 12)
    pattern, pnode = _folded_pattern(tok)
    if pattern is None:
        raise AnalysisError("R15.5: the tokenizer's pattern is no longer a constant-foldable string")
    lits = _literal_alternatives(pattern)
    ctx.floor("R15.5", "literal alternatives in the tokenizer's pattern", len(lits), 10)
    for lit in sorted(lits):
        ctx.check(lit in keys, "R15.5", tok.qualname, "alternative %r" % lit, loc(tok, pnode),
                  "the tokenizer splits off %r as one token but the Token table has no kind for it, so it becomes an ordinary "
                  "search term: unbalanced text such as %r compiles, and balanced nested brackets written without a blank "
                  "are rejected" % (lit, lit), desc="alternative %r has a token kind" % lit)

    # ---------------- R15.3
    gp = qh.methods.get("_handle_grouping_op")
    parse = qh.methods.get("_parse")
    tok = prog.find_class("Token")
    if gp is None or parse is None:
        raise AnalysisError("R15.3 anchors _handle_grouping_op/_parse vanished")
    ctx.saw(gp, parse)
    consts = set(tok.attrs)
    openers = sorted(k for k in consts if (k + "End") in consts)
    ctx.floor("R15.3", "opening grouping tokens", len(openers), 3)
    v = view(ctx, gp)
    for op in openers:
        conds = [c for c in v.conds(lambda t, op=op: isinstance(t, ast.Compare) and any(
            isinstance(x, ast.Attribute) and x.attr == op for x in ast.walk(t)))]
        if not conds:
            ctx.violation("R15.3", gp.qualname, "branch for Token." + op, loc(gp, gp.node),
                          "the grouping parser has no branch for the opening symbol Token.%s" % op)
            continue
        for c in conds:
            ifn = c.extra
            body_nodes = {id(x) for b in ifn.body for x in ast.walk(b)}
            closers = [k for k in v.conds(lambda t: True) if id(k.ast) in body_nodes and "raise" in v.leaves(k, True) and (
                any(isinstance(x, ast.Attribute) and x.attr.startswith(op) and x.attr != op for x in ast.walk(k.ast))
                or (isinstance(k.ast, ast.Compare) and any(isinstance(x, ast.Constant) and x.value is None for x in ast.walk(k.ast)))
            )]
            starts = [m for (m, l) in v.cfg.succ[c] if l is True]
            ok = bool(closers)
            if ok:
                seen, stack = set(), list(starts)
                avoid = set(closers)
                while stack and ok:
                    x = stack.pop()
                    if x in seen or x in avoid:
                        continue
                    if x is v.cfg.exit:
                        ok = False
                    seen.add(x)
                    stack.extend(m for (m, l) in v.cfg.succ[x] if l != "exc")
            # ... and the test must come after the *last* fetch of a closing token in the branch (a check hoisted
            # before the optional part no longer sees the token that ends the group)
            if ok:
                fetches = [k for k in v.cfg.nodes if k.kind == "stmt" and id(k.ast) in body_nodes and isinstance(k.ast, ast.Assign)
                           and isinstance(k.ast.value, ast.Call) and call_name(k.ast.value) == "_next_token_is"
                           and any(isinstance(x, ast.Attribute) and x.attr == op + "End" for x in ast.walk(k.ast.value))]
                for fch in fetches:
                    if not v.every_path_to_exit_passes(fch, closers):
                        ok = False
            ctx.count_paths()
            ctx.check(ok, "R15.3", gp.qualname, "closing test for Token." + op, loc(gp, c.ast),
                      "the branch for the opening symbol Token.%s can finish without a test of the closing token that "
                      "raises: a query with an unbalanced %s is accepted instead of rejected" % (op, op),
                      desc="branch Token.%s closes or raises" % op)
    # a closing symbol in term position is rejected, not taken as a search term
    # (the term branch may live in a private helper of the parser that does not recurse back into it)
    from sa.callgraph import STRONG_KINDS as _SK15
    term_funcs = [gp] + [f_ for f_ in cg.reachable([gp], _SK15) if f_ is not gp and f_.cls is qh and gp not in cg.reachable([f_], _SK15)]
    terms = []
    for tf in term_funcs:
        vt = view(ctx, tf)
        terms += [(tf, vt, n_, c) for (n_, c) in vt.calls(lambda c: call_name(c) == "Expression")]
    ctx.floor("R15.3", "plain-term constructions in the grouping parser", len(terms), 1)
    for tf, vt, n_, c in terms:
        ctx.saw(tf)
        need = [op + "End" for op in openers]
        g = vt.guard_for(n_, lambda t: all(any(isinstance(x, ast.Attribute) and x.attr == k for x in ast.walk(t)) for k in need),
                         want_leave=("raise",))
        g2 = vt.guard_for(n_, lambda t: any(isinstance(x, ast.Attribute) and x.attr == "Tag" for x in ast.walk(t)) and
                          any(isinstance(x, ast.Attribute) and x.attr == "kind" for x in ast.walk(t)))
        ok = g is not None or (g2 is not None and g2[1] is True)
        ctx.check(ok, "R15.3", tf.qualname, c, loc(tf, c),
                  "a token in term position becomes a search term whatever its kind: a stray closing symbol (`]`, `)`, `}`, "
                  "`a && )`) compiles instead of being rejected as unbalanced", desc="closing symbols rejected in term position")
    vp = view(ctx, parse)
    rets = [n_ for n_ in vp.cfg.nodes if n_.kind == "stmt" and isinstance(n_.ast, ast.Return)]
    for r in rets:
        g = vp.guard_for(r, lambda t: mentions(t, "at_token") and mentions(t, "tokens"), want_leave=("raise",))
        ctx.check(g is not None, "R15.3", parse.qualname, r.ast, loc(parse, r.ast),
                  "_parse returns without the 'all tokens consumed' test and its raise: trailing tokens (e.g. a stray "
                  "closing bracket) are silently ignored", desc="trailing-token test with raise dominates the return")
    # the token fetcher raises past the end (so a missing operand is a parse error, not an IndexError/None)
    gnt = qh.methods.get("_get_next_token")
    if gnt is not None:
        vg = view(ctx, gnt)
        subs = [n_ for n_ in vg.cfg.nodes if n_.kind == "stmt" and isinstance(n_.ast, ast.Return)]
        for r in subs:
            g = vg.guard_for(r, lambda t: mentions(t, "at_token") and mentions(t, "tokens"), want_leave=("raise",))
            ctx.check(g is not None, "R15.3", gnt.qualname, r.ast, loc(gnt, r.ast),
                      "_get_next_token indexes the token list without the end-of-input test and its raise",
                      desc="end-of-input raises the parse error")

    # ---------------- R15.6: an element-wise identity test over zip() is an equality test only with equal lengths
    ctx.rule("R15.6", "all(... for a, b in zip(X, Y)) in the result comparison is dominated by a length comparison of X and Y that leaves")
    n_zip = 0
    for m in mergers:
        vz = view(ctx, m)
        for (n_, c) in vz.calls(lambda c: call_name(c) == "all" and c.args and isinstance(c.args[0], ast.GeneratorExp)):
            gens = c.args[0].generators
            z = gens[0].iter if gens else None
            if not (isinstance(z, ast.Call) and call_name(z) == "zip" and len(z.args) == 2):
                continue
            n_zip += 1
            xs = [norm(a) for a in z.args]

            def length_test(t):
                txt = norm(t)
                return all("len(%s)" % x in txt for x in xs) and any(isinstance(y, ast.Compare) and isinstance(y.ops[0], (ast.Eq, ast.NotEq))
                                                                     for y in ast.walk(t))
            g = vz.guard_for(n_, length_test)
            if g is None:
                # the same domination by short-circuit: an earlier operand of the enclosing and/or chain
                for b in ast.walk(m.node):
                    if isinstance(b, ast.BoolOp):
                        for i, operand in enumerate(b.values):
                            if any(x is c for x in ast.walk(operand)):
                                for prev in b.values[:i]:
                                    want = ast.Eq if isinstance(b.op, ast.And) else ast.NotEq
                                    if length_test(prev) and isinstance(prev, ast.Compare) and isinstance(prev.ops[0], want):
                                        g = prev
            ctx.check(g is not None, "R15.6", m.qualname, c, loc(m, c),
                      "zip stops at the shorter list: without the length comparison a result whose tags are a prefix of another's counts "
                      "as the same result and is dropped from the merged list", desc="length comparison dominates the element-wise test")
    ctx.floor("R15.6", "element-wise zip comparisons in the merging functions", n_zip, 1)

    # ---------------- R15.7: one Token object per occurrence (Expression.__init__ edits the text of the token it is given)
    ctx.rule("R15.7", "the tokenizer builds a fresh Token for every occurrence in the text")
    edits_token = any(isinstance(a, (ast.Assign, ast.AugAssign)) and any(
        isinstance(t, ast.Attribute) and isinstance(t.value, ast.Name) and t.value.id == "token"
        for t in (a.targets if isinstance(a, ast.Assign) else [a.target])) for a in ast.walk(expr.methods["__init__"].node))
    tkz = qh.methods.get("_tokenize")
    fresh, other = 0, []
    for x in ast.walk(tkz.node):
        if isinstance(x, (ast.ListComp, ast.GeneratorExp)):
            if isinstance(x.elt, ast.Call) and call_name(x.elt) == "Token":
                fresh += 1
            elif any(isinstance(y, ast.Call) and call_name(y) == "Token" for y in ast.walk(x)) or \
                    any(isinstance(y, ast.Subscript) for y in ast.walk(x.elt)):
                other.append(x)
        elif isinstance(x, ast.DictComp) and any(isinstance(y, ast.Call) and call_name(y) == "Token" for y in ast.walk(x)):
            other.append(x)
        elif isinstance(x, ast.Call) and call_name(x) == "map" and x.args and norm(x.args[0]) == "Token":
            fresh += 1
        elif isinstance(x, ast.Call) and call_name(x) == "append" and x.args and isinstance(x.args[0], ast.Call) \
                and call_name(x.args[0]) == "Token":
            fresh += 1
    for x in other:
        ctx.check(not edits_token, "R15.7", tkz.qualname, x, loc(tkz, x),
                  "Token objects are shared between occurrences of the same text, while Expression.__init__ rewrites the text of "
                  "the token it is given (quotes, trailing *): `\"Red\" && Red` or `Re* && Re*` then search with the rewritten text "
                  "in the wrong mode", desc="no Token shared between occurrences")
    ctx.floor("R15.7", "per-occurrence Token constructions in the tokenizer", fresh + len(other), 1)
    if not other:
        ctx.ok("R15.7", "%d per-occurrence Token construction(s), none shared (Expression.__init__ edits its token: %s)" % (fresh, edits_token), loc(tkz, tkz.node))

    # ---------------- R15.8: a bare term is matched against the schema path of the tag, not against its text
    ctx.rule("R15.8", "find_tags_with_term tests membership in the tag's schema-path terms")
    ftt = hg.methods.get("find_tags_with_term")
    if ftt is None:
        raise AnalysisError("anchor HedGroup.find_tags_with_term vanished")
    ctx.saw(ftt)
    from sa.dataflow import ReachingDefs as _RD15, depends_on as _dep15
    rd8 = _RD15(ftt)
    tests8 = [c for c in walk_no_nested(ftt.node) if isinstance(c, ast.Compare) and len(c.ops) == 1 and isinstance(c.ops[0], (ast.In, ast.NotIn))]
    ctx.floor("R15.8", "term membership tests in find_tags_with_term", len(tests8), 1)
    for c in tests8:
        ok = _dep15(rd8, c.comparators[0], c, lambda x: isinstance(x, ast.Attribute) and x.attr == "tag_terms")
        ctx.check(ok, "R15.8", ftt.qualname, c, loc(ftt, c),
                  "the term is looked for in something other than the tag's schema-path terms: value and extension text then counts as a "
                  "term, so `Face` matches `Label/Face` and `~Face` stops matching it", desc="term tested against tag_terms")

    # ---------------- R15.9: a trailing-star term is a prefix of the short form
    ctx.rule("R15.9", "find_wildcard_tags tests the prefix on the tag's short form")
    fwt = hg.methods.get("find_wildcard_tags")
    if fwt is None:
        raise AnalysisError("anchor HedGroup.find_wildcard_tags vanished")
    ctx.saw(fwt)
    rd9 = _RD15(fwt)
    sw = [c for c in walk_no_nested(fwt.node) if isinstance(c, ast.Call) and call_name(c) == "startswith"]
    ctx.floor("R15.9", "prefix tests in find_wildcard_tags", len(sw), 1)
    for c in sw:
        ok = _dep15(rd9, c.func.value, c, lambda x: isinstance(x, ast.Attribute) and x.attr == "short_tag")
        ctx.check(ok, "R15.9", fwt.qualname, c, loc(fwt, c),
                  "the prefix is tested on something other than the tag's short form: for an annotation written in long form "
                  "(`Event/Sensory-event`) `Sens*` stops matching and `Eve*` matches", desc="prefix tested on short_tag")

    # ---------------- R15.10: the batch interface decides each row on that row's own search
    ctx.rule("R15.10", "in search_hed_objs the result that marks a row is computed in the same iteration")
    from sa.dom import loop_fresh
    for sf in service:
        ctx.saw(sf)
        vs = view(ctx, sf)
        marks = [n_ for n_ in vs.cfg.nodes if n_.kind == "stmt" and isinstance(n_.ast, ast.Assign)
                 and any(isinstance(t, ast.Subscript) and isinstance(t.value, ast.Attribute) and t.value.attr in ("at", "loc", "iat", "iloc")
                         for t in n_.ast.targets)]
        ctx.floor("R15.10", "row-marking stores in search_hed_objs", len(marks), 1)
        for mk in marks:
            for cond in vs.conds():
                for lab in (True, False):
                    if vs.edge_guards(cond, lab, mk):
                        for nm in {x.id for x in ast.walk(cond.ast) if isinstance(x, ast.Name)}:
                            defs = [d for d in ast.walk(sf.node) if isinstance(d, ast.Assign) and any(isinstance(t, ast.Name) and t.id == nm for t in d.targets)
                                    and isinstance(d.value, ast.Call) and call_name(d.value) == "search"]
                            if not defs:
                                continue
                            ctx.check(loop_fresh(vs, cond, nm), "R15.10", sf.qualname, cond.ast, loc(sf, cond.ast),
                                      "`%s` tested for this row may still hold the search result of an earlier row (it is not assigned on "
                                      "every path of the iteration): an empty entry after a matching row is reported as a match" % nm,
                                      desc="`%s` is this row's own result" % nm)

    # ---------------- R15.11: parameters are handed on to same-named parameters of repository callees
    from sa.forward import check_forwarding
    nfw = check_forwarding(ctx, "R15.11", [f for f in prog.functions.values() if f.module.name.startswith(('hed.models.query_handler', 'hed.models.query_expressions', 'hed.models.query_service', 'hed.models.query_util'))], 'e.g. exact matching')
    ctx.floor("R15.11", "same-named parameter sites", nfw, 1)

    # ---------------- R15.12: a loop that collects the matches examines every candidate
    ctx.rule("R15.12", "no `break` leaves a loop of the query modules whose body adds to the list the function returns")
    n1512 = 0

    def _own_breaks(stmts):
        out = []
        for st in stmts:
            if isinstance(st, ast.Break):
                out.append(st)
            elif isinstance(st, (ast.For, ast.While, ast.FunctionDef, ast.AsyncFunctionDef, ast.ClassDef)):
                out += _own_breaks(st.orelse) if isinstance(st, (ast.For, ast.While)) else []
            else:
                for fld in ("body", "orelse", "finalbody", "handlers"):
                    sub = getattr(st, fld, None)
                    if isinstance(sub, list):
                        out += _own_breaks([x for x in sub if isinstance(x, ast.stmt)] +
                                           [y for x in sub if isinstance(x, ast.ExceptHandler) for y in x.body])
        return out
    for f in prog.functions.values():
        if f.module.name not in ("hed.models.query_expressions", "hed.models.query_util", "hed.models.query_handler", "hed.models.query_service"):
            continue
        returned = {x.id for r in walk_no_nested(f.node) if isinstance(r, ast.Return) and r.value is not None
                    for x in ast.walk(r.value) if isinstance(x, ast.Name)}
        for lp in walk_no_nested(f.node):
            if not isinstance(lp, (ast.For, ast.While)):
                continue
            adds = [x for st in lp.body for x in ast.walk(st) if
                    (isinstance(x, ast.Call) and isinstance(x.func, ast.Attribute) and x.func.attr in ("append", "extend", "add")
                     and isinstance(x.func.value, ast.Name) and x.func.value.id in returned) or
                    (isinstance(x, ast.AugAssign) and isinstance(x.target, ast.Name) and x.target.id in returned)]
            if not adds:
                continue
            n1512 += 1
            ctx.saw(f)
            brk = _own_breaks(lp.body)
            ctx.check(not brk, "R15.12", f.qualname, brk[0] if brk else lp.iter if isinstance(lp, ast.For) else lp.test, loc(f, brk[0] if brk else lp),
                      "the loop that collects matches into the returned list is left by `break`: only the first candidate(s) in "
                      "traversal order are kept, so the answer depends on the order of sibling groups and a conjunction that needs two "
                      "different matching groups fails", desc="%s: collecting loop examines every candidate" % f.short)
    ctx.floor("R15.12", "collecting loops in the query modules", n1512, 6)


def _only_guards_raise(m, cmp):
    """The comparison is the whole test of an `if` whose body only raises (an internal sanity check, not a decision)."""
    for st in ast.walk(m.node):
        if isinstance(st, ast.If) and st.test is cmp and (all(isinstance(b, ast.Raise) for b in st.body) or
                                                         (st.orelse and all(isinstance(b, ast.Raise) for b in st.orelse))):
            return True
    return False


def _folded_pattern(fi):
    """Constant-fold the pattern the tokenizer applies: plain / f-string / concatenated locals or module constants, handed
    to re.compile / findall / finditer directly or through a (module-level or local) compiled pattern."""
    env = {}
    node = None

    def fold(e):
        if isinstance(e, ast.Constant) and isinstance(e.value, str):
            return e.value
        if isinstance(e, ast.Name):
            return env.get(e.id)
        if isinstance(e, ast.JoinedStr):
            parts = []
            for v in e.values:
                if isinstance(v, ast.FormattedValue):
                    if v.format_spec is not None or v.conversion != -1:
                        return None
                    parts.append(fold(v.value))
                else:
                    parts.append(fold(v))
            return None if any(p is None for p in parts) else "".join(parts)
        if isinstance(e, ast.BinOp) and isinstance(e.op, ast.Add):
            a, b = fold(e.left), fold(e.right)
            return None if a is None or b is None else a + b
        if isinstance(e, ast.Call) and call_name(e) == "compile" and e.args:
            return fold(e.args[0])
        return None
    for st in list(fi.module.tree.body) + list(fi.node.body):
        if isinstance(st, ast.Assign) and len(st.targets) == 1 and isinstance(st.targets[0], ast.Name):
            val = fold(st.value)
            if val is not None:
                env[st.targets[0].id] = val
    out = None
    for c in ast.walk(fi.node):
        if isinstance(c, ast.Call) and call_name(c) in ("compile", "findall", "finditer") and out is None:
            val = None
            if isinstance(c.func, ast.Attribute) and isinstance(c.func.value, ast.Name) and c.func.value.id != "re":
                val = env.get(c.func.value.id)           # <compiled pattern>.findall(text)
            elif c.args:
                val = fold(c.args[0])
            if val is not None:
                out, node = val, c
    return out, node


def _literal_alternatives(pattern):
    """Alternatives of the pattern that are fixed texts (no class, no repeat)."""
    import re._parser as sre
    from re._constants import BRANCH, LITERAL, SUBPATTERN
    lits = set()

    def alts(items):
        items = list(items)
        if len(items) == 1 and items[0][0] is SUBPATTERN:
            return alts(items[0][1][3])
        if len(items) == 1 and items[0][0] is BRANCH:
            res = []
            for br in items[0][1][1]:
                res.extend(alts(br))
            return res
        return [items]
    for a in alts(sre.parse(pattern)):
        if a and all(op is LITERAL for op, _ in a):
            lits.add("".join(chr(v) for _, v in a))
    return lits
