"""C13 — schema groups and namespaces: both schema classes implement the interface the validators
use, both dispatchers reject an unknown prefix with the same rule, the duplicate-library /
clashing-name / duplicate-prefix refusals dominate loading."""
import ast

from sa.callgraph import STRONG_KINDS
from sa.dom import view, mentions
from sa.model import AnalysisError, call_name, loc, norm, walk_no_nested
from sa.registry import get_registry
from sa.wiring import resolve_key

LEVEL_TEXT = ("Static structural proof of necessary conditions: (R13.1) HedSchema and HedSchemaGroup override every "
              "abstract member of the schema interface and provide every member the validator/model/error packages "
              "use on a schema; (R13.2) both find_tag_entry implementations emit the unmatched-namespace rule on the "
              "path where no schema owns the prefix, and set_schema_prefix refuses a non-alphabetic prefix before "
              "storing it; (R13.3) the duplicate-library refusal runs before any schema is loaded, the clashing-name "
              "refusal follows every merge, the duplicate-prefix refusal dominates the group table. Equivalence of "
              "prefixed and unprefixed judgement and 'standard is contained in partnered library' are NOT decided.")
LEVEL_EXTRA = 'Added after the seeded evaluation: (R13.4) namespace prefixes removed by length, the per-entry prefix established afresh in each iteration; (R13.5) a value stored in a per-object cache of the schema classes depends only on arguments its key depends on. (R13.6) the memoised standard schema is deep-copied before a library is merged into it. (R13.7) the capitalisation check splits the tag text without its namespace; the duplicate-library refusal is keyed by the library name. (R13.8) the prefix table is consulted with the prefix exactly as written. (R13.9) the prefix taken from the annotation is returned as written; (R13.10) tag entries are finalised with the namespace-free lookup. (R13.11) a parameter is handed on to every repository callee that takes a parameter of the same name (11 frozen exceptions package-wide). (R13.12) no lstrip/rstrip/strip with a computed argument where tag or version text is taken apart; (R13.13) the XML reader descends into the children of every node it parses.'

SCHEMA_RECEIVERS = {"hed_schema", "_hed_schema", "_schema", "schema"}
USER_PACKAGES = ("hed.validator", "hed.models", "hed.errors")


def members(cls):
    out = set()
    for k in cls.mro():
        out |= set(k.methods)
        out |= set(k.attrs)
        for m in k.all_methods:
            for n in ast.walk(m.node):
                if isinstance(n, ast.Attribute) and isinstance(n.ctx, ast.Store) and isinstance(n.value, ast.Name) \
                        and n.value.id == "self":
                    out.add(n.attr)
    return out


def run(ctx):
    prog, cg = ctx.prog, ctx.cg
    ctx.rule("R13.1", "both schema classes implement the abstract interface and every member used on a schema receiver")
    ctx.rule("R13.2", "both find_tag_entry dispatchers emit HED_LIBRARY_UNMATCHED for an unowned prefix; prefix syntax refusal dominates the store")
    ctx.rule("R13.3", "duplicate-library, clashing-name and duplicate-prefix refusals dominate loading/merging")
    hs = prog.find_class("HedSchema")
    hg = prog.find_class("HedSchemaGroup")
    hb = prog.find_class("HedSchemaBase")
    for c in (hs, hg):
        if not c.is_subclass_of(hb):
            ctx.violation("R13.1", c.qualname, "bases", loc(c.module, c.node), "%s no longer derives from HedSchemaBase" % c.name)

    # ---------------- R13.1
    abstract = [m for m in hb.all_methods if m.is_abstract]
    ctx.floor("R13.1", "abstract interface members", len(abstract), 8)
    for a in abstract:
        for c in (hs, hg):
            impl = c.find_method(a.name)
            ok = impl is not None and impl is not a and not impl.is_abstract
            where = loc(c.module, c.node)
            if ok and "property" not in a.decorator_names():
                # arity compatible: same positional parameter names prefix
                pa, pi = a.params(), impl.params()
                ok = pi[:len(pa)] == pa or len(pi) >= len(pa)
                where = loc(impl, impl.node)
            ctx.check(ok, "R13.1", c.qualname, "member " + a.name, where,
                      "%s does not implement the schema-interface member %s (abstract in HedSchemaBase): every call "
                      "through the interface fails for this kind of schema" % (c.name, a.name),
                      desc="%s implements %s" % (c.name, a.name))
    ms, mg = members(hs), members(hg)
    used = {}
    for f in prog.functions.values():
        if not f.module.name.startswith(USER_PACKAGES):
            continue
        for n in walk_no_nested(f.node):
            if isinstance(n, ast.Attribute) and isinstance(n.ctx, ast.Load):
                v = n.value
                nm = v.id if isinstance(v, ast.Name) else (v.attr if isinstance(v, ast.Attribute) else None)
                if nm in SCHEMA_RECEIVERS:
                    used.setdefault(n.attr, []).append((f, n))
    ctx.floor("R13.1", "distinct members used on schema receivers", len(used), 3)
    for attr, sites in sorted(used.items()):
        f, n = sites[0]
        ctx.saw(f)
        ctx.count_sites(len(sites))
        in_s, in_g = attr in ms, attr in mg
        if in_s and in_g:
            ctx.ok("R13.1", "member %s (used at %d sites) exists on HedSchema and HedSchemaGroup" % (attr, len(sites)), loc(f, n))
        elif not in_s and not in_g:
            # not a schema at all (a different object that happens to be called `schema`): ignore
            ctx.xref("R13.1", loc(f, n), "receiver named like a schema has member %s unknown to both schema classes" % attr)
        else:
            missing = hg.name if in_s else hs.name
            for f2, n2 in sites:
                ctx.violation("R13.1", f2.qualname, n2, loc(f2, n2),
                              "%s is used on a schema object in %s but %s does not provide it: validation with that "
                              "kind of schema raises AttributeError" % (attr, f2.short, missing))

    # ---------------- R13.2
    reg = get_registry(ctx)
    key = resolve_key(prog, "ValidationErrors.HED_LIBRARY_UNMATCHED")
    for c in (hs, hg):
        m = c.methods.get("find_tag_entry")
        if m is None:
            ctx.violation("R13.2", c.qualname, "find_tag_entry", loc(c.module, c.node), "%s.find_tag_entry vanished" % c.name)
            continue
        ctx.saw(m)
        sites = [s.call for s in reg.sites if s.fi is m and key in s.keys]
        if not sites:
            # the report built by a helper of the class: the call of the helper is the emission
            for cl in walk_no_nested(m.node):
                if isinstance(cl, ast.Call):
                    for k_, h in cg.resolve_call(cl, m):
                        if k_ == "precise" and h is not m and any(s.fi is h and key in s.keys for s in reg.sites):
                            ctx.saw(h)
                            sites.append(cl)
        ok = bool(sites)
        if ok:
            v = view(ctx, m)
            sn = v.node(sites[0])
            # guarded by a test on the namespace / owning schema, and followed by a return that carries the issues
            g = None
            from sa.dataflow import ReachingDefs as _RD, depends_on as _dep
            rdm = _RD(m)
            for cnd in v.conds(lambda t: _dep(rdm, t, t, lambda x: (isinstance(x, ast.Name) and x.id == "schema_namespace") or (
                    isinstance(x, ast.Call) and call_name(x) == "schema_for_namespace") or (
                    isinstance(x, ast.Attribute) and x.attr == "_namespace"))):
                for lab in (True, False):
                    if v.edge_guards(cnd, lab, sn):
                        g = (cnd, lab)
            ok = g is not None
            # the delegating call must not be reachable on that edge without the emission
            deleg = [n for (n, cl) in v.calls(lambda cl: call_name(cl) == "_find_tag_entry")]
            if ok and deleg:
                ok = all(not v.edge_guards(g[0], g[1], d) for d in deleg)
        ctx.check(ok, "R13.2", m.qualname, "emission of HED_LIBRARY_UNMATCHED", loc(m, m.node),
                  "%s.find_tag_entry does not report HED_LIBRARY_UNMATCHED on the path where no schema owns the "
                  "prefix: a tag with an unloaded prefix is silently resolved or crashes" % c.name,
                  desc="%s.find_tag_entry emits HED_LIBRARY_UNMATCHED for an unowned prefix" % c.name)
    # the group must delegate to the schema owning the prefix (not to an arbitrary one)
    gm = hg.methods.get("find_tag_entry")
    if gm is not None:
        sfn = [c for c in walk_no_nested(gm.node) if isinstance(c, ast.Call) and call_name(c) == "schema_for_namespace"]
        ctx.check(bool(sfn) and all(cl.args and norm(cl.args[0]) == "schema_namespace" for cl in sfn), "R13.2", gm.qualname,
                  "owner lookup", loc(gm, gm.node), "the group no longer looks the owning schema up by the tag's namespace",
                  desc="group dispatch by schema_for_namespace(schema_namespace)")
    sp = hs.methods.get("set_schema_prefix")
    if sp is None:
        raise AnalysisError("anchor HedSchema.set_schema_prefix vanished")
    ctx.saw(sp)
    v = view(ctx, sp)
    stores = [n for n in v.cfg.nodes if n.kind == "stmt" and isinstance(n.ast, ast.Assign) and any(
        isinstance(t, ast.Attribute) and t.attr == "_namespace" for t in n.ast.targets)]
    ctx.floor("R13.2", "namespace stores in set_schema_prefix", len(stores), 1)
    nsp = sp.params()[1] if len(sp.params()) > 1 else "schema_namespace"
    for s in stores:
        g = v.guard_for(s, lambda t: mentions(t, "isalpha"), want_leave=("raise",))
        if g is None:
            # the test may sit inside `if <namespace>:` — then the only way round it must be the empty-namespace edge
            alpha = {c for c in v.conds(lambda t: mentions(t, "isalpha")) if "raise" in (v.leaves(c, True) | v.leaves(c, False))}
            cuts = set()
            for c in v.conds():
                t = c.ast
                if isinstance(t, ast.Name) and t.id == nsp:
                    cuts.add((c, False))
                elif isinstance(t, ast.UnaryOp) and isinstance(t.op, ast.Not) and isinstance(t.operand, ast.Name) and t.operand.id == nsp:
                    cuts.add((c, True))
            if alpha and cuts:
                r = v.reachable_from_entry(avoid=alpha, cut_edges=cuts)
                if s not in r:
                    g = (None, None)
        ctx.check(g is not None, "R13.2", sp.qualname, s.ast, loc(sp, s.ast),
                  "the namespace is stored without the alphabetic test and its raise dominating the store",
                  desc="non-alphabetic prefix refused before the store")

    ctx.rule("R13.4", "prefix handling: removed by length (no character-set strip); the per-entry prefix is fresh each iteration")
    from rules.c03 import strip_family_lint
    strip_family_lint(ctx, "R13.4", ["schema.hed_schema", "models.hed_tag", "schema.hed_schema_group"])

    # ---------------- R13.5: cached per-section answers do not bake in a caller's namespace (or any other argument)
    ctx.rule("R13.5", "a value stored in a per-object cache of the schema classes depends only on arguments its key depends on")
    from sa.memo import memo_sites, missing_key_params
    n_memo = 0
    for f in prog.functions.values():
        if not f.module.name.startswith("hed.schema.") or f.module.name.endswith("hed_cache"):
            continue
        for site in memo_sites(f):
            if "cache" not in site[1].lower():
                continue
            n_memo += 1
            ctx.saw(f)
            miss = missing_key_params(f, site)
            ctx.check(not miss, "R13.5", f.qualname, site[0], loc(f, site[0]),
                      "the value cached in self.%s depends on the argument(s) %s but the cache key `%s` does not: the first "
                      "caller's %s is returned to every later caller (e.g. names carrying another schema's namespace prefix)"
                      % (site[1], miss, norm(site[2])[:40], "/".join(miss)),
                      desc="cache self.%s keyed by everything its value depends on" % site[1])
    ctx.floor("R13.5", "memo stores in the schema classes", n_memo, 1)

    # ---------------- R13.6: a partnered library is built on a *copy* of the (memoised) standard schema
    ctx.rule("R13.6", "the memoised standard schema is deep-copied before a library is merged into it")
    from sa.dataflow import ReachingDefs as _RD, depends_on as _dep
    ld = prog.find_class("SchemaLoader").methods.get("_load")
    if ld is None:
        raise AnalysisError("anchor SchemaLoader._load vanished")
    ctx.saw(ld)
    rdl = _RD(ld)
    is_cached_load = lambda y: isinstance(y, ast.Call) and call_name(y) in ("load_schema_version", "load_schema")
    n_adopt = 0
    for st in walk_no_nested(ld.node):
        if isinstance(st, ast.Assign) and any(isinstance(t, ast.Attribute) and t.attr == "_schema" and isinstance(t.value, ast.Name)
                                               and t.value.id == "self" for t in st.targets):
            if _dep(rdl, st.value, st, is_cached_load):
                n_adopt += 1
                def is_deep(e, at, depth=0):
                    if isinstance(e, ast.Call) and call_name(e) == "deepcopy":
                        return True
                    if isinstance(e, ast.Name) and depth < 4:
                        ds = rdl.at(at, e.id) or []
                        return bool(ds) and all(d.kind == "assign" and d.value is not None and is_deep(d.value, d.node, depth + 1) for d in ds)
                    return False
                copied = is_deep(st.value, st)
                ctx.check(copied, "R13.6", ld.qualname, st, loc(ld, st),
                          "the schema under construction is the object returned by load_schema_version (which is memoised) and not a "
                          "deep copy of it: merging the library's tags into it changes the standard schema every later caller gets — an "
                          "unprefixed annotation is then judged against standard + library", desc="standard schema deep-copied before the merge")
    ctx.floor("R13.6", "adoptions of a loaded standard schema in SchemaLoader._load", n_adopt, 1)

    # ---------------- R13.7: word-level style checks look at the tag text without its namespace
    ctx.rule("R13.7", "the capitalisation check splits the tag text without the namespace prefix")
    tvc = prog.find_class("TagValidator").methods.get("check_capitalization")
    if tvc is None:
        raise AnalysisError("anchor TagValidator.check_capitalization vanished")
    ctx.saw(tvc)
    from sa.dataflow import ReachingDefs as _RDt, depends_on as _dept
    rdt = _RDt(tvc)
    splits = [c for c in walk_no_nested(tvc.node) if isinstance(c, ast.Call) and isinstance(c.func, ast.Attribute) and c.func.attr == "split"
              and c.args and isinstance(c.args[0], ast.Constant) and c.args[0].value == "/"]
    ctx.floor("R13.7", "path splits in check_capitalization", len(splits), 1)
    for c in splits:
        recv = c.func.value
        spelled = any(isinstance(x, ast.Attribute) and x.attr in ("org_base_tag", "org_tag", "tag") for x in ast.walk(recv))
        ns = _dept(rdt, recv, c, lambda y: isinstance(y, ast.Attribute) and y.attr in ("schema_namespace", "_namespace"))
        ctx.check((not spelled) or ns, "R13.7", tvc.qualname, c, loc(tvc, c),
                  "the words of the tag are taken from `%s`, which still starts with the namespace (`sc:`): `sc:2d-shape` draws a "
                  "STYLE_WARNING that `2d-shape` does not draw against the library alone, and a capitalised prefix (`Sc:red`) hides the "
                  "warning" % norm(recv)[:40], desc="capitalisation check strips the namespace")

    # ---------------- R13.3
    io = prog.find_module("schema.hed_schema_io")
    lsv = io.functions.get("load_schema_version")
    pvl = io.functions.get("parse_version_list")
    lsv2 = io.functions.get("_load_schema_version")
    if lsv is None or pvl is None or lsv2 is None:
        raise AnalysisError("R13.3 anchors in hed_schema_io vanished")
    ctx.saw(lsv, pvl, lsv2)
    v = view(ctx, lsv)
    parse_nodes = [n for (n, c) in v.calls(lambda c: call_name(c) == "parse_version_list")]
    # loads that happen in the list branch: those whose argument derives from the parsed list
    from sa.dataflow import ReachingDefs, depends_on
    rd = ReachingDefs(lsv)
    loads = [(n, c) for (n, c) in v.calls(lambda c: call_name(c) == "_load_schema_version")]
    ctx.floor("R13.3", "_load_schema_version calls in load_schema_version", len(loads), 1)
    list_loads = 0
    for n, c in loads:
        # inside a comprehension over the parsed versions, or dominated by the list test
        is_list = any(isinstance(x, ast.comprehension) for x in ast.walk(n.ast) if True) and \
            any(c is y for comp in ast.walk(n.ast) if isinstance(comp, (ast.ListComp, ast.GeneratorExp)) for y in ast.walk(comp))
        if not is_list:
            def implies_list(t, label):
                """Taking edge `label` of test t establishes isinstance(<version>, list)."""
                if isinstance(t, ast.UnaryOp) and isinstance(t.op, ast.Not):
                    return implies_list(t.operand, not label)
                if isinstance(t, ast.BoolOp) and isinstance(t.op, ast.And):
                    return label is True and any(implies_list(x, True) for x in t.values)
                if isinstance(t, ast.BoolOp):
                    return label is False and False
                return label is True and isinstance(t, ast.Call) and call_name(t) == "isinstance" and "list" in norm(t)
            is_list = False
            for cnd in v.conds(lambda t: mentions(t, "list")):
                for lab in (True, False):
                    if implies_list(cnd.ast, lab) and v.edge_guards(cnd, lab, n):
                        is_list = True
        if is_list:
            list_loads += 1
            ok = bool(parse_nodes) and any(v.dominates(p, n) for p in parse_nodes) and \
                depends_on(rd, n.ast.value if isinstance(n.ast, ast.Assign) else n.ast, n.ast,
                           lambda x: isinstance(x, ast.Call) and call_name(x) == "parse_version_list")
            ctx.check(ok, "R13.3", lsv.qualname, c, loc(lsv, c),
                      "schemas of a version list are loaded without going through parse_version_list first: loading "
                      "the same library twice is not refused", desc="version list parsed (duplicates refused) before any load")
    ctx.floor("R13.3", "list-branch loads", list_loads, 1)
    vp = view(ctx, pvl)
    appends = [n for (n, c) in vp.calls(lambda c: isinstance(c.func, ast.Attribute) and c.func.attr == "append")]
    ctx.floor("R13.3", "appends in parse_version_list", len(appends), 1)
    # containers the function records into (the version list itself, or a per-prefix set kept beside it)
    recorded = {norm(c.func.value) for (n_, c) in vp.calls(lambda c: isinstance(c.func, ast.Attribute) and c.func.attr in ("append", "add"))}
    for a in appends:
        recv = sorted(recorded | {norm(c.func.value) for c in vp.node_calls(a) if isinstance(c.func, ast.Attribute) and c.func.attr == "append"})
        g = vp.guard_for(a, lambda t, recv=recv: any(isinstance(x, ast.Compare) and any(isinstance(o, ast.In) for o in x.ops)
                                                     and norm(x.comparators[0]) in recv for x in ast.walk(t)), want_leave=("raise",))
        ctx.check(g is not None, "R13.3", pvl.qualname, a.ast, loc(pvl, a.ast),
                  "a version is recorded without the 'already listed under this prefix' test and its raise",
                  desc="duplicate library refused before it is recorded")
    # "the same library" is decided on the library *name*, not on name_version
    from sa.dataflow import ReachingDefs as _RD13, depends_on as _dep13
    rdp13 = _RD13(pvl)
    _split_here = lambda y: isinstance(y, ast.Call) and isinstance(y.func, ast.Attribute) and y.func.attr in ("rpartition", "partition", "split", "rsplit") \
        and y.args and isinstance(y.args[0], ast.Constant) and y.args[0].value == "_"

    def is_name_split(y):
        if _split_here(y):
            return True
        if isinstance(y, ast.Call):          # a module helper that does the split
            for k_, t_ in cg.resolve_call(y, pvl):
                if k_ == "precise" and any(_split_here(z) for r_ in walk_no_nested(t_.node) if isinstance(r_, ast.Return) and r_.value is not None
                                           for z in ast.walk(r_.value)):
                    return True
        return False
    for a in appends:
        g = vp.guard_for(a, lambda t: any(isinstance(x, ast.Compare) and any(isinstance(o, ast.In) for o in x.ops) for x in ast.walk(t)),
                         want_leave=("raise",))
        ok = g is not None and _dep13(rdp13, g[0].ast, g[0].ast, is_name_split)
        ctx.check(ok, "R13.3", pvl.qualname, "library-name key of the duplicate test", loc(pvl, a.ast),
                  "the 'already loaded' test compares the whole `library_x.y.z` text: `['testlib_2.0.0', 'testlib_3.0.0']` (the same library "
                  "twice, two versions) is merged into one schema with library=\"testlib,testlib\" instead of being refused",
                  desc="duplicate-library test keyed by the library name")
    # the grouping key (namespace prefix of the entry) is established afresh in every iteration
    from sa.dataflow import defs_of_node
    for a in appends:
        keys = set()
        for c in vp.node_calls(a):
            if isinstance(c.func, ast.Attribute) and c.func.attr == "append":
                for x in ast.walk(c.func.value):
                    if isinstance(x, ast.Subscript):
                        keys |= {y.id for y in ast.walk(x.slice) if isinstance(y, ast.Name)}
        loops = [lp for lp in vp.cfg.nodes if lp.kind == "loop" and any(x is a.ast for b in lp.ast.body for x in ast.walk(b))]
        for k in sorted(keys):
            fresh = False
            for lp in loops:
                for n_ in vp.cfg.nodes:
                    if n_.ast is not None and any(x is n_.ast for b in lp.ast.body for x in ast.walk(b)) and \
                            any(d.name == k and d.kind in ("assign", "unpack") for d in defs_of_node(n_)) and vp.dominates(n_, a):
                        fresh = True
            ctx.check(fresh, "R13.4", pvl.qualname, "per-entry definition of `%s`" % k, loc(pvl, a.ast),
                      "the grouping key `%s` is not re-established in every iteration before the version is recorded: an entry "
                      "without a prefix inherits the prefix of the previous entry (['sc:score_1.1.0', 'testlib_2.0.0'] loads "
                      "both under sc:)" % k, desc="grouping key `%s` defined afresh in each iteration" % k)

    v2 = view(ctx, lsv2)
    merges = [(n, c) for (n, c) in v2.calls(lambda c: call_name(c) == "_load_schema_version_sub"
                                            and cg.arg(c, "schema") is not None)]
    ctx.floor("R13.3", "merge calls in _load_schema_version", len(merges), 1)
    dup_conds = []
    for cnd in v2.conds(lambda t: True):
        # a test of the has_duplicates() result (directly or through a local)
        rd2 = ctx.shared.setdefault("rd_lsv2", ReachingDefs(lsv2))
        if depends_on(rd2, cnd.ast, cnd.ast, lambda x: isinstance(x, ast.Call) and call_name(x) == "has_duplicates"):
            from sa.dom import edge_always_raises
            if "raise" in v2.leaves(cnd, True) or edge_always_raises(v2, cnd, True) or edge_always_raises(v2, cnd, False):
                dup_conds.append(cnd)
    for n, c in merges:
        loops = [lp for lp in v2.cfg.nodes if lp.kind == "loop" and any(x is c for x in ast.walk(lp.ast))]
        ok = bool(dup_conds)
        if ok:
            # from the merge, the next iteration / exit is not reachable while avoiding the duplicate test
            seen, stack = set(), [m for (m, l) in v2.cfg.succ[n] if l != "exc"]
            avoid = set(dup_conds)
            while stack and ok:
                x = stack.pop()
                if x in seen or x in avoid:
                    continue
                if x is v2.cfg.exit or x in loops:
                    ok = False
                seen.add(x)
                stack.extend(m for (m, l) in v2.cfg.succ[x] if l != "exc")
        ctx.check(ok, "R13.3", lsv2.qualname, c, loc(lsv2, c),
                  "after merging a schema into an existing prefix the clashing-name test with its raise does not follow "
                  "on every path: two schemas with clashing names are accepted under one prefix",
                  desc="has_duplicates() test with raise follows every merge")
    gi = hg.methods.get("__init__")
    ctx.saw(gi)
    vg = view(ctx, gi)
    stores = [n for n in vg.cfg.nodes if n.kind == "stmt" and isinstance(n.ast, ast.Assign) and any(
        isinstance(t, ast.Attribute) and t.attr == "_schemas" for t in n.ast.targets)]
    ctx.floor("R13.3", "group table stores", len(stores), 1)
    rdg = ReachingDefs(gi)

    def _dedupes(e, at, depth=0):
        # an expression whose size is the number of DISTINCT prefixes: set(...), a set/dict display keyed by them, or a local bound to one
        if isinstance(e, (ast.SetComp, ast.DictComp, ast.Set)):
            return True
        if isinstance(e, ast.Call) and call_name(e) in ("set", "frozenset", "dict"):
            return True
        if isinstance(e, ast.Name) and depth < 3:
            defs = rdg.at(at, e.id) or []
            return bool(defs) and all(d.kind == "assign" and d.value is not None and _dedupes(d.value, d.node, depth + 1) for d in defs)
        return False

    def dup_test(t):
        for x in ast.walk(t):
            if isinstance(x, ast.Compare) and len(x.ops) == 1 and not isinstance(x.ops[0], (ast.In, ast.NotIn, ast.Is, ast.IsNot)):
                sides = [x.left, x.comparators[0]]
                lens = [y.args[0] for y in sides if isinstance(y, ast.Call) and call_name(y) == "len" and y.args]
                if len(lens) == 2 and any(_dedupes(y, t) for y in lens) and not all(_dedupes(y, t) for y in lens):
                    return True
        return False
    for s in stores:
        g = vg.guard_for(s, dup_test, want_leave=("raise",))
        ctx.check(g is not None, "R13.3", gi.qualname, s.ast, loc(gi, s.ast),
                  "the group's schema table is stored without the duplicate-prefix test and its raise",
                  desc="duplicate prefix refused before the group table is stored")

    # ---------------- R13.8: the prefix table is consulted with the prefix as written
    ctx.rule("R13.8", "HedSchemaGroup looks prefixes up exactly as written (a prefix that is not loaded is an error)")
    from sa.norm import check_uniform, mapping_accesses
    hsg = prog.find_class("HedSchemaGroup")
    acc13 = []
    for m in hsg.methods.values():
        acc13 += [a for a in mapping_accesses(m, lambda e: isinstance(e, ast.Attribute) and e.attr == "_schemas") if a.kind in ("get", "load", "in")]
    n13 = check_uniform(ctx, "R13.8", acc13, {"raw"}, "the prefix table `_schemas`",
                        "`SC:Event` is identified under the schema loaded as `sc:` although `SC:` is not a loaded prefix")
    ctx.floor("R13.8", "lookups in the prefix table", n13, 1)

    # ---------------- R13.9: the namespace taken from the annotation is the text as written
    ctx.rule("R13.9", "HedTag._get_schema_namespace returns the prefix exactly as written (no case normalisation)")
    gsn = prog.find_class("HedTag").methods.get("_get_schema_namespace")
    if gsn is None:
        raise AnalysisError("anchor HedTag._get_schema_namespace vanished")
    ctx.saw(gsn)
    n139 = 0
    for r in walk_no_nested(gsn.node):
        if isinstance(r, ast.Return) and r.value is not None:
            n139 += 1
            bad = [x for x in ast.walk(r.value) if isinstance(x, ast.Call) and isinstance(x.func, ast.Attribute)
                   and x.func.attr in ("casefold", "lower", "upper", "title", "capitalize", "swapcase")]
            ctx.check(not bad, "R13.9", gsn.qualname, r, loc(gsn, r),
                      "the prefix is case-normalised before it is looked up: `SC:Event` is accepted under the schema loaded as `sc:` "
                      "although `SC:` is not a loaded prefix (and a schema loaded under a prefix with capitals becomes unreachable)",
                      desc="prefix returned as written")
    ctx.floor("R13.9", "returns of _get_schema_namespace", n139, 2)

    # ---------------- R13.10: entries are finalised with the schema's namespace-free lookup
    ctx.rule("R13.10", "HedTagEntry finalisation resolves names with the private namespace-free lookup of the schema")
    hte = prog.find_class("HedTagEntry")
    n1310 = 0
    for m in hte.methods.values():
        if not m.name.startswith(("finalize", "_finalize")):
            continue
        for c in walk_no_nested(m.node):
            if isinstance(c, ast.Call) and isinstance(c.func, ast.Attribute) and c.func.attr in ("get_tag_entry", "_get_tag_entry", "find_tag_entry") \
                    and isinstance(c.func.value, ast.Name) and c.func.value.id == "schema":
                n1310 += 1
                ctx.saw(m)
                ctx.check(c.func.attr == "_get_tag_entry", "R13.10", m.qualname, c, loc(m, c),
                          "an entry is finalised through the public lookup, which answers None when the schema carries a namespace and "
                          "none is passed: every entry of a schema (re)finalised under a prefix loses its parent / takes-value child",
                          desc="%s uses the namespace-free lookup" % m.short)
    ctx.floor("R13.10", "schema lookups while finalising tag entries", n1310, 2)

    # ---------------- R13.11: parameters are handed on to same-named parameters of repository callees
    from sa.forward import check_forwarding
    nfw = check_forwarding(ctx, "R13.11", [f for f in prog.functions.values() if f.module.name.startswith(('hed.schema.hed_schema_io', 'hed.schema.hed_schema_group', 'hed.schema.hed_schema'))], 'e.g. the namespace, the schema to merge into')
    ctx.floor("R13.11", "same-named parameter sites", nfw, 1)

    # ---------------- R13.12: a namespace / library prefix is removed as a prefix, never with lstrip/rstrip
    ctx.rule("R13.12", "no lstrip/rstrip/strip with a computed argument where tag or version text is taken apart")
    from sa.idioms import check_no_strip_of_prefix
    sc1312 = [f for f in prog.functions.values() if f.module.name.startswith(("hed.validator.", "hed.models.hed_tag", "hed.models.hed_string",
                                                                              "hed.models.hed_group", "hed.schema.hed_schema"))]
    check_no_strip_of_prefix(ctx, "R13.12", sc1312, "with the prefix `Sc:` the tag `Sc:Spike…` loses its `S` as well (any character of "
                             "the prefix is stripped), so the prefixed tag is judged differently from the unprefixed one")
    ctx.floor("R13.12", "functions in scope", len(sc1312), 100)

    # ---------------- R13.13: the XML reader descends into the children of every node it parses
    ctx.rule("R13.13", "in the XML reader's tag recursion no iteration reaches the next sibling without the recursive call on the children")
    from sa.dom import iteration_can_skip as _skip1313, view as _view1313
    atr = prog.try_function("SchemaLoaderXML._add_tags_recursive")
    if atr is None:
        raise AnalysisError("anchor SchemaLoaderXML._add_tags_recursive vanished")
    ctx.saw(atr)
    v1313 = _view1313(ctx, atr)
    rec1313 = [n_ for (n_, c) in v1313.calls(lambda c: call_name(c) == atr.name)]
    loops1313 = [lp for lp in walk_no_nested(atr.node) if isinstance(lp, ast.For)]
    ctx.floor("R13.13", "sibling loops in _add_tags_recursive", len(loops1313), 1)
    ctx.floor("R13.13", "recursive calls in _add_tags_recursive", len(rec1313), 1)
    for lp in loops1313[:1]:
        ctx.check(not _skip1313(v1313, lp, rec1313), "R13.13", atr.qualname, lp.iter, loc(atr, lp),
                  "a node can be passed over without its children being read: when a library is appended under a prefix that already "
                  "holds the standard schema, the nodes that already exist are skipped together with the library's own sub-trees below "
                  "them, which are then neither part of the combined schema nor checked for clashing names",
                  desc="children of every parsed node are read")
