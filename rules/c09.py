"""C09 — definitions: Def<->Def-expand form changes and the 'expanded' flag move together, a
definition is stored only past every issue guard, placeholder plugging only touches a fresh copy,
acceptance rules wired."""
import ast

from sa import wiring
from sa.callgraph import STRONG_KINDS
from sa.dom import view, mentions
from sa.effects import check_no_mutation, get_effects, origin_text, _falsy_name
from sa.model import AnalysisError, call_name, loc, norm, walk_no_nested

LEVEL_TEXT = ("Static structural proof of necessary conditions: (R9.1) every function that switches a tag between the Def "
              "and Def-expand forms also stores the tag's 'currently expanded' flag with the matching truth value on every "
              "path of the same iteration; (R9.2) in check_for_definitions the store into the definition table is reachable "
              "from each issue-producing step only through the 'no issues' edge of a test of that step's result (reported "
              "and ignored); (R9.3) DefinitionEntry.get_definition mutates neither the stored contents nor the tag it is "
              "given, and the constructor stores a copy of what it is handed; (R9.4) the nine acceptance rules are "
              "registered as DEFINITION_INVALID and reachable from the dictionary, HED_DEF_EXPAND_INVALID as "
              "DEF_EXPAND_INVALID from string validation. The content of an expansion, the shrink/expand round trip "
              "beyond R9.1 and interleavings with copy/validate are NOT decided.")
LEVEL_EXTRA = 'Added after the seeded evaluation: (R9.5) HedTag.__deepcopy__ copies the cached expansion, its flag and the parent link; (R9.6) validators obtain expansions with a copy of the tag; (R9.7) every access to a definition table case-folds with casefold (one frozen exception: keys copied from another table); (R9.8) the nested-Def search in definition contents is recursive. (R9.9) the Def-expand content test compares sorted forms of both groups. (R9.10) the column-wise expand/shrink variants store through a single indexer (no chained assignment). (R9.11) written-form tag equality is only a fallback for tags the schema did not identify. (R9.12) no issue list is discarded in the definition modules; (R9.13) package-internal modules are imported by their package path; (R9.14) HedGroup locates children by identity. (R9.15) no dictionary key or set member is a tag/group object drawn from an annotation. (R9.16) a parameter is handed on to every repository callee that takes a parameter of the same name (11 frozen exceptions package-wide). (R9.17) every Def/Def-expand row mask of the column-wise helpers is case-insensitive.'

ROWS = [{"key": "DefinitionErrors." + k, "code": "DEFINITION_INVALID"} for k in (
    "WRONG_NUMBER_GROUPS", "WRONG_NUMBER_TAGS", "NO_DEFINITION_CONTENTS", "INVALID_DEFINITION_EXTENSION",
    "DEF_TAG_IN_DEFINITION", "BAD_PROP_IN_DEFINITION", "WRONG_NUMBER_PLACEHOLDER_TAGS", "PLACEHOLDER_NO_TAKES_VALUE",
    "DUPLICATE_DEFINITION")]


def run(ctx):
    prog, cg = ctx.prog, ctx.cg
    ctx.rule("R9.1", "a store of the Def / Def-expand form is paired with a store of the expanded flag (True / False)")
    ctx.rule("R9.2", "the definition table store is reachable only past the guard of every issue-producing step")
    ctx.rule("R9.3", "get_definition plugs the placeholder into a copy; the entry stores a copy of its contents")
    ctx.rule("R9.4", "definition acceptance rules and the Def-expand content rule are wired with their codes")
    names = prog.class_constants(prog.find_class("DefTagNames"))
    if "DEF_KEY" not in names or "DEF_EXPAND_KEY" not in names:
        raise AnalysisError("anchor DefTagNames.DEF_KEY/DEF_EXPAND_KEY vanished")
    form_of = {names["DEF_EXPAND_KEY"]: True, names["DEF_KEY"]: False}

    # ---------------- R9.1
    n_form = 0
    for f in prog.functions.values():
        stores = []
        for n in walk_no_nested(f.node):
            if isinstance(n, ast.Assign) and len(n.targets) == 1 and isinstance(n.targets[0], ast.Attribute) and \
                    n.targets[0].attr in ("short_base_tag", "_short_base_tag"):
                val = prog.try_const(n.value, f.module, f.cls, f)
                if val in form_of:
                    stores.append((n, norm(n.targets[0].value), form_of[val]))
        if not stores:
            continue
        ctx.saw(f)
        v = view(ctx, f)
        for st, recv, want in stores:
            n_form += 1
            sn = v.node(st)
            flags = []
            for n in v.cfg.nodes:
                a = n.ast
                if n.kind == "stmt" and isinstance(a, ast.Assign) and len(a.targets) == 1 and isinstance(a.targets[0], ast.Attribute) \
                        and a.targets[0].attr in ("_expanded", "expanded") and norm(a.targets[0].value) == recv and \
                        isinstance(a.value, ast.Constant) and a.value.value is want:
                    flags.append(n)
            ok = False
            if flags and sn is not None:
                loops = [lp for lp in v.cfg.nodes if lp.kind == "loop"]
                # after: every path from the form store to the next iteration / exit passes a flag store
                seen, stack = set(), [m for (m, l) in v.cfg.succ[sn] if l != "exc"]
                ok = True
                while stack and ok:
                    x = stack.pop()
                    if x in seen or x in flags:
                        continue
                    if x is v.cfg.exit or x in loops:
                        ok = False
                    seen.add(x)
                    stack.extend(m for (m, l) in v.cfg.succ[x] if l != "exc")
                if not ok:
                    # before: a flag store dominates the form store inside the same iteration
                    for fl in flags:
                        if v.dominates(fl, sn):
                            between = v.cfg.reachable_from(fl, True, avoid={sn})
                            if not any(lp in between and sn in v.cfg.reachable_from(lp, True) and fl not in v.dom.get(lp, ())
                                       for lp in loops):
                                ok = True
            ctx.count_paths()
            ctx.check(ok, "R9.1", f.qualname, st, loc(f, st),
                      "%s switches `%s` to the %s form without storing its expanded flag = %s on every path of the same "
                      "iteration: a later expand_defs()/shrink_defs() acts on a stale flag (expanding twice nests the "
                      "expansion into itself)" % (f.short, recv, "Def-expand" if want else "Def", want),
                      desc="%s: form store `%s` paired with %s._expanded = %s" % (f.short, norm(st)[:50], recv, want))
    ctx.floor("R9.1", "Def/Def-expand form stores", n_form, 2)
    # the lazy initialiser derives the flag from the form
    tag = prog.find_class("HedTag")
    exp = tag.methods.get("expandable")
    if exp is None:
        raise AnalysisError("anchor HedTag.expandable vanished")
    lazy = [n for n in walk_no_nested(exp.node) if isinstance(n, ast.Assign) and isinstance(n.targets[0], ast.Attribute)
            and n.targets[0].attr == "_expanded"]
    ctx.check(bool(lazy) and all(mentions(n.value, "DEF_EXPAND_KEY") and mentions(n.value, "short_base_tag") for n in lazy),
              "R9.1", exp.qualname, "lazy flag initialiser", loc(exp, exp.node),
              "the lazy initialiser no longer derives the expanded flag from the tag's current form",
              desc="lazy initialiser: expanded = (form is Def-expand)")

    # ---------------- R9.2
    dd = prog.find_class("DefinitionDict")
    cfd = dd.methods.get("check_for_definitions")
    if cfd is None:
        raise AnalysisError("anchor DefinitionDict.check_for_definitions vanished")
    ctx.saw(cfd)
    v = view(ctx, cfd)
    stores = [n for n in v.cfg.nodes if n.kind == "stmt" and isinstance(n.ast, ast.Assign) and any(
        isinstance(t, ast.Subscript) and norm(t.value) == "self.defs" for t in n.ast.targets)]
    ctx.floor("R9.2", "definition table stores", len(stores), 1)
    producers = []
    for n in v.cfg.nodes:
        a = n.ast
        if n.kind != "stmt":
            continue
        val = None
        names_ = []
        if isinstance(a, ast.Assign) and isinstance(a.value, ast.Call):
            val = a.value
            for t in a.targets:
                names_ += [x.id for x in ast.walk(t) if isinstance(x, ast.Name)]
        elif isinstance(a, ast.AugAssign) and isinstance(a.value, ast.Call) and isinstance(a.target, ast.Name):
            val = a.value
            names_ = [a.target.id]
        if val is None:
            continue
        cn = call_name(val) or ""
        if cn.startswith("_validate") or cn.startswith("_find_group") or cn.startswith("format_error"):
            issue_names = [x for x in names_ if "issue" in x]
            if issue_names:
                producers.append((n, issue_names))
    ctx.floor("R9.2", "issue-producing steps in check_for_definitions", len(producers), 4)
    for s in stores:
        for p, inames in producers:
            if s not in v.cfg.reachable_from(p, True):
                continue
            guards = [c for c in v.conds(lambda t, inames=inames: any(mentions(t, nm) for nm in inames))
                      if v.leaves(c, True) & {"continue", "return", "raise"}]
            # walk forward from the producing step; a guard discharges it only while the issue variable still
            # holds this step's issues (plain re-assignment loses them; `+=` keeps them)
            from sa.dataflow import defs_of_node
            ok = True
            seen = set()
            stack = [(m, False) for (m, l) in v.cfg.succ[p] if l != "exc"]
            while stack and ok:
                x, lost = stack.pop()
                if (x, lost) in seen:
                    continue
                seen.add((x, lost))
                if x is s:
                    ok = False
                    break
                if not lost and x in guards:
                    continue
                if x is not p and any(d.name in inames and d.kind != "aug" for d in defs_of_node(x)):
                    lost = True
                for (m, l) in v.cfg.succ[x]:
                    if l == "exc":
                        continue
                    if not lost and x.kind == "cond" and _falsy_name(x.ast, l) in inames:
                        continue        # on this edge the issue list is empty: nothing left to guard
                    stack.append((m, lost))
            ctx.count_paths()
            ctx.check(ok, "R9.2", cfd.qualname, "guard after " + norm(p.ast)[:60], loc(cfd, p.ast),
                      "the definition is stored although the issues produced by `%s` were not tested (with continue/return) "
                      "first: a definition that violates an acceptance rule is reported *and* accepted" % norm(p.ast)[:60],
                      desc="store guarded against issues of `%s`" % norm(p.ast)[:50])

    # ---------------- R9.3
    de = prog.find_class("DefinitionEntry")
    gd = de.methods.get("get_definition")
    init = de.methods.get("__init__")
    if gd is None or init is None:
        raise AnalysisError("anchor DefinitionEntry.get_definition/__init__ vanished")

    def forbid(fi, o):
        return o[0] == "S" or o == ("P", "self") or (o[0] == "P" and o[1] == "replace_tag")
    check_no_mutation(ctx, "R9.3", [gd], forbid, "the stored definition contents / the Def tag handed in",
                      "plugging a placeholder value changes the stored definition, so the next expansion of the same "
                      "definition carries the previous value")
    # the plugging call acts on something derived from a deep copy
    eff = get_effects(ctx)
    plugs = [c for c in walk_no_nested(gd.node) if isinstance(c, ast.Call) and call_name(c) == "replace_placeholder"]
    ctx.floor("R9.3", "placeholder plugging calls in get_definition", len(plugs), 1)
    copies = [c for c in walk_no_nested(gd.node) if isinstance(c, ast.Call) and (call_name(c) in ("deepcopy", "copy"))]
    ctx.check(bool(copies), "R9.3", gd.qualname, "copy of contents", loc(gd, gd.node),
              "get_definition no longer copies the stored contents before plugging", desc="contents copied before plugging")
    s = eff.summary(init)
    st = getattr(s, "self_stores", {}).get("contents", [])
    ctx.floor("R9.3", "stores of self.contents in __init__", len(st), 1)
    for node, origs in st:
        bad = [o for o in origs if o[0] in ("P",) or (o[0] == "SH")]
        ctx.check(not bad, "R9.3", init.qualname, node, loc(init, node),
                  "the definition entry keeps a reference to the caller's group (%s) instead of a copy: later edits of the "
                  "annotation it was gathered from change the stored definition" % ", ".join(origin_text(o) for o in bad),
                  desc="entry stores a fresh copy of its contents")

    # ---------------- R9.6: validation works on a copy of the tag
    ctx.rule("R9.6", "validators ask get_definition for a copy of the tag (validating never re-parents the live tag)")
    n_gd = 0
    for f in prog.functions.values():
        if not f.module.name.startswith("hed.validator"):
            continue
        for c in walk_no_nested(f.node):
            if isinstance(c, ast.Call) and call_name(c) == "get_definition" and isinstance(c.func, ast.Attribute):
                n_gd += 1
                kw = {k.arg: k.value for k in c.keywords if k.arg}
                flag = kw.get("return_copy_of_tag")
                if flag is None and len(c.args) >= 3:
                    flag = c.args[2]
                ok = isinstance(flag, ast.Constant) and flag.value is True
                ctx.check(ok, "R9.6", f.qualname, c, loc(f, c),
                          "a validator obtains the expansion without return_copy_of_tag=True: get_definition then puts the live "
                          "Def tag into a throw-away group (re-parenting it), so expand_defs()/shrink_defs() after validate() "
                          "act on a detached tag", desc="%s validates against a copy of the tag" % f.short)
    ctx.floor("R9.6", "get_definition calls in validators", n_gd, 1)

    # ---------------- R9.7: one case-folding for the definition table
    ctx.rule("R9.7", "every access to a definition table `.defs` case-folds its key the same way (casefold)")
    from sa.norm import check_uniform, mapping_accesses
    RAW_OK = {"DefinitionDict._add_definition": "receives keys taken from another definition table (already case-folded)"}
    acc = []
    for f in prog.functions.values():
        if f.short in RAW_OK:
            continue
        acc += mapping_accesses(f, lambda e: isinstance(e, ast.Attribute) and e.attr == "defs")
    n_acc = check_uniform(ctx, "R9.7", acc, {"casefold"}, "the definition table `.defs`",
                          "a name that casefold() and this spelling fold differently (e.g. `Straße`, `ǅ`) is stored under one key "
                          "and looked up under another, so a declared definition is reported as unmatched or is not expanded")
    ctx.floor("R9.7", "accesses of .defs", n_acc, 8)

    # ---------------- R9.8: nested Def tags are searched for at every depth
    ctx.rule("R9.8", "the search for Def/Def-expand/Definition tags inside a definition's contents is recursive")
    n_rec = 0
    for f in prog.find_class("DefinitionDict").all_methods:
        if "DEF_TAG_IN_DEFINITION" not in norm(f.node):
            continue
        ctx.saw(f)
        for lp in walk_no_nested(f.node):
            if isinstance(lp, ast.For) and isinstance(lp.iter, ast.Call) and call_name(lp.iter) in ("find_tags", "find_def_tags") \
                    and "DEF_TAG_IN_DEFINITION" in norm(lp):
                n_rec += 1
                kw = {k.arg: k.value for k in lp.iter.keywords if k.arg}
                pos = {"find_tags": 1, "find_def_tags": 0}[call_name(lp.iter)]
                flag = kw.get("recursive", lp.iter.args[pos] if len(lp.iter.args) > pos else None)
                ctx.check(isinstance(flag, ast.Constant) and flag.value is True, "R9.8", f.qualname, lp.iter, loc(f, lp.iter),
                          "the contents of a definition are searched for Def/Def-expand/Definition tags only at the top level of "
                          "the content group (recursive is not True): a Def nested one group deeper is accepted into the "
                          "dictionary", desc="nested-Def search is recursive")
    ctx.floor("R9.8", "nested-Def searches", n_rec, 1)

    # ---------------- R9.5: a copy of a tag does not share its cached expansion / flag with the original
    ctx.rule("R9.5", "HedTag.__deepcopy__ deep-copies the cached expansion, its flag and the parent link")
    dc = tag.methods.get("__deepcopy__")
    if dc is not None:
        ctx.saw(dc)
        shallow = any(isinstance(c, ast.Call) and call_name(c) == "update" and "__dict__" in norm(c) for c in walk_no_nested(dc.node))
        if shallow:
            copied = set()
            for n in walk_no_nested(dc.node):
                # setattr(new, name, deepcopy(getattr(self, name))) over a tuple of attribute names
                if isinstance(n, ast.For) and isinstance(n.iter, (ast.Tuple, ast.List)) and any(
                        isinstance(c, ast.Call) and call_name(c) in ("deepcopy", "copy") for c in ast.walk(n)) and any(
                        isinstance(c, ast.Call) and call_name(c) == "setattr" for c in ast.walk(n)):
                    copied |= {e.value for e in n.iter.elts if isinstance(e, ast.Constant) and isinstance(e.value, str)}
                if isinstance(n, ast.Assign) and isinstance(n.targets[0], ast.Attribute) and isinstance(n.value, ast.Call) \
                        and call_name(n.value) in ("deepcopy", "copy"):
                    copied.add(n.targets[0].attr)
            # frozen instance table: attributes of a tag that hold (or gate) tree objects
            NEED = {"_parent": "the parent group (a copy must not point into the original tree)",
                    "_expandable": "the cached expansion group, which contains this very tag",
                    "_expanded": "the typestate flag paired with the cached expansion (R9.1)"}
            for attr, why in NEED.items():
                ctx.check(attr in copied, "R9.5", dc.qualname, "deep copy of " + attr, loc(dc, dc.node),
                          "HedTag.__deepcopy__ copies __dict__ shallowly and does not deep-copy %s — %s: a copy made after "
                          "the expansion was computed shares it with the original, so expanding/shrinking the copy rewrites "
                          "the original" % (attr, why), desc="__deepcopy__ deep-copies %s" % attr)
        else:
            ctx.ok("R9.5", "HedTag.__deepcopy__ does not start from a shallow __dict__ copy", loc(dc, dc.node))
    else:
        ctx.ok("R9.5", "HedTag has no custom __deepcopy__ (default deep copy copies every attribute)", loc(tag.module, tag.node))

    # ---------------- R9.4
    n = wiring.check_wiring(ctx, "R9.4", ROWS, cfd)
    ctx.floor("R9.4", "acceptance keys", n, 9)
    hv = prog.find_method("HedValidator", "validate")
    wiring.check_wiring(ctx, "R9.4", [{"key": "ValidationErrors.HED_DEF_EXPAND_INVALID", "code": "DEF_EXPAND_INVALID"}], hv)
    # the duplicate-name rule is also enforced when dictionaries are merged
    add = dd.methods.get("_add_definition")
    if add is not None:
        va = view(ctx, add)
        sts = [n_ for n_ in va.cfg.nodes if n_.kind == "stmt" and isinstance(n_.ast, ast.Assign) and any(
            isinstance(t, ast.Subscript) and norm(t.value) == "self.defs" for t in n_.ast.targets)]
        for s_ in sts:
            g = va.guard_for(s_, lambda t: mentions(t, "defs") and isinstance(t, ast.Compare))
            ctx.check(g is not None and g[1] is False, "R9.2", add.qualname, s_.ast, loc(add, s_.ast),
                      "merging dictionaries overwrites an existing definition of the same name instead of reporting and "
                      "ignoring the duplicate", desc="_add_definition keeps the first definition of a name")

    # ---------------- R9.9: 'equals that expansion up to sibling order'
    ctx.rule("R9.9", "the Def-expand content test compares order-normalised (sorted) forms of both groups")
    from sa.dataflow import ReachingDefs, depends_on
    dv = prog.find_class("DefValidator")
    vdc = dv.methods.get("_validate_def_contents")
    if vdc is None:
        raise AnalysisError("anchor DefValidator._validate_def_contents vanished")
    ctx.saw(vdc)
    vv9 = view(ctx, vdc)
    rd9 = ReachingDefs(vdc)
    sites = [(n_, c) for (n_, c) in vv9.calls(lambda c: call_name(c).startswith("format_error") and "HED_DEF_EXPAND_INVALID" in norm(c))]
    ctx.floor("R9.9", "HED_DEF_EXPAND_INVALID sites", len(sites), 1)
    is_sorted = lambda y: isinstance(y, ast.Call) and isinstance(y.func, ast.Attribute) and y.func.attr in ("sorted", "_sorted")
    is_expansion = lambda y: isinstance(y, ast.Call) and call_name(y) == "get_definition"

    def expansion_compares(t):
        return [x for x in ast.walk(t) if isinstance(x, ast.Compare) and len(x.ops) == 1 and isinstance(x.ops[0], (ast.NotEq, ast.Eq))
                and any(depends_on(rd9, side, t, is_expansion) for side in (x.left, x.comparators[0]))]
    for n_, c in sites:
        g = vv9.guard_for(n_, lambda t: bool(expansion_compares(t)))
        cmp_ = expansion_compares(g[0].ast)[0] if g is not None else None
        if cmp_ is None:
            raise AnalysisError("R9.9 anchor: no comparison with the expansion guards HED_DEF_EXPAND_INVALID")
        ok = all(depends_on(rd9, side, cmp_, is_sorted) for side in (cmp_.left, cmp_.comparators[0]))
        ctx.check(ok, "R9.9", vdc.qualname, cmp_, loc(vdc, cmp_),
                  "`%s` compares the written Def-expand group with the expansion using group equality, which is order-sensitive, "
                  "and the stored definition contents are sorted: `(Def-expand/D, (Red, Blue))` is rejected for the definition "
                  "`(Definition/D, (Red, Blue))` while `(Def-expand/D, (Blue, Red))` is accepted" % norm(cmp_)[:60],
                  desc="Def-expand content compared on sorted forms")

    # ---------------- R9.10: the column-wise variants really write into the caller's table
    ctx.rule("R9.10", "the column-wise expand/shrink variants store through one indexer (no chained `df[col][mask] = ...`, a no-op under copy-on-write)")
    dfu = prog.find_module("models.df_util")
    n_store = 0
    for f in dfu.functions.values():
        for st in walk_no_nested(f.node):
            if isinstance(st, (ast.Assign, ast.AugAssign)):
                for t in (st.targets if isinstance(st, ast.Assign) else [st.target]):
                    if isinstance(t, ast.Subscript):
                        n_store += 1
                        ctx.saw(f)
                        chained = isinstance(t.value, ast.Subscript)
                        ctx.check(not chained, "R9.10", f.qualname, st, loc(f, st),
                                  "`%s` assigns through two successive subscripts: `df[col]` yields a temporary under pandas "
                                  "copy-on-write, so the caller's table is left unchanged (shrinking/expanding a table is silently a "
                                  "no-op), unlike the sibling variant that writes with `df.loc[mask, col] = ...`" % norm(t)[:50],
                                  desc="%s: table store through a single indexer" % f.short)
    ctx.floor("R9.10", "subscript stores in df_util", n_store, 6)

    # ---------------- R9.11: equality with the expansion looks at the plugged-in value, not at the stale written form
    ctx.rule("R9.11", "written-form tag equality is only a fallback for tags the schema did not identify")
    teq = prog.find_class("HedTag").methods.get("__eq__")
    if teq is None:
        raise AnalysisError("anchor HedTag.__eq__ vanished")
    ctx.saw(teq)
    n_before = len(ctx.obligations)
    # the written form is only a fallback for tags the schema did not identify: an identified tag whose value was
    # plugged in later (placeholder replacement) still *reads* `Tag/#` in its written form
    veq = view(ctx, teq)
    for n_ in veq.cfg.nodes:
        if n_.ast is None or n_.kind not in ("cond", "stmt"):
            continue
        roots = [n_.ast] if n_.kind == "cond" else ([n_.ast.value] if isinstance(n_.ast, (ast.Return, ast.Assign)) and n_.ast.value is not None else [])
        cmps = [c for r in roots for c in ast.walk(r) if isinstance(c, ast.Compare) and
                any(isinstance(x, ast.Attribute) and x.attr == "org_tag" for x in ast.walk(c))]
        if not cmps:
            continue
        g = veq.guard_for(n_, lambda t: mentions(t, "_schema_entry"))
        from sa.dataflow import ReachingDefs as _RD911, depends_on as _dep911
        rd911 = _RD911(teq)
        same = any(mentions(r, "_schema_entry") or _dep911(rd911, r, n_.ast, lambda y: isinstance(y, ast.Attribute) and y.attr == "_schema_entry")
                   for r in roots)
        ctx.check(g is not None or same, "R9.11", teq.qualname, cmps[0], loc(teq, cmps[0]),
                  "two tags identified by the schema are also declared equal when only their *written* forms agree: after a "
                  "placeholder is plugged in, the expansion's `Age/5` still reads `Age/#`, so a Def-expand group written with "
                  "`Age/#` is accepted as equal to the expansion with `Age/5`",
                  desc="written-form equality only for tags the schema did not identify")
    ctx.floor("R9.11", "written-form comparisons in HedTag.__eq__", len(ctx.obligations) - n_before, 1)

    # ---------------- R9.12: what the acceptance rules report reaches the dictionary's issue list
    ctx.rule("R9.12", "no issue list returned inside the definition modules is discarded")
    from sa.issues import check_no_dropped_issues
    sc12 = [f for f in prog.functions.values() if f.module.name in ("hed.models.definition_dict", "hed.models.def_expand_gather",
                                                                    "hed.models.definition_entry")]
    ns12 = check_no_dropped_issues(ctx, "R9.12", sc12)
    ctx.floor("R9.12", "issue-producing calls in the definition modules", ns12, 4)

    # ---------------- R9.13: the table-level variants are importable
    ctx.rule("R9.13", "imports inside the package name the module by its package path (a bare `from df_util import ...` cannot be resolved)")
    import sys as _sys
    std = set(getattr(_sys, "stdlib_module_names", ()))
    own = {}
    for m_ in prog.modules.values():
        own.setdefault(m_.name.rsplit(".", 1)[-1], []).append(m_.name)
    n_imp = 0
    for m_ in prog.modules.values():
        if not m_.name.startswith(("hed.models", "hed.validator")):
            continue
        for x in ast.walk(m_.tree):
            names = []
            if isinstance(x, ast.ImportFrom) and x.level == 0 and x.module:
                names = [x.module]
            elif isinstance(x, ast.Import):
                names = [a.name for a in x.names]
            for nm in names:
                n_imp += 1
                top = nm.split(".")[0]
                if "." not in nm and top in own and top not in std and top != "hed" and not any(o == top for o in own[top]):
                    ctx.violation("R9.13", m_.name, x, "%s:%d" % (m_.relpath, x.lineno),
                                  "`%s` imports `%s` as a top-level module, but it only exists as %s: the statement raises "
                                  "ModuleNotFoundError when it runs (BaseInput.expand_defs / shrink_defs cannot be called at all)"
                                  % (norm(x)[:50], nm, ", ".join(own[top])))
    ctx.ok("R9.13", "%d import statements in hed.models / hed.validator name resolvable modules" % n_imp, "")
    ctx.floor("R9.13", "imports in hed.models / hed.validator", n_imp, 80)

    # ---------------- R9.14: tree surgery finds its children by identity
    ctx.rule("R9.14", "removal / replacement inside a group locates the child by identity, not with list.remove / list.index (which use equality)")
    hgm = prog.find_module("models.hed_group")
    n_surg = 0
    for f in hgm.classes["HedGroup"].all_methods:
        for c in walk_no_nested(f.node):
            if isinstance(c, ast.Call) and isinstance(c.func, ast.Attribute) and c.func.attr in ("remove", "index") and \
                    isinstance(c.func.value, ast.Attribute) and c.func.value.attr in ("children", "_children", "_original_children"):
                n_surg += 1
                ctx.saw(f)
                ctx.violation("R9.14", f.qualname, c, loc(f, c),
                              "`%s` finds the child by equality: in `Def/A, Blue, Def/A` removing the third child takes out the first "
                              "one and leaves the requested child in the tree without a parent, so a later expand/shrink works on a "
                              "detached tag" % norm(c)[:50])
        for x in walk_no_nested(f.node):
            if isinstance(x, ast.Compare) and any(isinstance(o, (ast.Is, ast.IsNot)) for o in x.ops):
                n_surg += 1
    ctx.ok("R9.14", "children are located by identity in HedGroup (%d identity tests / child lookups)" % n_surg, "")
    ctx.floor("R9.14", "identity tests and child lookups in HedGroup", n_surg, 3)

    # ---------------- R9.15: tag/group objects are never dictionary keys or set members (they hash by value, case-folded)
    ctx.rule("R9.15", "no dict key / set element is a tag or group object drawn from an annotation (identity is kept with id() or lists)")
    ACC15 = ("children", "get_all_tags", ".tags()", "get_all_groups", ".groups()", "find_def_tags", "find_tags", "find_top_level_tags",
             "find_exact_tags", "find_wildcard_tags", "find_tags_with_term")
    n15 = 0
    for f in prog.functions.values():
        if not f.module.name.startswith(("hed.models", "hed.validator")):
            continue
        pm15 = {id(ch): p_ for p_ in ast.walk(f.node) for ch in ast.iter_child_nodes(p_)}

        assigned15 = {}
        for a_ in ast.walk(f.node):
            if isinstance(a_, ast.Assign) and len(a_.targets) == 1 and isinstance(a_.targets[0], ast.Name):
                assigned15.setdefault(a_.targets[0].id, []).append(norm(a_.value))

        def objects_iter(target, it, name):
            if isinstance(it, ast.Call) and call_name(it) == "enumerate" and isinstance(target, ast.Tuple) and target.elts \
                    and isinstance(target.elts[0], ast.Name) and target.elts[0].id == name:
                return False          # the index of enumerate
            txts = [norm(it)]
            for nm in [x.id for x in ast.walk(it) if isinstance(x, ast.Name)]:
                txts += assigned15.get(nm, [])
            return any(k in t for t in txts for k in ACC15)

        def bound_over_objects(name_node):
            cur = name_node
            while id(cur) in pm15:
                par = pm15[id(cur)]
                gens = par.generators if isinstance(par, (ast.ListComp, ast.SetComp, ast.GeneratorExp, ast.DictComp)) else []
                for g in gens:
                    if any(isinstance(t, ast.Name) and t.id == name_node.id for t in ast.walk(g.target)):
                        return objects_iter(g.target, g.iter, name_node.id)
                if isinstance(par, ast.For) and any(isinstance(t, ast.Name) and t.id == name_node.id for t in ast.walk(par.target)) \
                        and any(cur is b or any(cur is y for y in ast.walk(b)) for b in par.body):
                    return objects_iter(par.target, par.iter, name_node.id)
                cur = par
            return False
        for x in ast.walk(f.node):
            keys = []
            if isinstance(x, ast.DictComp):
                keys = [x.key]
            elif isinstance(x, ast.SetComp):
                keys = [x.elt]
            elif isinstance(x, ast.Assign):
                keys = [t.slice for t in x.targets if isinstance(t, ast.Subscript)]
            elif isinstance(x, ast.Call) and isinstance(x.func, ast.Attribute) and x.func.attr in ("add", "setdefault") and x.args:
                keys = [x.args[0]]
            for k in keys:
                if isinstance(k, ast.Name):
                    n15 += 1
                    if bound_over_objects(k):
                        ctx.saw(f)
                        ctx.violation("R9.15", f.qualname, x, loc(f, x),
                                      "`%s` is a tag/group object used as a dictionary key or set member: tags hash and compare by "
                                      "case-folded text, so two occurrences of the same Def collapse into one entry and only one of "
                                      "them is expanded / validated" % k.id)
    ctx.floor("R9.15", "name-keyed dictionary/set constructions in models and validators", n15, 10)
    ctx.ok("R9.15", "%d name-keyed dict/set constructions, none keyed by an annotation object" % n15, "")

    # ---------------- R9.16: parameters are handed on to same-named parameters of repository callees
    from sa.forward import check_forwarding
    nfw = check_forwarding(ctx, "R9.16", [f for f in prog.functions.values() if f.module.name.startswith(('hed.models.definition_dict', 'hed.models.definition_entry', 'hed.models.def_expand_gather', 'hed.validator.def_validator', 'hed.models.hed_string'))], 'e.g. the schema, the definition dictionaries')
    ctx.floor("R9.16", "same-named parameter sites", nfw, 1)

    # ---------------- R9.17: the column-wise expand/shrink variants select rows case-insensitively
    ctx.rule("R9.17", "every Def/Def-expand row mask of the column-wise helpers is case-insensitive")
    from sa.idioms import check_def_masks_case_insensitive
    check_def_masks_case_insensitive(ctx, "R9.17")
