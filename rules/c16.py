"""C16 — BIDS dataset validation: discovery calls agree on suffix and excluded directories,
walkers prune in place, no issue list is dropped, the CLI status is a pure function of the
result, sidecars are merged root->leaf with later-wins."""
import ast

from sa.callgraph import STRONG_KINDS
from sa.dataflow import ReachingDefs, depends_on
from sa.dom import view, mentions
from sa.issues import check_no_dropped_issues
from sa.model import AnalysisError, FunctionInfo, call_name, dotted, loc, norm, walk_no_nested

LEVEL_TEXT = ("Static structural proof of necessary conditions: (R16.1) the three discovery calls of a file group pass "
              "the same suffix and excluded-directory expressions (the object's own fields) and the dataset passes "
              "its exclude list to every group; (R16.2) both directory walkers narrow os.walk's directory list in "
              "place on every iteration of a top-down walk; (R16.3) no issue list is dropped between file validation "
              "and the dataset result; (R16.4) the command-line status is non-zero iff the unmodified validate result "
              "is non-empty; (R16.5) applicable sidecars are collected root->leaf and merged forward with later-wins. "
              "The applicability test on entities and equality with per-file validation are NOT decided.")
LEVEL_EXTRA = "Added after the seeded evaluation: (R16.2) both directory walkers apply the same exclusion test. (R16.6) a data file's sidecar is built from the whole list of sidecars applicable to it. (R16.7) no entity comparison in is_sidecar_for defaults a missing entity to the expected value. R16.1 also reports a file-selecting constructor parameter that is stored in a rewritten form. (R16.8) every sidecar of the group reaches the validator and a data file is read with the merged sidecar contents. (R16.9) a parameter is handed on to every repository callee that takes a parameter of the same name (11 frozen exceptions package-wide). R16.8 also requires every data file of the group to reach contents.validate."


def bind(call, callee, skip_self=False):
    """param name -> arg expr for a call to callee (positional + keyword)."""
    params = callee.params()
    if skip_self and params and params[0] in ("self", "cls"):
        params = params[1:]
    out = {}
    for i, a in enumerate(call.args):
        if isinstance(a, ast.Starred):
            break
        if i < len(params):
            out[params[i]] = a
    for kw in call.keywords:
        if kw.arg:
            out[kw.arg] = kw.value
    return out


def _eval_status(expr, env):
    """Tiny evaluator for closed status expressions over the result list."""
    if isinstance(expr, ast.Constant):
        return expr.value
    if isinstance(expr, ast.Name):
        if expr.id in env:
            return env[expr.id]
        raise ValueError(expr.id)
    if isinstance(expr, ast.Call) and isinstance(expr.func, ast.Name) and expr.func.id in ("int", "bool", "len") \
            and len(expr.args) == 1 and not expr.keywords:
        v = _eval_status(expr.args[0], env)
        return {"int": int, "bool": bool, "len": len}[expr.func.id](v)
    if isinstance(expr, ast.IfExp):
        return _eval_status(expr.body if _eval_status(expr.test, env) else expr.orelse, env)
    if isinstance(expr, ast.UnaryOp) and isinstance(expr.op, ast.Not):
        return not _eval_status(expr.operand, env)
    if isinstance(expr, ast.Compare) and len(expr.ops) == 1:
        a, b = _eval_status(expr.left, env), _eval_status(expr.comparators[0], env)
        op = expr.ops[0]
        return {ast.Gt: a > b, ast.GtE: a >= b, ast.Lt: a < b, ast.LtE: a <= b, ast.Eq: a == b,
                ast.NotEq: a != b}[type(op)] if type(op) in (ast.Gt, ast.GtE, ast.Lt, ast.LtE, ast.Eq, ast.NotEq) \
            else (_ for _ in ()).throw(ValueError("op"))
    if isinstance(expr, ast.BoolOp):
        vals = [_eval_status(v, env) for v in expr.values]
        if isinstance(expr.op, ast.And):
            r = True
            for v in vals:
                r = r and v
            return r
        r = False
        for v in vals:
            r = r or v
        return r
    raise ValueError(type(expr).__name__)


def run(ctx):
    prog, cg = ctx.prog, ctx.cg
    ctx.rule("R16.1", "discovery calls pass the same name_suffix/exclude_dirs expressions; the dataset hands its exclude list on")
    ctx.rule("R16.2", "each os.walk walker narrows the directory list in place, on every iteration, top-down")
    ctx.rule("R16.3", "no issue list returned by a validate* call is discarded on the dataset path")
    ctx.rule("R16.4", "CLI exit status = truthiness of the unmodified BidsDataset.validate result")
    ctx.rule("R16.5", "sidecar list collected root->leaf; merge iterates forward with later-wins update")
    group = prog.find_class("BidsFileGroup")
    dataset = prog.find_class("BidsDataset")
    io_util = prog.find_module("tools.util.io_util")

    # ---------------- R16.1
    # the functions that walk, and the discovery functions (taking exclude_dirs) that are or reach one
    direct = [f for f in prog.functions.values() if f.module is io_util
              and any(isinstance(n, ast.Call) and (dotted(n.func) or "") == "os.walk" for n in walk_no_nested(f.node))]
    walkers = [f for f in prog.functions.values() if f.module is io_util and "exclude_dirs" in f.params()
               and (f in direct or any(d in cg.reachable([f], STRONG_KINDS) for d in direct))]
    entries = [f for f in walkers if not f.name.startswith("_")]
    if len(entries) < 2 or not direct:
        raise AnalysisError("R16 anchor: expected two discovery functions with exclude_dirs over os.walk in io_util, found %d "
                            "(walking functions: %d)" % (len(entries), len(direct)))
    init = group.methods.get("__init__")
    field_of = {}
    for n in walk_no_nested(init.node):
        if isinstance(n, ast.Assign) and isinstance(n.value, ast.Name) and n.value.id in init.params():
            for t in n.targets:
                if isinstance(t, ast.Attribute) and isinstance(t.value, ast.Name) and t.value.id == "self":
                    field_of[n.value.id] = "self." + t.attr
        elif isinstance(n, ast.Assign) and not isinstance(n.value, ast.Name):
            # a file-selecting parameter stored as something other than itself
            for t in n.targets:
                if isinstance(t, ast.Attribute) and isinstance(t.value, ast.Name) and t.value.id == "self" \
                        and t.attr in ("suffix", "exclude_dirs"):
                    used = {x.id for x in ast.walk(n.value) if isinstance(x, ast.Name)} & {"suffix", "exclude_dirs"}
                    if used:
                        field_of.setdefault(t.attr, "self." + t.attr)
                        ctx.violation("R16.1", init.qualname, n, loc(init, n),
                                      "the %s given to the group is stored in a rewritten form: the caller's value decides which files "
                                      "belong to the group (`events` also selects a bare `events.json`), so sidecars the caller selected "
                                      "are no longer discovered, validated or merged" % t.attr)
    disc = []
    for m in group.methods.values():
        for n in walk_no_nested(m.node):
            if isinstance(n, ast.Call):
                r = prog.resolve_expr(n.func, m.module, m.cls, m)
                if isinstance(r, FunctionInfo) and r in walkers:
                    disc.append((m, n, r))
    ctx.floor("R16.1", "discovery calls in BidsFileGroup", len(disc), 2)
    want = {"name_suffix": field_of.get("suffix"), "exclude_dirs": field_of.get("exclude_dirs")}
    if None in want.values():
        raise AnalysisError("R16.1 anchor: BidsFileGroup.__init__ no longer stores suffix/exclude_dirs on self")
    for m, call, callee in disc:
        ctx.saw(m)
        ctx.count_sites()
        b = bind(call, callee)
        for p, expect in want.items():
            got = norm(b[p]) if p in b else None
            ctx.check(got == expect, "R16.1", m.qualname, call, loc(m, call),
                      "discovery call %s passes %s=%s but the group's own field is %s: sidecars and data files would be "
                      "discovered with different %s" % (callee.name, p, got, expect,
                                                       "suffixes" if p == "name_suffix" else "excluded directories"),
                      desc="%s: %s(%s=%s)" % (m.short, callee.name, p, expect))
    dinit = dataset.methods.get("__init__")
    ctx.saw(dinit)
    cons = [n for n in walk_no_nested(dinit.node) if isinstance(n, ast.Call)
            and prog.resolve_expr(n.func, dinit.module, dinit.cls, dinit) is group]
    ctx.floor("R16.1", "BidsFileGroup constructions in BidsDataset.__init__", len(cons), 1)
    for c in cons:
        b = bind(c, init, skip_self=True)
        got = norm(b["exclude_dirs"]) if "exclude_dirs" in b else None
        ctx.check(got in ("exclude_dirs", "self.exclude_dirs"), "R16.1", dinit.qualname, c, loc(dinit, c),
                  "the dataset builds a file group with exclude_dirs=%s instead of its own exclude_dirs argument: files in "
                  "excluded directories would take part" % got, desc="file group built with the dataset's exclude_dirs")

    # ---------------- R16.2
    for w in direct:
        ctx.saw(w)
        v = view(ctx, w)
        loops = [n for n in v.cfg.nodes if n.kind == "loop" and isinstance(n.ast.iter, ast.Call)
                 and (dotted(n.ast.iter.func) or "") == "os.walk"]
        for lp in loops:
            it = lp.ast.iter
            topdown = True
            for kw in it.keywords:
                if kw.arg == "topdown":
                    topdown = not (isinstance(kw.value, ast.Constant) and kw.value.value is False)
            if len(it.args) >= 2 and isinstance(it.args[1], ast.Constant) and it.args[1].value is False:
                topdown = False
            tgt = lp.ast.target
            if not (isinstance(tgt, ast.Tuple) and len(tgt.elts) == 3 and isinstance(tgt.elts[1], ast.Name)):
                raise AnalysisError("R16.2: os.walk loop target is not a 3-tuple in %s" % w.short)
            dirs = tgt.elts[1].id
            prunes = []
            rebinding = []
            for st in lp.ast.body:
                inplace = False
                for x in ast.walk(st):
                    if isinstance(x, ast.Assign):
                        for t in x.targets:
                            if isinstance(t, ast.Subscript) and isinstance(t.value, ast.Name) and t.value.id == dirs \
                                    and isinstance(t.slice, ast.Slice):
                                inplace = True
                            if isinstance(t, ast.Name) and t.id == dirs:
                                rebinding.append(x)
                    if isinstance(x, ast.Delete) and any(isinstance(t, ast.Subscript) and isinstance(t.value, ast.Name)
                                                         and t.value.id == dirs for t in x.targets):
                        inplace = True
                    if isinstance(x, ast.Call) and isinstance(x.func, ast.Attribute) and isinstance(x.func.value, ast.Name) \
                            and x.func.value.id == dirs and x.func.attr in ("remove", "clear", "pop"):
                        inplace = True
                if inplace and mentions(st, "exclude_dirs"):
                    prunes.append(st)
            prune_nodes = [n for n in v.cfg.nodes if n.ast is not None and any(n.ast is p or any(n.ast is y for y in ast.walk(p))
                                                                              for p in prunes)]
            first = [n for n in prune_nodes if any(n.ast is p for p in prunes)] or prune_nodes
            # every iteration passes a prune construct: from the loop head's body edge, the head (next iteration) and
            # the exits are not reachable while avoiding the prune nodes
            body_succ = [m for (m, l) in v.cfg.succ[lp] if l is True]
            ok = bool(first) and topdown
            if ok:
                seen = set()
                stack = list(body_succ)
                avoid = set(first)
                while stack:
                    x = stack.pop()
                    if x in seen or x in avoid:
                        continue
                    if x is lp or x is v.cfg.exit:
                        ok = False
                        break
                    seen.add(x)
                    stack.extend(m for (m, l) in v.cfg.succ[x] if l != "exc")
            why = "does not narrow `%s` in place (slice assignment / del / remove) on every iteration" % dirs
            if rebinding and not prunes:
                why = "rebinds `%s` (%s) instead of narrowing it in place: os.walk keeps descending into excluded directories" % (
                    dirs, norm(rebinding[0])[:60])
            if not topdown:
                why = "walks bottom-up (topdown=False), where narrowing the directory list has no effect"
            ctx.count_paths()
            ctx.check(ok, "R16.2", w.qualname, lp.ast.iter, loc(w, lp.ast),
                      "the walker %s; files in excluded directories take part in validation" % why,
                      desc="%s prunes `%s` in place each iteration" % (w.short, dirs))

    # the walkers decide "excluded" the same way (same test on the same form of the directory name)
    shapes = {}
    for w in direct:
        for comp in ast.walk(w.node):
            if isinstance(comp, ast.ListComp) and len(comp.generators) == 1 and comp.generators[0].ifs and \
                    isinstance(comp.generators[0].target, ast.Name) and mentions(comp, "exclude_dirs"):
                var = comp.generators[0].target.id
                conds = []
                for cnd in comp.generators[0].ifs:
                    c2 = ast.parse(norm(cnd), mode="eval").body
                    for x in ast.walk(c2):
                        if isinstance(x, ast.Name) and x.id == var:
                            x.id = "_d"
                    # the membership test itself, whatever its polarity (keep-list `not in` vs remove-list `in`)
                    tests = [y for y in ast.walk(c2) if isinstance(y, ast.Compare) and len(y.ops) == 1 and
                             isinstance(y.ops[0], (ast.In, ast.NotIn)) and mentions(y.comparators[0], "exclude_dirs")]
                    conds += ["%s in %s" % (norm(y.left), norm(y.comparators[0])) for y in tests] or [norm(c2)]
                shapes.setdefault(w, []).append(" and ".join(conds))
    if len(shapes) >= 2:
        ref_w = sorted(shapes, key=lambda f: f.qualname)[0]
        for w in sorted(shapes, key=lambda f: f.qualname)[1:]:
            ctx.check(sorted(shapes[w]) == sorted(shapes[ref_w]), "R16.2", w.qualname, "exclusion test %s" % shapes[w], loc(w, w.node),
                      "the directory walkers disagree on what 'excluded' means: %s tests `%s`, %s tests `%s` — the file list and the "
                      "directory dictionary then differ for nested directories, and files of an excluded directory take part" % (
                          w.short, "; ".join(shapes[w]), ref_w.short, "; ".join(shapes[ref_w])),
                      desc="%s and %s apply the same exclusion test" % (w.short, ref_w.short))
    ctx.floor("R16.2", "walkers with an exclusion comprehension", len(shapes), len(direct))

    # ---------------- R16.3
    scope = [dataset.methods.get("validate"), group.methods.get("validate_sidecars"), group.methods.get("validate_datafiles")]
    if any(f is None for f in scope):
        raise AnalysisError("R16.3 anchors vanished")
    check_no_dropped_issues(ctx, "R16.3", scope)
    # validate must consult both halves for every type
    dv = scope[0]
    called = {call_name(c) for c in walk_no_nested(dv.node) if isinstance(c, ast.Call)}
    for need in ("validate_sidecars", "validate_datafiles"):
        ctx.check(need in called, "R16.3", dv.qualname, "call of " + need, loc(dv, dv.node),
                  "BidsDataset.validate no longer calls %s: those issues are never part of the result" % need,
                  desc="BidsDataset.validate calls %s" % need)
    # check_for_warnings handed on
    for c in walk_no_nested(dv.node):
        if isinstance(c, ast.Call) and call_name(c) in ("validate_sidecars", "validate_datafiles"):
            callee = group.methods[call_name(c)]
            b = bind(c, callee, skip_self=True)
            ctx.check("check_for_warnings" in b and norm(b["check_for_warnings"]) == "check_for_warnings", "R16.3",
                      dv.qualname, c, loc(dv, c), "check_for_warnings is not handed on to %s" % callee.name,
                      desc="%s receives check_for_warnings" % callee.name)

    # ---------------- R16.4
    script = prog.find_module("scripts.hed_validator")
    main = script.functions.get("main")
    vd = script.functions.get("validate_dataset")
    if main is None or vd is None:
        raise AnalysisError("R16.4 anchors hed_validator.main/validate_dataset vanished")
    ctx.saw(main, vd)
    vm = view(ctx, main)
    rdm = ReachingDefs(main)
    exits = [p for (p, l) in vm.cfg.pred[vm.cfg.exit] if l != "exc"]
    for p in exits:
        a = p.ast
        if not (p.kind == "stmt" and isinstance(a, ast.Return) and a.value is not None):
            ctx.violation("R16.4", main.qualname, a if a is not None else "fall-off", loc(main, a if a is not None else main.node),
                          "main can end without returning a status (None is exit status 0 whatever the issues)")
            continue
        # substitute single-definition locals, find the result variable
        expr = a.value
        env_names = {}
        for _ in range(4):
            changed = False
            for x in list(ast.walk(expr)):
                if isinstance(x, ast.Name) and x.id not in env_names:
                    defs = rdm.at(a, x.id) or []
                    if len(defs) == 1 and defs[0].kind == "assign" and isinstance(defs[0].value, ast.Call) and \
                            call_name(defs[0].value) == vd.name:
                        env_names[x.id] = "RESULT"
                    elif len(defs) == 1 and defs[0].kind == "assign" and defs[0].value is not None and \
                            not isinstance(defs[0].value, ast.Call) or (
                            len(defs) == 1 and defs[0].kind == "assign" and isinstance(defs[0].value, ast.Call)
                            and call_name(defs[0].value) in ("int", "bool", "len")):
                        # inline
                        class _Sub(ast.NodeTransformer):
                            def visit_Name(self, node, x=x, d=defs[0]):
                                return d.value if node.id == x.id else node
                        expr = _Sub().visit(ast.parse(norm(expr), mode="eval").body)
                        changed = True
                        break
            if not changed:
                break
        res_names = [k for k, v_ in env_names.items() if v_ == "RESULT"]
        ok = False
        why = "it does not depend on the result of validate_dataset"
        if res_names:
            try:
                empty = _eval_status(expr, {res_names[0]: []})
                full = _eval_status(expr, {res_names[0]: [{"code": "X"}]})
                ok = (not empty) and bool(full) and empty is not None
                why = "it evaluates to %r for an empty issue list and %r for a non-empty one" % (empty, full)
            except (ValueError, TypeError, KeyError) as e:
                why = "it is not a recognised closed expression over the result (%s)" % e
        ctx.check(ok, "R16.4", main.qualname, a, loc(main, a),
                  "the exit status `%s` is not 'non-zero iff issues': %s" % (norm(a.value), why),
                  desc="main returns non-zero iff validate_dataset's list is non-empty")
    # validate_dataset returns the unmodified BidsDataset.validate result
    rdv = ReachingDefs(vd)
    rets = [n for n in walk_no_nested(vd.node) if isinstance(n, ast.Return)]
    ctx.floor("R16.4", "returns in validate_dataset", len(rets), 1)
    for r in rets:
        ok = False
        why = ""
        if isinstance(r.value, ast.Name):
            defs = rdv.at(r, r.value.id) or []
            src = [d for d in defs if d.kind == "assign" and isinstance(d.value, ast.Call) and call_name(d.value) == "validate"]
            ok = len(defs) == 1 and len(src) == 1
            if not ok:
                why = "the returned list has %d definitions (%s); it must be exactly the BidsDataset.validate result" % (
                    len(defs), "; ".join(norm(d.node)[:50] for d in defs))
            else:
                # not mutated in between
                for n in walk_no_nested(vd.node):
                    if isinstance(n, ast.Call) and isinstance(n.func, ast.Attribute) and isinstance(n.func.value, ast.Name) \
                            and n.func.value.id == r.value.id and n.func.attr in ("clear", "pop", "remove", "sort", "reverse",
                                                                                "extend", "append", "insert"):
                        ok = False
                        why = "the result list is modified in place by .%s()" % n.func.attr
                    if isinstance(n, (ast.Delete,)) and mentions(n, r.value.id):
                        ok = False
                        why = "entries of the result list are deleted"
        elif isinstance(r.value, ast.Call) and call_name(r.value) == "validate":
            ok = True
        else:
            why = "it returns `%s`" % (norm(r.value) if r.value is not None else "None")
        ctx.check(ok, "R16.4", vd.qualname, r, loc(vd, r),
                  "validate_dataset does not return the unmodified validation result: %s" % why,
                  desc="validate_dataset returns BidsDataset.validate(...) unmodified")

    # ---------------- R16.5
    gs = group.methods.get("get_sidecars_from_path")
    if gs is None:
        raise AnalysisError("anchor BidsFileGroup.get_sidecars_from_path vanished")
    ctx.saw(gs)
    # the collection may be split over private helpers of the class: the rule reads them together
    gs_scope = [gs] + sorted((f for f in cg.reachable([gs], STRONG_KINDS) if f.cls is group and f is not gs and f.name.startswith("_")),
                             key=lambda f: f.qualname)
    rev_at = [(f, r) for f in gs_scope for r in _reversal_ops(f.node)]
    rf, rev = (rev_at[0][0], [rev_at[0][1]]) if rev_at else (gs, [])
    ctx.check(not rev, "R16.5", rf.qualname, rev[0] if rev else "no reversal", loc(rf, rev[0] if rev else rf.node),
              "the applicable-sidecar list is reversed / built front-first: shallower sidecars would override deeper ones",
              desc="no reversal or front insertion while collecting sidecars")
    root_first = False
    for f in gs_scope:
        ctx.saw(f)
        rdg = ReachingDefs(f)
        for lp in walk_no_nested(f.node):
            if not isinstance(lp, (ast.For, ast.ListComp, ast.GeneratorExp)):
                continue
            it = lp.iter if isinstance(lp, ast.For) else lp.generators[0].iter

            def rootfirst(x):
                return isinstance(x, ast.BinOp) and isinstance(x.op, ast.Add) and isinstance(x.left, ast.List) \
                    and x.left.elts and mentions(x.left.elts[0], "root_path")
            if depends_on(rdg, it, lp, rootfirst):
                root_first = True
    ctx.check(root_first, "R16.5", gs.qualname, "iteration order", loc(gs, gs.node),
              "the path components are no longer iterated starting from the dataset root",
              desc="components iterated from [root] + sub-directories")
    sc = prog.find_class("Sidecar")
    ls = sc.methods.get("load_sidecar_files")
    if ls is None:
        raise AnalysisError("anchor Sidecar.load_sidecar_files vanished")
    ctx.saw(ls)
    rev = _reversal_ops(ls.node)
    ctx.check(not rev, "R16.5", ls.qualname, rev[0] if rev else "no reversal", loc(ls, rev[0] if rev else ls.node),
              "the sidecar files are merged in reverse order", desc="files merged in the order given")
    merges = []
    for lp in walk_no_nested(ls.node):
        if isinstance(lp, ast.For) and mentions(lp.iter, "files"):
            for x in ast.walk(lp):
                if isinstance(x, ast.Call) and isinstance(x.func, ast.Attribute) and x.func.attr in ("update", "setdefault"):
                    merges.append(x)
                if isinstance(x, ast.Assign) and isinstance(x.value, ast.Dict) and any(k is None for k in x.value.keys):
                    merges.append(x)
                if isinstance(x, (ast.Assign, ast.AugAssign)) and isinstance(x.value, ast.BinOp) and isinstance(x.value.op, ast.BitOr):
                    merges.append(x)
                if isinstance(x, ast.AugAssign) and isinstance(x.op, ast.BitOr):
                    merges.append(x)
    ctx.floor("R16.5", "merge statements in load_sidecar_files", len(merges), 1)
    returned = {x.id for r in walk_no_nested(ls.node) if isinstance(r, ast.Return) and r.value is not None
                for x in ast.walk(r.value) if isinstance(x, ast.Name)}
    for mg in merges:
        ok = False
        why = "unrecognised merge form"
        if isinstance(mg, ast.Call) and mg.func.attr == "update" and isinstance(mg.func.value, ast.Name) \
                and mg.func.value.id in returned:
            ok = True
        elif isinstance(mg, ast.Call) and mg.func.attr == "update":
            why = "update() is applied to `%s`, which is not the accumulated result: earlier files win" % norm(mg.func.value)
        elif isinstance(mg, ast.Call) and mg.func.attr == "setdefault":
            why = "setdefault keeps the earlier (shallower) value"
        elif isinstance(mg, ast.Assign) and isinstance(mg.value, ast.Dict):
            # {**acc, **new}: later wins only when the accumulated dict comes first
            vals = [v for k, v in zip(mg.value.keys, mg.value.values) if k is None]
            ok = len(vals) == 2 and isinstance(vals[0], ast.Name) and vals[0].id in returned
            why = "dict display merges the accumulated result last: earlier files win"
        elif isinstance(mg, ast.AugAssign) and isinstance(mg.op, ast.BitOr):
            ok = isinstance(mg.target, ast.Name) and mg.target.id in returned
        elif isinstance(mg.value, ast.BinOp):
            ok = isinstance(mg.value.left, ast.Name) and mg.value.left.id in returned
            why = "`a | b` with the accumulated result on the right: earlier files win"
        ctx.check(ok, "R16.5", ls.qualname, mg, loc(ls, mg),
                  "merged sidecar entries are not later-wins: %s" % why, desc="later file overrides earlier per column key")

    # ---------------- R16.6: an events file is given the merge of *its* applicable sidecars
    ctx.rule("R16.6", "the sidecar attached to a data file is built from the whole list of sidecars applicable to that file")
    ginit = group.methods.get("__init__")
    if ginit is None:
        raise AnalysisError("anchor BidsFileGroup.__init__ vanished")
    ctx.saw(ginit)
    n_attach = 0
    for lp in walk_no_nested(ginit.node):
        if not isinstance(lp, ast.For):
            continue
        attach = [st for st in ast.walk(lp) if isinstance(st, ast.Assign) and any(isinstance(t, ast.Attribute) and t.attr == "sidecar" for t in st.targets)]
        if not attach:
            continue
        lists = [st.targets[0].id for st in ast.walk(lp) if isinstance(st, ast.Assign) and isinstance(st.targets[0], ast.Name)
                 and isinstance(st.value, ast.Call) and call_name(st.value) == "get_sidecars_from_path"]
        for st in attach:
            n_attach += 1
            whole = False
            parents = {}
            for p_ in ast.walk(lp):
                for ch in ast.iter_child_nodes(p_):
                    parents[id(ch)] = p_
            for x in ast.walk(lp):
                if isinstance(x, ast.Name) and x.id in lists and isinstance(x.ctx, ast.Load):
                    par = parents.get(id(x))
                    if isinstance(par, (ast.Call, ast.keyword)):      # passed on as a whole
                        whole = True
            ctx.check(whole, "R16.6", ginit.qualname, st, loc(ginit, st),
                      "the data file is given one element of its sidecar list (`%s`), i.e. the deepest sidecar as merged for *that sidecar's* "
                      "entities: an applicable shallower sidecar that names an entity the deepest one does not (root `task-A_events.json` + "
                      "`sub-01/sub-01_events.json`) is dropped from the events file's annotation" % norm(st.value)[:50],
                      desc="data file's sidecar built from its whole sidecar list")
    ctx.floor("R16.6", "sidecar attachments in BidsFileGroup.__init__", n_attach, 1)

    # ---------------- R16.7: an entity the sidecar names must be present in the data file with the same value
    ctx.rule("R16.7", "in is_sidecar_for no entity comparison defaults a missing entity to the expected value")
    isf = prog.find_class("BidsSidecarFile").methods.get("is_sidecar_for")
    if isf is None:
        raise AnalysisError("anchor BidsSidecarFile.is_sidecar_for vanished")
    ctx.saw(isf)
    n_ent = 0
    for c in walk_no_nested(isf.node):
        if isinstance(c, ast.Compare) and len(c.ops) == 1 and isinstance(c.ops[0], (ast.Eq, ast.NotEq)) and "entity_dict" in norm(c):
            n_ent += 1
            sides = [c.left, c.comparators[0]]
            bad = False
            for a, b in (sides, sides[::-1]):
                if isinstance(a, ast.Call) and call_name(a) == "get" and len(a.args) == 2 and norm(a.args[1]) == norm(b):
                    bad = True
            ctx.check(not bad, "R16.7", isf.qualname, c, loc(isf, c),
                      "a missing entity is read with the expected value as its default, so it compares equal: a sidecar that names "
                      "`run-1` or `task-x` is applied to data files that lack that entity",
                      desc="entity comparison does not default to the expected value")
    ctx.floor("R16.7", "entity value comparisons in is_sidecar_for", n_ent, 1)

    # ---------------- R16.8: every sidecar of the group is validated
    ctx.rule("R16.8", "validate_sidecars hands every sidecar of the group to the validator; data files get the merged contents")
    from sa.dom import iteration_can_skip, view as _view16
    vsd = group.methods.get("validate_sidecars")
    if vsd is None:
        raise AnalysisError("anchor BidsFileGroup.validate_sidecars vanished")
    ctx.saw(vsd)
    v168 = _view16(ctx, vsd)
    vcalls = [n_ for (n_, c) in v168.calls(lambda c: call_name(c) == "validate")]
    loops168 = [lp for lp in walk_no_nested(vsd.node) if isinstance(lp, ast.For) and "sidecar_dict" in norm(lp.iter)]
    ctx.floor("R16.8", "per-sidecar loops in validate_sidecars", len(loops168), 1)
    for lp in loops168:
        ctx.check(bool(vcalls) and not iteration_can_skip(v168, lp, vcalls), "R16.8", vsd.qualname, lp.iter, loc(vsd, lp),
                  "a sidecar of the group can be passed over without being validated: its issues (e.g. a HED key below the level where "
                  "`has_hed` looks) are missing from the dataset result and the command line exits 0",
                  desc="every sidecar reaches validator.validate")
    # ... and every data file of the group (a file without HED still has its structure and onset order checked)
    vdf = group.methods.get("validate_datafiles")
    if vdf is None:
        raise AnalysisError("anchor BidsFileGroup.validate_datafiles vanished")
    ctx.saw(vdf)
    v168d = _view16(ctx, vdf)
    dcalls = [n_ for (n_, c) in v168d.calls(lambda c: call_name(c) == "validate")]
    loops168d = [lp for lp in walk_no_nested(vdf.node) if isinstance(lp, ast.For) and "datafile_dict" in norm(lp.iter)]
    ctx.floor("R16.8", "per-file loops in validate_datafiles", len(loops168d), 1)
    for lp in loops168d:
        ctx.check(bool(dcalls) and not iteration_can_skip(v168d, lp, dcalls), "R16.8", vdf.qualname, lp.iter, loc(vdf, lp),
                  "a data file of the group can be passed over without being validated: what validating that file alone reports "
                  "(e.g. unordered onsets in a file without HED) is missing from the dataset result and from the exit status",
                  desc="every data file reaches contents.validate")
    # the table of a data file is built with the merged sidecar contents, not with one file
    sc8 = prog.find_class("BidsTabularFile").methods.get("set_contents")
    if sc8 is None:
        raise AnalysisError("anchor BidsTabularFile.set_contents vanished")
    ctx.saw(sc8)
    n_ti = 0
    for c in walk_no_nested(sc8.node):
        if isinstance(c, ast.Call) and call_name(c) == "TabularInput":
            a = cg.arg(c, "sidecar")
            if a is None:
                continue
            n_ti += 1
            ctx.check("contents" in norm(a), "R16.8", sc8.qualname, c, loc(sc8, c),
                      "the events file is read with `%s` instead of the merged contents of its sidecar object: only the deepest JSON "
                      "file applies and what the shallower ones supply (definitions, other columns) is lost" % norm(a),
                      desc="TabularInput gets the merged sidecar contents")
    ctx.floor("R16.8", "TabularInput constructions with a sidecar in set_contents", n_ti, 1)

    # ---------------- R16.9: parameters are handed on to same-named parameters of repository callees
    from sa.forward import check_forwarding
    nfw = check_forwarding(ctx, "R16.9", [f for f in prog.functions.values() if f.module.name.startswith(('hed.tools.bids', 'hed.scripts'))], 'e.g. the warnings switch, extra definitions, excluded directories')
    ctx.floor("R16.9", "same-named parameter sites", nfw, 1)


def _reversal_ops(fnode):
    out = []
    for n in walk_no_nested(fnode):
        if isinstance(n, ast.Call):
            nm = call_name(n)
            if nm in ("reversed", "reverse"):
                out.append(n)
            if nm == "insert" and n.args and isinstance(n.args[0], ast.Constant) and n.args[0].value == 0:
                out.append(n)
            if nm in ("sort", "sorted") and any(kw.arg == "reverse" for kw in n.keywords):
                out.append(n)
        if isinstance(n, ast.Subscript) and isinstance(n.slice, ast.Slice) and n.slice.step is not None and \
                isinstance(n.slice.step, ast.UnaryOp):
            out.append(n)
    return out
